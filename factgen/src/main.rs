// factgen: a rustc_private driver that dumps the type-checked program of a
// workspace crate as JSON facts (typed HIR per body, MIR CFG per body, ADTs,
// impls).  Injected with RUSTC_WORKSPACE_WRAPPER under `cargo +nightly check`.
// It executes nothing of the analysed program.
#![feature(rustc_private)]
#![allow(clippy::all)]

extern crate rustc_abi;
extern crate rustc_ast;
extern crate rustc_data_structures;
extern crate rustc_driver;
extern crate rustc_hir;
extern crate rustc_interface;
extern crate rustc_middle;
extern crate rustc_session;
extern crate rustc_span;

use std::collections::HashMap;
use std::fmt::Write as _;

use rustc_driver::Compilation;
use rustc_hir as hir;
use rustc_hir::def::{DefKind, Res};
use rustc_hir::def_id::{DefId, LocalDefId, LOCAL_CRATE};
use rustc_middle::mir;
use rustc_middle::ty::print::{PrintTraitRefExt, with_crate_prefix, with_no_trimmed_paths, with_no_visible_paths};
use rustc_middle::ty::{self, Ty, TyCtxt};
use rustc_span::Span;

// ---------------------------------------------------------------- JSON value

enum V {
    Null,
    B(bool),
    I(i128),
    S(String),
    A(Vec<V>),
    O(Vec<(&'static str, V)>),
}

fn esc(s: &str, out: &mut String) {
    out.push('"');
    for c in s.chars() {
        match c {
            '"' => out.push_str("\\\""),
            '\\' => out.push_str("\\\\"),
            '\n' => out.push_str("\\n"),
            '\r' => out.push_str("\\r"),
            '\t' => out.push_str("\\t"),
            c if (c as u32) < 0x20 => {
                let _ = write!(out, "\\u{:04x}", c as u32);
            }
            c => out.push(c),
        }
    }
    out.push('"');
}

impl V {
    fn write(&self, out: &mut String) {
        match self {
            V::Null => out.push_str("null"),
            V::B(b) => out.push_str(if *b { "true" } else { "false" }),
            V::I(i) => {
                let _ = write!(out, "{}", i);
            }
            V::S(s) => esc(s, out),
            V::A(a) => {
                out.push('[');
                for (i, v) in a.iter().enumerate() {
                    if i > 0 {
                        out.push(',');
                    }
                    v.write(out);
                }
                out.push(']');
            }
            V::O(o) => {
                out.push('{');
                let mut first = true;
                for (k, v) in o.iter() {
                    if let V::Null = v {
                        continue;
                    }
                    if !first {
                        out.push(',');
                    }
                    first = false;
                    esc(k, out);
                    out.push(':');
                    v.write(out);
                }
                out.push('}');
            }
        }
    }
}

fn s<T: Into<String>>(x: T) -> V {
    V::S(x.into())
}

// ---------------------------------------------------------------- context

struct Cx<'tcx> {
    tcx: TyCtxt<'tcx>,
    types: HashMap<String, usize>,
    type_list: Vec<String>,
}

impl<'tcx> Cx<'tcx> {
    fn path(&self, did: DefId) -> String {
        with_crate_prefix!(with_no_visible_paths!(with_no_trimmed_paths!(self
            .tcx
            .def_path_str(did))))
    }

    fn path_args(&self, did: DefId, args: ty::GenericArgsRef<'tcx>) -> String {
        with_crate_prefix!(with_no_visible_paths!(with_no_trimmed_paths!(self
            .tcx
            .def_path_str_with_args(did, args))))
    }

    fn ty_str(&self, t: Ty<'tcx>) -> String {
        with_crate_prefix!(with_no_visible_paths!(with_no_trimmed_paths!(format!("{}", t))))
    }

    fn ty(&mut self, t: Ty<'tcx>) -> V {
        let st = self.ty_str(t);
        if let Some(i) = self.types.get(&st) {
            return V::I(*i as i128);
        }
        let i = self.type_list.len();
        self.types.insert(st.clone(), i);
        self.type_list.push(st);
        V::I(i as i128)
    }

    fn span(&self, sp: Span) -> V {
        let sm = self.tcx.sess.source_map();
        // location of the outermost call site (what the user wrote)
        let cs = sp.source_callsite();
        let lo = sm.lookup_char_pos(cs.lo());
        let hi = sm.lookup_char_pos(cs.hi());
        let file = match &lo.file.name {
            rustc_span::FileName::Real(r) => match r.local_path() {
                Some(p) => p.to_string_lossy().to_string(),
                None => format!("{:?}", lo.file.name),
            },
            other => format!("{:?}", other),
        };
        s(format!("{}:{}:{}:{}:{}", file, lo.line, lo.col.0 + 1, hi.line, hi.col.0 + 1))
    }

    fn expn(&self, sp: Span) -> V {
        if !sp.from_expansion() {
            return V::Null;
        }
        // chain of expansions, outermost (what the user wrote) first
        let mut chain: Vec<String> = Vec::new();
        let mut cur = sp;
        let mut guard = 0;
        while cur.from_expansion() && guard < 8 {
            let d = cur.ctxt().outer_expn_data();
            let k = match d.kind {
                rustc_span::ExpnKind::Root => "root".to_string(),
                rustc_span::ExpnKind::Macro(mk, name) => format!("{}:{}", mk.descr(), name),
                rustc_span::ExpnKind::AstPass(p) => format!("astpass:{:?}", p),
                rustc_span::ExpnKind::Desugaring(dk) => format!("desugar:{:?}", dk),
            };
            chain.push(k);
            cur = d.call_site;
            guard += 1;
        }
        chain.reverse();
        s(chain.join(">"))
    }
}

// ---------------------------------------------------------------- HIR dump

struct BodyCx<'a, 'tcx> {
    cx: &'a mut Cx<'tcx>,
    tr: &'tcx ty::TypeckResults<'tcx>,
    owner: LocalDefId,
}

impl<'a, 'tcx> BodyCx<'a, 'tcx> {
    fn tcx(&self) -> TyCtxt<'tcx> {
        self.cx.tcx
    }

    fn res(&mut self, res: Res, hir_id: hir::HirId) -> Vec<(&'static str, V)> {
        let mut o = Vec::new();
        match res {
            Res::Local(id) => {
                o.push(("res", s("local")));
                o.push(("lid", V::I(id.local_id.as_u32() as i128)));
                o.push(("name", s(self.tcx().hir_name(id).to_string())));
            }
            Res::Def(kind, did) => {
                o.push(("res", s(format!("{:?}", kind))));
                o.push(("def", s(self.cx.path(did))));
                if let Some(args) = self.tr.node_args_opt(hir_id) {
                    if !args.is_empty() {
                        o.push(("defargs", s(self.cx.path_args(did, args))));
                        // try to resolve trait items to a concrete impl item
                        if matches!(kind, DefKind::AssocFn | DefKind::AssocConst { .. } | DefKind::Fn) {
                            if let Some(r) = self.resolve(did, args) {
                                o.push(("inst", s(r)));
                            }
                        }
                    }
                }
                if let DefKind::Ctor(of, _) = kind {
                    // parent of a ctor is the variant or the struct
                    let parent = self.tcx().parent(did);
                    o.push(("ctor_of", s(format!("{:?}", of))));
                    o.push(("ctor_parent", s(self.cx.path(parent))));
                }
            }
            Res::SelfCtor(did) => {
                o.push(("res", s("SelfCtor")));
                o.push(("def", s(self.cx.path(did))));
            }
            Res::SelfTyAlias { alias_to, .. } => {
                o.push(("res", s("SelfTyAlias")));
                o.push(("def", s(self.cx.path(alias_to))));
            }
            Res::SelfTyParam { trait_ } => {
                o.push(("res", s("SelfTyParam")));
                o.push(("def", s(self.cx.path(trait_))));
            }
            Res::PrimTy(p) => {
                o.push(("res", s("PrimTy")));
                o.push(("def", s(p.name_str())));
            }
            other => {
                o.push(("res", s(format!("{:?}", other))));
            }
        }
        o
    }

    fn resolve(&self, did: DefId, args: ty::GenericArgsRef<'tcx>) -> Option<String> {
        let tcx = self.tcx();
        // only attempt if args mention no inference vars (they do not after typeck)
        let env = ty::TypingEnv::post_analysis(tcx, self.owner.to_def_id());
        let args = tcx.try_normalize_erasing_regions(env, ty::Unnormalized::new_wip(args));
        let args = match args {
            Ok(a) => a,
            Err(_) => return None,
        };
        match ty::Instance::try_resolve(tcx, env, did, args) {
            Ok(Some(inst)) => {
                let d = inst.def_id();
                if d != did {
                    Some(self.cx.path(d))
                } else {
                    None
                }
            }
            _ => None,
        }
    }

    fn qpath(&mut self, qp: &hir::QPath<'tcx>, hir_id: hir::HirId) -> Vec<(&'static str, V)> {
        let res = self.tr.qpath_res(qp, hir_id);
        self.res(res, hir_id)
    }

    fn lit(&mut self, l: &hir::Lit, neg: bool) -> V {
        use rustc_ast::LitKind as L;
        let mut o: Vec<(&'static str, V)> = Vec::new();
        match &l.node {
            L::Str(sym, _) => {
                o.push(("lk", s("str")));
                o.push(("v", s(sym.as_str())));
            }
            L::ByteStr(bs, _) | L::CStr(bs, _) => {
                o.push(("lk", s("bytes")));
                o.push(("v", V::A(bs.as_byte_str().iter().map(|b| V::I(*b as i128)).collect())));
            }
            L::Byte(b) => {
                o.push(("lk", s("int")));
                o.push(("v", V::I(*b as i128)));
            }
            L::Char(c) => {
                o.push(("lk", s("char")));
                o.push(("v", s(c.to_string())));
            }
            L::Int(n, _) => {
                o.push(("lk", s("int")));
                let v = n.get() as i128;
                // u128 > i128::MAX is emitted as a decimal string
                if n.get() > i128::MAX as u128 {
                    o.push(("v", s(format!("{}", n.get()))));
                } else {
                    o.push(("v", V::I(if neg { -v } else { v })));
                }
            }
            L::Float(sym, _) => {
                o.push(("lk", s("float")));
                o.push(("v", s(if neg { format!("-{}", sym.as_str()) } else { sym.as_str().to_string() })));
            }
            L::Bool(b) => {
                o.push(("lk", s("bool")));
                o.push(("v", V::B(*b)));
            }
            L::Err(_) => {
                o.push(("lk", s("err")));
            }
        }
        V::O(o)
    }

    fn pat(&mut self, p: &hir::Pat<'tcx>) -> V {
        use hir::PatKind as P;
        let mut o: Vec<(&'static str, V)> = Vec::new();
        let t = self.tr.pat_ty(p);
        match &p.kind {
            P::Missing => o.push(("k", s("Missing"))),
            P::Wild => o.push(("k", s("Wild"))),
            P::Never => o.push(("k", s("Never"))),
            P::Binding(mode, id, ident, sub) => {
                o.push(("k", s("Binding")));
                o.push(("lid", V::I(id.local_id.as_u32() as i128)));
                o.push(("name", s(ident.name.as_str())));
                o.push(("mode", s(format!("{:?}", mode))));
                if let Some(sp) = sub {
                    o.push(("sub", self.pat(sp)));
                }
            }
            P::Struct(qp, fields, rest) => {
                o.push(("k", s("Struct")));
                o.extend(self.qpath(qp, p.hir_id));
                let fs = fields
                    .iter()
                    .map(|f| V::O(vec![("f", s(f.ident.name.as_str())), ("p", self.pat(f.pat))]))
                    .collect();
                o.push(("fields", V::A(fs)));
                o.push(("rest", V::B(rest.is_some())));
            }
            P::TupleStruct(qp, pats, ddpos) => {
                o.push(("k", s("TupleStruct")));
                o.extend(self.qpath(qp, p.hir_id));
                o.push(("pats", V::A(pats.iter().map(|x| self.pat(x)).collect())));
                if let Some(d) = ddpos.as_opt_usize() {
                    o.push(("dd", V::I(d as i128)));
                }
            }
            P::Or(pats) => {
                o.push(("k", s("Or")));
                o.push(("pats", V::A(pats.iter().map(|x| self.pat(x)).collect())));
            }
            P::Tuple(pats, ddpos) => {
                o.push(("k", s("Tuple")));
                o.push(("pats", V::A(pats.iter().map(|x| self.pat(x)).collect())));
                if let Some(d) = ddpos.as_opt_usize() {
                    o.push(("dd", V::I(d as i128)));
                }
            }
            P::Box(x) => {
                o.push(("k", s("Box")));
                o.push(("p", self.pat(x)));
            }
            P::Deref(x) => {
                o.push(("k", s("Deref")));
                o.push(("p", self.pat(x)));
            }
            P::Ref(x, _, m) => {
                o.push(("k", s("Ref")));
                o.push(("mut", V::B(m.is_mut())));
                o.push(("p", self.pat(x)));
            }
            P::Expr(pe) => {
                o.push(("k", s("Expr")));
                o.push(("e", self.pat_expr(pe)));
            }
            P::Guard(x, g) => {
                o.push(("k", s("Guard")));
                o.push(("p", self.pat(x)));
                o.push(("guard", self.expr(g)));
            }
            P::Range(a, b, end) => {
                o.push(("k", s("Range")));
                if let Some(a) = a {
                    o.push(("lo", self.pat_expr(a)));
                }
                if let Some(b) = b {
                    o.push(("hi", self.pat_expr(b)));
                }
                o.push(("end", s(format!("{:?}", end))));
            }
            P::Slice(a, m, b) => {
                o.push(("k", s("Slice")));
                o.push(("pre", V::A(a.iter().map(|x| self.pat(x)).collect())));
                if let Some(m) = m {
                    o.push(("mid", self.pat(m)));
                }
                o.push(("post", V::A(b.iter().map(|x| self.pat(x)).collect())));
            }
            P::Err(_) => o.push(("k", s("Err"))),
        }
        o.push(("ty", self.cx.ty(t)));
        V::O(o)
    }

    fn pat_expr(&mut self, pe: &hir::PatExpr<'tcx>) -> V {
        match &pe.kind {
            hir::PatExprKind::Lit { lit, negated } => {
                let mut o = vec![("k", s("Lit"))];
                o.push(("lit", self.lit(lit, *negated)));
                V::O(o)
            }
            hir::PatExprKind::Path(qp) => {
                let mut o = vec![("k", s("Path"))];
                o.extend(self.qpath(qp, pe.hir_id));
                V::O(o)
            }
        }
    }

    fn block(&mut self, b: &hir::Block<'tcx>) -> V {
        let mut stmts = Vec::new();
        for st in b.stmts {
            match &st.kind {
                hir::StmtKind::Let(l) => {
                    let mut o = vec![("k", s("Let")), ("pat", self.pat(l.pat))];
                    if let Some(i) = l.init {
                        o.push(("init", self.expr(i)));
                    }
                    if let Some(e) = l.els {
                        o.push(("els", self.block(e)));
                    }
                    o.push(("sp", self.cx.span(st.span)));
                    stmts.push(V::O(o));
                }
                hir::StmtKind::Item(_) => {}
                hir::StmtKind::Expr(e) => {
                    stmts.push(V::O(vec![("k", s("Expr")), ("e", self.expr(e))]));
                }
                hir::StmtKind::Semi(e) => {
                    stmts.push(V::O(vec![("k", s("Semi")), ("e", self.expr(e))]));
                }
            }
        }
        let mut o = vec![("stmts", V::A(stmts))];
        if let Some(e) = b.expr {
            o.push(("expr", self.expr(e)));
        }
        V::O(o)
    }

    fn expr(&mut self, e: &hir::Expr<'tcx>) -> V {
        use hir::ExprKind as E;
        let mut o: Vec<(&'static str, V)> = Vec::new();
        let k: &'static str;
        match &e.kind {
            E::ConstBlock(cb) => {
                k = "ConstBlock";
                let body = self.tcx().hir_body(cb.body);
                o.push(("e", self.expr(body.value)));
            }
            E::Array(xs) => {
                k = "Array";
                o.push(("args", V::A(xs.iter().map(|x| self.expr(x)).collect())));
            }
            E::Call(f, args) => {
                k = "Call";
                o.push(("f", self.expr(f)));
                o.push(("args", V::A(args.iter().map(|x| self.expr(x)).collect())));
            }
            E::MethodCall(seg, recv, args, _) => {
                k = "MethodCall";
                o.push(("m", s(seg.ident.name.as_str())));
                if let Some(did) = self.tr.type_dependent_def_id(e.hir_id) {
                    o.push(("def", s(self.cx.path(did))));
                    let args_ = self.tr.node_args(e.hir_id);
                    o.push(("defargs", s(self.cx.path_args(did, args_))));
                    if let Some(r) = self.resolve(did, args_) {
                        o.push(("inst", s(r)));
                    }
                }
                o.push(("recv", self.expr(recv)));
                o.push(("args", V::A(args.iter().map(|x| self.expr(x)).collect())));
            }
            E::Use(x, _) => {
                k = "Use";
                o.push(("e", self.expr(x)));
            }
            E::Tup(xs) => {
                k = "Tup";
                o.push(("args", V::A(xs.iter().map(|x| self.expr(x)).collect())));
            }
            E::Binary(op, a, b) => {
                k = "Binary";
                o.push(("op", s(op.node.as_str())));
                if let Some(did) = self.tr.type_dependent_def_id(e.hir_id) {
                    o.push(("def", s(self.cx.path(did))));
                }
                o.push(("l", self.expr(a)));
                o.push(("r", self.expr(b)));
            }
            E::Unary(op, a) => {
                k = "Unary";
                o.push(("op", s(op.as_str())));
                if let Some(did) = self.tr.type_dependent_def_id(e.hir_id) {
                    o.push(("def", s(self.cx.path(did))));
                }
                o.push(("e", self.expr(a)));
            }
            E::Lit(l) => {
                k = "Lit";
                o.push(("lit", self.lit(l, false)));
            }
            E::Cast(x, _) => {
                k = "Cast";
                o.push(("e", self.expr(x)));
            }
            E::Type(x, _) => {
                k = "Type";
                o.push(("e", self.expr(x)));
            }
            E::DropTemps(x) => {
                k = "DropTemps";
                o.push(("e", self.expr(x)));
            }
            E::Let(l) => {
                k = "LetExpr";
                o.push(("pat", self.pat(l.pat)));
                o.push(("init", self.expr(l.init)));
            }
            E::If(c, t, f) => {
                k = "If";
                o.push(("c", self.expr(c)));
                o.push(("t", self.expr(t)));
                if let Some(f) = f {
                    o.push(("f", self.expr(f)));
                }
            }
            E::Loop(b, label, src, _) => {
                k = "Loop";
                o.push(("src", s(format!("{:?}", src))));
                if let Some(l) = label {
                    o.push(("label", s(l.ident.name.as_str())));
                }
                o.push(("hid", V::I(e.hir_id.local_id.as_u32() as i128)));
                o.push(("b", self.block(b)));
            }
            E::Match(x, arms, src) => {
                k = "Match";
                o.push((
                    "src",
                    s(match src {
                        hir::MatchSource::Normal => "Normal".to_string(),
                        hir::MatchSource::Postfix => "Postfix".to_string(),
                        hir::MatchSource::ForLoopDesugar => "ForLoopDesugar".to_string(),
                        hir::MatchSource::TryDesugar(_) => "TryDesugar".to_string(),
                        hir::MatchSource::AwaitDesugar => "AwaitDesugar".to_string(),
                        hir::MatchSource::FormatArgs => "FormatArgs".to_string(),
                    }),
                ));
                o.push(("e", self.expr(x)));
                let mut av = Vec::new();
                for arm in arms.iter() {
                    let mut ao = vec![("pat", self.pat(arm.pat))];
                    if let Some(g) = arm.guard {
                        ao.push(("guard", self.expr(g)));
                    }
                    ao.push(("body", self.expr(arm.body)));
                    ao.push(("sp", self.cx.span(arm.span)));
                    av.push(V::O(ao));
                }
                o.push(("arms", V::A(av)));
            }
            E::Closure(c) => {
                k = "Closure";
                let body = self.tcx().hir_body(c.body);
                o.push(("cdef", s(self.cx.path(c.def_id.to_def_id()))));
                o.push(("params", V::A(body.params.iter().map(|p| self.pat(p.pat)).collect())));
                o.push(("byvalue", V::B(matches!(c.capture_clause, hir::CaptureBy::Value { .. }))));
                let mut caps = Vec::new();
                for cap in self.tcx().closure_captures(c.def_id) {
                    let mut co: Vec<(&'static str, V)> = Vec::new();
                    if let rustc_middle::hir::place::PlaceBase::Upvar(up) = cap.place.base {
                        co.push(("lid", V::I(up.var_path.hir_id.local_id.as_u32() as i128)));
                        co.push(("name", s(self.tcx().hir_name(up.var_path.hir_id).to_string())));
                    }
                    co.push(("nproj", V::I(cap.place.projections.len() as i128)));
                    co.push(("kind", s(format!("{:?}", cap.info.capture_kind))));
                    co.push(("ty", self.cx.ty(cap.place.ty())));
                    caps.push(V::O(co));
                }
                o.push(("captures", V::A(caps)));
                o.push(("body", self.expr(body.value)));
            }
            E::Block(b, label) => {
                k = "Block";
                if let Some(l) = label {
                    o.push(("label", s(l.ident.name.as_str())));
                    o.push(("hid", V::I(e.hir_id.local_id.as_u32() as i128)));
                }
                if !matches!(b.rules, hir::BlockCheckMode::DefaultBlock) {
                    o.push(("unsafe", V::B(true)));
                }
                o.push(("b", self.block(b)));
            }
            E::Assign(a, b, _) => {
                k = "Assign";
                o.push(("l", self.expr(a)));
                o.push(("r", self.expr(b)));
            }
            E::AssignOp(op, a, b) => {
                k = "AssignOp";
                o.push(("op", s(op.node.as_str())));
                if let Some(did) = self.tr.type_dependent_def_id(e.hir_id) {
                    o.push(("def", s(self.cx.path(did))));
                }
                o.push(("l", self.expr(a)));
                o.push(("r", self.expr(b)));
            }
            E::Field(x, ident) => {
                k = "Field";
                o.push(("f", s(ident.name.as_str())));
                o.push(("e", self.expr(x)));
            }
            E::Index(a, b, _) => {
                k = "Index";
                if let Some(did) = self.tr.type_dependent_def_id(e.hir_id) {
                    o.push(("def", s(self.cx.path(did))));
                }
                o.push(("l", self.expr(a)));
                o.push(("r", self.expr(b)));
            }
            E::Path(qp) => {
                k = "Path";
                o.extend(self.qpath(qp, e.hir_id));
            }
            E::AddrOf(_, m, x) => {
                k = "AddrOf";
                o.push(("mut", V::B(m.is_mut())));
                o.push(("e", self.expr(x)));
            }
            E::Break(dest, x) => {
                k = "Break";
                if let Ok(t) = dest.target_id {
                    o.push(("target", V::I(t.local_id.as_u32() as i128)));
                }
                if let Some(x) = x {
                    o.push(("e", self.expr(x)));
                }
            }
            E::Continue(dest) => {
                k = "Continue";
                if let Ok(t) = dest.target_id {
                    o.push(("target", V::I(t.local_id.as_u32() as i128)));
                }
            }
            E::Ret(x) => {
                k = "Ret";
                if let Some(x) = x {
                    o.push(("e", self.expr(x)));
                }
            }
            E::Become(x) => {
                k = "Become";
                o.push(("e", self.expr(x)));
            }
            E::InlineAsm(_) => {
                k = "InlineAsm";
            }
            E::OffsetOf(..) => {
                k = "OffsetOf";
            }
            E::Struct(qp, fields, tail) => {
                k = "Struct";
                o.extend(self.qpath(qp, e.hir_id));
                let fs = fields
                    .iter()
                    .map(|f| V::O(vec![("f", s(f.ident.name.as_str())), ("e", self.expr(f.expr))]))
                    .collect();
                o.push(("fields", V::A(fs)));
                if let hir::StructTailExpr::Base(b) = tail {
                    o.push(("base", self.expr(b)));
                }
            }
            E::Repeat(x, _) => {
                k = "Repeat";
                o.push(("e", self.expr(x)));
                // the length is in the type
            }
            E::Yield(x, _) => {
                k = "Yield";
                o.push(("e", self.expr(x)));
            }
            E::UnsafeBinderCast(_, x, _) => {
                k = "UnsafeBinderCast";
                o.push(("e", self.expr(x)));
            }
            E::Err(_) => {
                k = "Err";
            }
        }
        let t = self.tr.expr_ty(e);
        let mut out: Vec<(&'static str, V)> = vec![("k", s(k))];
        out.extend(o);
        out.push(("ty", self.cx.ty(t)));
        let adj = self.tr.expr_adjustments(e);
        if !adj.is_empty() {
            let mut av = Vec::new();
            for a in adj {
                use ty::adjustment::{Adjust, AutoBorrow};
                let nm = match &a.kind {
                    Adjust::NeverToAny => "never".to_string(),
                    Adjust::Deref(_) => "deref".to_string(),
                    Adjust::Borrow(AutoBorrow::Ref(m)) => {
                        if matches!(m, ty::adjustment::AutoBorrowMutability::Mut { .. }) {
                            "refmut".to_string()
                        } else {
                            "ref".to_string()
                        }
                    }
                    Adjust::Borrow(AutoBorrow::RawPtr(_)) => "rawptr".to_string(),
                    Adjust::Pointer(c) => format!("ptr:{:?}", c),
                    other => format!("{:?}", other),
                };
                av.push(s(nm));
            }
            out.push(("adj", V::A(av)));
            let at = self.tr.expr_ty_adjusted(e);
            out.push(("aty", self.cx.ty(at)));
        }
        out.push(("sp", self.cx.span(e.span)));
        out.push(("x", self.cx.expn(e.span)));
        V::O(out)
    }
}

// ---------------------------------------------------------------- MIR dump

fn mir_operand<'tcx>(cx: &mut Cx<'tcx>, body: &mir::Body<'tcx>, op: &mir::Operand<'tcx>) -> V {
    match op {
        mir::Operand::Copy(p) | mir::Operand::Move(p) => mir_place(cx, body, p),
        mir::Operand::Constant(c) => {
            let t = c.const_.ty();
            let mut o = vec![("k", s("const")), ("ty", cx.ty(t))];
            if let ty::FnDef(did, args) = t.kind() {
                o.push(("fn", s(cx.path(*did))));
                o.push(("fnargs", s(cx.path_args(*did, args))));
            } else {
                let txt = with_no_trimmed_paths!(format!("{}", c.const_));
                if txt.len() < 200 {
                    o.push(("v", s(txt)));
                }
            }
            V::O(o)
        }
        #[allow(unreachable_patterns)]
        _ => V::O(vec![("k", s("other"))]),
    }
}

fn mir_place<'tcx>(cx: &mut Cx<'tcx>, body: &mir::Body<'tcx>, p: &mir::Place<'tcx>) -> V {
    let tcx = cx.tcx;
    let mut proj = Vec::new();
    let mut cur = mir::PlaceTy::from_ty(body.local_decls[p.local].ty);
    for elem in p.projection.iter() {
        match elem {
            mir::ProjectionElem::Deref => proj.push(s("*")),
            mir::ProjectionElem::Field(f, _) => {
                // name the field if the current type is an ADT
                let mut name = format!("{}", f.as_u32());
                if let ty::Adt(adt, _) = cur.ty.kind() {
                    let vidx = cur.variant_index.unwrap_or(rustc_abi::FIRST_VARIANT);
                    if adt.is_enum() || adt.is_struct() || adt.is_union() {
                        if let Some(v) = adt.variants().get(vidx) {
                            if let Some(fd) = v.fields.get(f) {
                                name = format!("{}.{}", cx.path(adt.did()), fd.name.as_str());
                                if adt.is_enum() {
                                    name = format!("{}::{}.{}", cx.path(adt.did()), v.name.as_str(), fd.name.as_str());
                                }
                            }
                        }
                    }
                }
                proj.push(s(name));
            }
            mir::ProjectionElem::Index(_) => proj.push(s("[]")),
            mir::ProjectionElem::ConstantIndex { .. } => proj.push(s("[c]")),
            mir::ProjectionElem::Subslice { .. } => proj.push(s("[..]")),
            mir::ProjectionElem::Downcast(name, _) => {
                proj.push(s(format!("as {}", name.map(|n| n.to_string()).unwrap_or_default())))
            }
            _ => proj.push(s("?")),
        }
        cur = cur.projection_ty(tcx, elem);
    }
    V::O(vec![
        ("k", s("place")),
        ("l", V::I(p.local.as_u32() as i128)),
        ("proj", if proj.is_empty() { V::Null } else { V::A(proj) }),
    ])
}

fn dump_mir<'tcx>(cx: &mut Cx<'tcx>, did: LocalDefId) -> V {
    let tcx = cx.tcx;
    let body: &mir::Body<'tcx> = tcx.optimized_mir(did.to_def_id());
    let env = ty::TypingEnv::post_analysis(tcx, did.to_def_id());
    let mut locals = Vec::new();
    for (_l, d) in body.local_decls.iter_enumerated() {
        locals.push(cx.ty(d.ty));
    }
    let mut names = Vec::new();
    for vdi in body.var_debug_info.iter() {
        if let mir::VarDebugInfoContents::Place(p) = &vdi.value {
            names.push(V::O(vec![
                ("name", s(vdi.name.as_str())),
                ("place", mir_place(cx, body, p)),
            ]));
        }
    }
    let mut blocks = Vec::new();
    for (_bb, data) in body.basic_blocks.iter_enumerated() {
        let mut stmts = Vec::new();
        for st in data.statements.iter() {
            match &st.kind {
                mir::StatementKind::Assign(b) => {
                    let (place, rv) = &**b;
                    let mut o = vec![("k", s("assign")), ("lhs", mir_place(cx, body, place))];
                    let (rk, ops): (String, Vec<V>) = match rv {
                        mir::Rvalue::Use(op, ..) => ("use".into(), vec![mir_operand(cx, body, op)]),
                        mir::Rvalue::Repeat(op, _) => ("repeat".into(), vec![mir_operand(cx, body, op)]),
                        mir::Rvalue::Ref(_, bk, p) => (
                            format!("ref:{}", if matches!(bk, mir::BorrowKind::Mut { .. }) { "mut" } else { "shared" }),
                            vec![mir_place(cx, body, p)],
                        ),
                        mir::Rvalue::RawPtr(_, p) => ("rawptr".into(), vec![mir_place(cx, body, p)]),
                        mir::Rvalue::Cast(ck, op, t) => {
                            o.push(("cast_ty", cx.ty(*t)));
                            (format!("cast:{:?}", ck), vec![mir_operand(cx, body, op)])
                        }
                        mir::Rvalue::BinaryOp(op, b2) => {
                            let (a, c) = &**b2;
                            (format!("bin:{:?}", op), vec![mir_operand(cx, body, a), mir_operand(cx, body, c)])
                        }
                        mir::Rvalue::UnaryOp(op, a) => (format!("un:{:?}", op), vec![mir_operand(cx, body, a)]),
                        mir::Rvalue::Discriminant(p) => ("discr".into(), vec![mir_place(cx, body, p)]),
                        mir::Rvalue::Aggregate(kind, ops) => {
                            let kn = match &**kind {
                                mir::AggregateKind::Adt(did, vidx, _, _, _) => {
                                    let adt = tcx.adt_def(*did);
                                    format!("agg:{}::{}", cx.path(*did), adt.variant(*vidx).name.as_str())
                                }
                                mir::AggregateKind::Closure(did, _) => format!("agg:closure:{}", cx.path(*did)),
                                mir::AggregateKind::Tuple => "agg:tuple".to_string(),
                                mir::AggregateKind::Array(_) => "agg:array".to_string(),
                                _ => "agg:other".to_string(),
                            };
                            (kn, ops.iter().map(|x| mir_operand(cx, body, x)).collect())
                        }
                        mir::Rvalue::CopyForDeref(p) => ("use".into(), vec![mir_place(cx, body, p)]),
                        other => (format!("other:{}", rvalue_name(other)), vec![]),
                    };
                    o.push(("rk", s(rk)));
                    o.push(("ops", V::A(ops)));
                    o.push(("sp", cx.span(st.source_info.span)));
                    o.push(("x", cx.expn(st.source_info.span)));
                    stmts.push(V::O(o));
                }
                mir::StatementKind::SetDiscriminant { place, variant_index } => {
                    stmts.push(V::O(vec![
                        ("k", s("setdiscr")),
                        ("lhs", mir_place(cx, body, place)),
                        ("v", V::I(variant_index.as_u32() as i128)),
                    ]));
                }
                mir::StatementKind::StorageDead(l) => {
                    stmts.push(V::O(vec![("k", s("dead")), ("l", V::I(l.as_u32() as i128))]));
                }
                _ => {}
            }
        }
        let term = data.terminator();
        let mut t: Vec<(&'static str, V)> = Vec::new();
        use mir::TerminatorKind as T;
        match &term.kind {
            T::Goto { target } => {
                t.push(("k", s("goto")));
                t.push(("targets", V::A(vec![V::I(target.as_u32() as i128)])));
            }
            T::SwitchInt { discr, targets } => {
                t.push(("k", s("switch")));
                t.push(("discr", mir_operand(cx, body, discr)));
                let mut vals = Vec::new();
                let mut tg = Vec::new();
                for (v, b) in targets.iter() {
                    vals.push(V::S(format!("{}", v)));
                    tg.push(V::I(b.as_u32() as i128));
                }
                tg.push(V::I(targets.otherwise().as_u32() as i128));
                t.push(("vals", V::A(vals)));
                t.push(("targets", V::A(tg)));
            }
            T::UnwindResume => t.push(("k", s("resume"))),
            T::UnwindTerminate(_) => t.push(("k", s("terminate"))),
            T::Return => t.push(("k", s("return"))),
            T::Unreachable => t.push(("k", s("unreachable"))),
            T::Drop { place, target, unwind, .. } => {
                t.push(("k", s("drop")));
                t.push(("place", mir_place(cx, body, place)));
                let pt = place.ty(&body.local_decls, tcx).ty;
                t.push(("dty", cx.ty(pt)));
                t.push(("targets", V::A(vec![V::I(target.as_u32() as i128)])));
                if let mir::UnwindAction::Cleanup(b) = unwind {
                    t.push(("unwind", V::I(b.as_u32() as i128)));
                }
            }
            T::Call { func, args, destination, target, unwind, .. } => {
                t.push(("k", s("call")));
                let fty = func.ty(&body.local_decls, tcx);
                if let ty::FnDef(fdid, fargs) = fty.kind() {
                    t.push(("fn", s(cx.path(*fdid))));
                    t.push(("fnargs", s(cx.path_args(*fdid, fargs))));
                    if let Ok(nargs) = tcx.try_normalize_erasing_regions(env, ty::Unnormalized::new_wip(*fargs)) {
                        if let Ok(Some(inst)) = ty::Instance::try_resolve(tcx, env, *fdid, nargs) {
                            if inst.def_id() != *fdid {
                                t.push(("inst", s(cx.path(inst.def_id()))));
                            }
                        }
                    }
                } else {
                    t.push(("fnop", mir_operand(cx, body, func)));
                }
                t.push(("args", V::A(args.iter().map(|a| mir_operand(cx, body, &a.node)).collect())));
                t.push(("dest", mir_place(cx, body, destination)));
                let mut tg = Vec::new();
                if let Some(b) = target {
                    tg.push(V::I(b.as_u32() as i128));
                }
                t.push(("targets", V::A(tg)));
                if let mir::UnwindAction::Cleanup(b) = unwind {
                    t.push(("unwind", V::I(b.as_u32() as i128)));
                }
            }
            T::Assert { cond, expected, msg, target, unwind } => {
                t.push(("k", s("assert")));
                t.push(("cond", mir_operand(cx, body, cond)));
                t.push(("expected", V::B(*expected)));
                let mk = match &**msg {
                    mir::AssertKind::BoundsCheck { .. } => "bounds".to_string(),
                    mir::AssertKind::Overflow(op, ..) => format!("overflow:{:?}", op),
                    mir::AssertKind::OverflowNeg(_) => "overflow:Neg".to_string(),
                    mir::AssertKind::DivisionByZero(_) => "divzero".to_string(),
                    mir::AssertKind::RemainderByZero(_) => "remzero".to_string(),
                    mir::AssertKind::MisalignedPointerDereference { .. } => "misaligned".to_string(),
                    mir::AssertKind::NullPointerDereference => "nullptr".to_string(),
                    _ => "other".to_string(),
                };
                t.push(("msg", s(mk)));
                t.push(("targets", V::A(vec![V::I(target.as_u32() as i128)])));
                if let mir::UnwindAction::Cleanup(b) = unwind {
                    t.push(("unwind", V::I(b.as_u32() as i128)));
                }
            }
            T::FalseEdge { real_target, .. } => {
                t.push(("k", s("goto")));
                t.push(("targets", V::A(vec![V::I(real_target.as_u32() as i128)])));
            }
            T::FalseUnwind { real_target, .. } => {
                t.push(("k", s("goto")));
                t.push(("targets", V::A(vec![V::I(real_target.as_u32() as i128)])));
            }
            _ => {
                t.push(("k", s("other")));
                let tg: Vec<V> = term.successors().map(|b| V::I(b.as_u32() as i128)).collect();
                t.push(("targets", V::A(tg)));
            }
        }
        t.push(("sp", cx.span(term.source_info.span)));
        t.push(("x", cx.expn(term.source_info.span)));
        blocks.push(V::O(vec![
            ("stmts", V::A(stmts)),
            ("term", V::O(t)),
            ("cleanup", if data.is_cleanup { V::B(true) } else { V::Null }),
        ]));
    }
    V::O(vec![
        ("argc", V::I(body.arg_count as i128)),
        ("locals", V::A(locals)),
        ("names", V::A(names)),
        ("blocks", V::A(blocks)),
    ])
}

fn rvalue_name(rv: &mir::Rvalue<'_>) -> &'static str {
    match rv {
        mir::Rvalue::ThreadLocalRef(_) => "tls",
        mir::Rvalue::WrapUnsafeBinder(..) => "wrapbinder",
        _ => "misc",
    }
}

// ---------------------------------------------------------------- items

fn dump_crate<'tcx>(tcx: TyCtxt<'tcx>) -> String {
    let mut cx = Cx { tcx, types: HashMap::new(), type_list: Vec::new() };
    let mut adts = Vec::new();
    let mut impls = Vec::new();
    let mut traits = Vec::new();
    let mut statics = Vec::new();

    for ldid in tcx.hir_crate_items(()).definitions() {
        let did = ldid.to_def_id();
        match tcx.def_kind(did) {
            DefKind::Struct | DefKind::Enum | DefKind::Union => {
                let adt = tcx.adt_def(did);
                let mut variants = Vec::new();
                let discrs: Vec<(rustc_abi::VariantIdx, i128)> = if adt.is_enum() {
                    adt.discriminants(tcx).map(|(i, d)| (i, d.val as i128)).collect()
                } else {
                    Vec::new()
                };
                for (vidx, v) in adt.variants().iter_enumerated() {
                    let mut fields = Vec::new();
                    for f in v.fields.iter() {
                        let fty = tcx.type_of(f.did).instantiate_identity().skip_norm_wip();
                        fields.push(V::O(vec![
                            ("name", s(f.name.as_str())),
                            ("ty", s(cx.ty_str(fty))),
                            ("vis", s(format!("{:?}", f.vis))),
                        ]));
                    }
                    let d = discrs.iter().find(|(i, _)| *i == vidx).map(|(_, d)| *d);
                    variants.push(V::O(vec![
                        ("name", s(v.name.as_str())),
                        ("discr", d.map(V::I).unwrap_or(V::Null)),
                        ("ctor", s(format!("{:?}", v.ctor_kind()))),
                        ("fields", V::A(fields)),
                    ]));
                }
                adts.push(V::O(vec![
                    ("path", s(cx.path(did))),
                    ("kind", s(format!("{:?}", adt.adt_kind()))),
                    ("vis", s(format!("{:?}", tcx.visibility(did)))),
                    ("non_exhaustive", V::B(adt.is_variant_list_non_exhaustive())),
                    ("variants", V::A(variants)),
                    ("sp", cx.span(tcx.def_span(did))),
                ]));
            }
            DefKind::Impl { of_trait } => {
                let self_ty = tcx.type_of(did).instantiate_identity().skip_norm_wip();
                let mut o = vec![("self", s(cx.ty_str(self_ty)))];
                if of_trait {
                    let tr = tcx.impl_trait_ref(did).instantiate_identity().skip_norm_wip();
                    o.push(("trait", s(cx.path(tr.def_id))));
                    o.push(("trait_ref", s(with_crate_prefix!(with_no_visible_paths!(with_no_trimmed_paths!(format!("{}", tr.print_only_trait_path())))))));
                }
                let mut items = Vec::new();
                for it in tcx.associated_items(did).in_definition_order() {
                    items.push(V::O(vec![
                        ("name", s(it.name().as_str())),
                        ("kind", s(format!("{:?}", it.tag()))),
                        ("path", s(cx.path(it.def_id))),
                    ]));
                }
                o.push(("items", V::A(items)));
                o.push(("sp", cx.span(tcx.def_span(did))));
                o.push(("x", cx.expn(tcx.def_span(did))));
                impls.push(V::O(o));
            }
            DefKind::Trait => {
                let mut items = Vec::new();
                for it in tcx.associated_items(did).in_definition_order() {
                    items.push(V::O(vec![
                        ("name", s(it.name().as_str())),
                        ("kind", s(format!("{:?}", it.tag()))),
                        ("has_default", V::B(it.defaultness(tcx).has_value())),
                    ]));
                }
                traits.push(V::O(vec![("path", s(cx.path(did))), ("items", V::A(items))]));
            }
            DefKind::Static { mutability, .. } => {
                let t = tcx.type_of(did).instantiate_identity().skip_norm_wip();
                statics.push(V::O(vec![
                    ("path", s(cx.path(did))),
                    ("ty", s(cx.ty_str(t))),
                    ("mut", V::B(mutability.is_mut())),
                ]));
            }
            _ => {}
        }
    }

    // bodies
    let mut fns = Vec::new();
    for ldid in tcx.hir_body_owners() {
        let did = ldid.to_def_id();
        let dk = tcx.def_kind(did);
        let is_closure = matches!(dk, DefKind::Closure);
        let mut o: Vec<(&'static str, V)> = vec![("path", s(cx.path(did))), ("dk", s(format!("{:?}", dk)))];
        o.push(("sp", cx.span(tcx.def_span(did))));
        o.push(("x", cx.expn(tcx.def_span(did))));
        if matches!(dk, DefKind::Fn | DefKind::AssocFn) {
            o.push(("vis", s(format!("{:?}", tcx.visibility(did)))));
            let sig = tcx.fn_sig(did).instantiate_identity().skip_norm_wip();
            o.push(("sig", s(with_crate_prefix!(with_no_visible_paths!(with_no_trimmed_paths!(format!("{}", sig)))))));
            // names of the type / const parameters (parents first, lifetimes left out): the order in which a call
            // site's `path::<..>` lists its arguments
            let g = tcx.generics_of(did);
            let mut names = Vec::new();
            for i in 0..g.count() {
                let p = g.param_at(i, tcx);
                if !matches!(p.kind, rustc_middle::ty::GenericParamDefKind::Lifetime) {
                    names.push(s(p.name.to_string()));
                }
            }
            o.push(("generics", V::A(names)));
            if let Some(p) = tcx.opt_parent(did) {
                if matches!(tcx.def_kind(p), DefKind::Impl { .. }) {
                    let st = tcx.type_of(p).instantiate_identity().skip_norm_wip();
                    o.push(("impl_self", s(cx.ty_str(st))));
                    if matches!(tcx.def_kind(p), DefKind::Impl { of_trait: true }) {
                        let tr = tcx.impl_trait_ref(p).instantiate_identity().skip_norm_wip();
                        o.push(("impl_trait", s(cx.path(tr.def_id))));
                    }
                }
            }
        }
        if !is_closure {
            let body = tcx.hir_body_owned_by(ldid);
            let tr = tcx.typeck(ldid);
            let mut bcx = BodyCx { cx: &mut cx, tr, owner: ldid };
            let params: Vec<V> = body.params.iter().map(|p| bcx.pat(p.pat)).collect();
            let value = bcx.expr(body.value);
            o.push(("params", V::A(params)));
            o.push(("body", value));
        } else {
            let root = tcx.typeck_root_def_id(did);
            o.push(("root", s(cx.path(root))));
        }
        if matches!(dk, DefKind::Fn | DefKind::AssocFn | DefKind::Closure) {
            o.push(("mir", dump_mir(&mut cx, ldid)));
        }
        fns.push(V::O(o));
    }

    let crate_name = tcx.crate_name(LOCAL_CRATE).to_string();
    let top = V::O(vec![
        ("crate", s(crate_name)),
        ("test", V::B(tcx.sess.opts.test)),
        ("nonce", s(std::env::var("FACTGEN_NONCE").unwrap_or_default())),
        ("types", V::A(cx.type_list.iter().map(|t| s(t.clone())).collect())),
        ("adts", V::A(adts)),
        ("impls", V::A(impls)),
        ("traits", V::A(traits)),
        ("statics", V::A(statics)),
        ("fns", V::A(fns)),
    ]);
    let mut out = String::new();
    top.write(&mut out);
    out
}

struct Cb;

impl rustc_driver::Callbacks for Cb {
    fn after_analysis<'tcx>(&mut self, _c: &rustc_interface::interface::Compiler, tcx: TyCtxt<'tcx>) -> Compilation {
        let out_dir = match std::env::var("FACTGEN_OUT") {
            Ok(d) => d,
            Err(_) => return Compilation::Continue,
        };
        let name = tcx.crate_name(LOCAL_CRATE).to_string();
        if name == "build_script_build" {
            return Compilation::Continue;
        }
        let kind = if tcx.sess.opts.test {
            "test"
        } else if tcx.crate_types().iter().any(|t| matches!(t, rustc_session::config::CrateType::Executable)) {
            "bin"
        } else {
            "lib"
        };
        let json = dump_crate(tcx);
        let path = format!("{}/{}-{}.json", out_dir, name, kind);
        let tmp = format!("{}.tmp{}", path, std::process::id());
        std::fs::write(&tmp, json).expect("factgen: cannot write fact file");
        std::fs::rename(&tmp, &path).expect("factgen: cannot rename fact file");
        Compilation::Continue
    }
}

fn main() {
    let mut args: Vec<String> = std::env::args().collect();
    // RUSTC_WORKSPACE_WRAPPER: argv[1] is the path of the real rustc
    if args.len() > 1 && (args[1].ends_with("rustc") || args[1].contains("/rustc")) {
        args.remove(1);
    }
    let mut cb = Cb;
    rustc_driver::run_compiler(&args, &mut cb);
}
