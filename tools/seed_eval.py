#!/usr/bin/env python3
"""Run every registered check against each seeded change (scratch worktrees of /repo HEAD, never /repo itself).
usage: seed_eval.py <seed dir root> [workers]"""
import json, os, subprocess, sys, shutil, re
from concurrent.futures import ThreadPoolExecutor

ROOT = sys.argv[1]
W = int(sys.argv[2]) if len(sys.argv) > 2 else 4
VERIF = "/verif"
seeds = sorted(d for d in os.listdir(ROOT) if os.path.exists(os.path.join(ROOT, d, "patch.diff")))


def sh(cmd, **kw):
    return subprocess.run(cmd, shell=True, text=True, stdout=subprocess.PIPE, stderr=subprocess.STDOUT, **kw)


def worker(k, items):
    wt = f"/tmp/se-w{k}"
    sh(f"git -C /repo worktree remove --force {wt}; git -C /repo worktree add -q --detach {wt} HEAD")
    out = f"/tmp/se-out{k}"
    for sd in items:
        d = os.path.join(ROOT, sd)
        sh(f"git -C {wt} checkout -q -- . && git -C {wt} clean -fdq")
        r = sh(f"git -C {wt} apply --whitespace=nowarn {d}/patch.diff")
        res = {"seed": sd, "applies": r.returncode == 0}
        if r.returncode != 0:
            r3 = sh(f"git -C {wt} apply --3way --whitespace=nowarn {d}/patch.diff")
            res["applies_3way"] = r3.returncode == 0
            res["apply_msg"] = r.stdout[-400:]
            if r3.returncode != 0:
                json.dump(res, open(os.path.join(d, "detect.json"), "w"), indent=1)
                print(sd, "PATCH DOES NOT APPLY", flush=True)
                continue
        shutil.rmtree(out, ignore_errors=True)
        env = dict(os.environ, VERIF_REPO=wt, VERIF_CACHE=f"{VERIF}/.cache/w{k}", VERIF_OUT=out)
        r = subprocess.run(["./check"] + (os.environ.get("CHECKS", "all").split()), cwd=VERIF, env=env, text=True, stdout=subprocess.PIPE, stderr=subprocess.STDOUT)
        viol = {}
        fired_props = set(re.findall(r"^VIOLATION property=(C\d+)", r.stdout, re.M))
        for line in r.stdout.splitlines():
            m = re.search(r"key=(\S.*)$", line)
            if m and "VIOLATION" not in line:
                key = m.group(1)
                prop = None
                viol.setdefault(key.split(".")[0], []).append(key)
        res["violations"] = viol
        res["fired_properties"] = sorted(fired_props)
        prop = sd.split("-")[0]
        res["own_property_fired"] = prop in fired_props
        json.dump(res, open(os.path.join(d, "detect.json"), "w"), indent=1)
        print(sd, "own" if res["own_property_fired"] else "MISSED", sorted(viol), flush=True)
    sh(f"git -C /repo worktree remove --force {wt}")
    shutil.rmtree(out, ignore_errors=True)


chunks = [seeds[i::W] for i in range(W)]
with ThreadPoolExecutor(W) as ex:
    list(ex.map(lambda a: worker(*a), enumerate(chunks)))
