#!/usr/bin/env python3
"""Build /verif/seeded/<id>/ from the staged agent output once I have confirmed the seed myself (verify.json) and run the checks on it (detect.json)."""
import json, os, shutil, glob, subprocess
SRC = "/verif/seeded/_incoming"
DST = "/verif/seeded"
head = subprocess.check_output(["git", "-C", "/repo", "rev-parse", "--short", "HEAD"], text=True).strip()
rows = []
for d in sorted(glob.glob(SRC + "/C*-*")):
    sid = os.path.basename(d)
    try:
        v = json.load(open(d + "/verify.json"))
        det = json.load(open(d + "/detect.json"))
        meta = json.load(open(d + "/meta.json"))
    except Exception as e:
        print(sid, "incomplete", e)
        continue
    if not v.get("confirmed"):
        print(sid, "NOT KEPT (not confirmed on the current tree)")
        continue
    out = os.path.join(DST, sid)
    os.makedirs(out, exist_ok=True)
    shutil.copy(d + "/patch.diff", out + "/patch.diff")
    shutil.copy(d + "/detect.json", out + "/detect.json")
    for f in glob.glob(d + "/demo*.rs"):
        shutil.copy(f, out)
    prop = sid.split("-")[0]
    viol = det.get("violations", {})
    caught = {}
    for k, keys in viol.items():
        for key in keys:
            p = key.split(".")[0] if key[0] == "C" else prop
            caught.setdefault(p, []).append(key)
    m = {
        "id": sid,
        "breaks_property": prop,
        "summary": meta.get("summary"),
        "needs_to_manifest": meta.get("needs") or meta.get("needs_to_manifest"),
        "files_changed": meta.get("files_changed"),
        "demo": {"files": v.get("demo_files"), "commands": v.get("demo_tests"), "note": "copy demo*.rs to the listed path(s) inside a scratch worktree of /repo, then run the command(s) with --offline"},
        "confirmed_by_me": {
            "repo_commit": head,
            "how": "tools/seed_verify.py in a scratch git worktree of /repo HEAD (removed afterwards): placed the demo, ran it without the change, applied patch.diff with `git apply`, ran the demo again, then ran `cargo test --workspace --no-fail-fast --offline` and compared the passing set with /root/.vp/BASELINE.json (177 stable tests)",
            "patch_applies": v.get("patch_applies"), "workspace_compiles_with_change": v.get("compiles"), "baseline_177_still_pass_with_change": v.get("baseline_tests_still_pass"),
            "demo_passes_without_change": v.get("demo_passes_without_change"), "demo_fails_with_change": v.get("demo_fails_with_change"),
        },
        "checks_run": "tools/seed_eval.py: patch applied to a scratch worktree, `./check all` with VERIF_REPO pointing at it",
        "caught_by": {p: sorted(set(ks))[:6] for p, ks in sorted(caught.items())},
        "own_property_check_fires": prop in caught or any(k.startswith("anchor|") or k.startswith("engine|") for ks in viol.values() for k in ks),
    }
    json.dump(m, open(out + "/meta.json", "w"), indent=1, ensure_ascii=False)
    rows.append((sid, m["own_property_check_fires"], sorted(caught)))
for r in rows:
    print(r)
print(len(rows), "seeds kept")
