#!/usr/bin/env python3
"""Self-test of the checkers on scratch worktrees of /repo HEAD (never /repo itself).
  selftest/variants/benign-*.diff   behaviour-preserving refactors: every check must stay silent
  selftest/variants/<rule>-*.diff   breaking edits: the rule named by the prefix must report
usage: variant_eval.py [workers] [name-filter]"""
import json, os, subprocess, sys, shutil, re
from concurrent.futures import ThreadPoolExecutor

VERIF = "/verif"
VDIR = os.environ.get("VARIANT_DIR", f"{VERIF}/selftest/variants")
ALL_BENIGN = bool(os.environ.get("ALL_BENIGN"))
W = int(sys.argv[1]) if len(sys.argv) > 1 else 4
FILT = sys.argv[2] if len(sys.argv) > 2 else ""
variants = sorted(f[:-5] for f in os.listdir(VDIR) if f.endswith(".diff") and FILT in f)
results = {}


def sh(cmd):
    return subprocess.run(cmd, shell=True, text=True, stdout=subprocess.PIPE, stderr=subprocess.STDOUT)


def worker(k, items):
    wt = f"/tmp/ve-w{k}"
    sh(f"git -C /repo worktree remove --force {wt}; git -C /repo worktree add -q --detach {wt} HEAD")
    out = f"/tmp/ve-out{k}"
    for v in items:
        sh(f"git -C {wt} checkout -q -- . && git -C {wt} clean -fdq")
        r = sh(f"git -C {wt} apply --whitespace=nowarn {VDIR}/{v}.diff")
        if r.returncode != 0:
            results[v] = ("NOAPPLY", [])
            print(v, "PATCH DOES NOT APPLY", flush=True)
            continue
        shutil.rmtree(out, ignore_errors=True)
        env = dict(os.environ, VERIF_REPO=wt, VERIF_CACHE=f"{VERIF}/.cache/w{k}", VERIF_OUT=out)
        r = subprocess.run(["./check"] + (os.environ.get("CHECKS", "all").split()), cwd=VERIF, env=env, text=True, stdout=subprocess.PIPE, stderr=subprocess.STDOUT)
        keys = []
        for line in r.stdout.splitlines():
            m = re.search(r"key=(\S.*)$", line)
            if m and not line.startswith("VIOLATION") and not line.startswith("KNOWN-FINDING"):
                keys.append(m.group(1))
        if v.startswith("benign-") or ALL_BENIGN:
            verdict = "ok-silent" if not keys else "FALSE-ALARM"
        else:
            rule = v.split("-")[0]
            hit = [x for x in keys if x.startswith(rule) or f".via.{rule}" in x]
            verdict = "ok-fired" if hit else "MISSED"
        results[v] = (verdict, keys)
        print(v, verdict, keys[:6], flush=True)
    sh(f"git -C /repo worktree remove --force {wt}")
    shutil.rmtree(out, ignore_errors=True)


chunks = [variants[i::W] for i in range(W)]
with ThreadPoolExecutor(W) as ex:
    list(ex.map(lambda a: worker(*a), enumerate(chunks)))
bad = [v for v, (x, _) in results.items() if not x.startswith("ok")]
json.dump({v: {"verdict": x, "keys": k} for v, (x, k) in sorted(results.items())}, open(os.environ.get("VARIANT_OUT", f"{VERIF}/selftest/last_run.json"), "w"), indent=1)
print("variants", len(results), "bad", bad)
sys.exit(1 if bad else 0)
