#!/usr/bin/env python3
"""Confirm claimed violations of the unmodified tree: place each demo in a scratch worktree of /repo HEAD and run it.
usage: hunt_verify.py <root> [workers] [only...]  -> <root>/<id>/confirm.json {fails_on_head: bool, tail}"""
import json, os, re, subprocess, sys, shutil, glob
from concurrent.futures import ThreadPoolExecutor
ROOT = sys.argv[1]
W = int(sys.argv[2]) if len(sys.argv) > 2 else 4
ONLY = sys.argv[3:]
items = sorted(d for d in os.listdir(ROOT) if os.path.exists(os.path.join(ROOT, d, "meta.json")) and (not ONLY or d in ONLY or d.split("-")[0] in ONLY))


def sh(cmd, cwd=None, env=None, timeout=2400):
    try:
        r = subprocess.run(cmd, shell=True, text=True, cwd=cwd, env=env, stdout=subprocess.PIPE, stderr=subprocess.STDOUT, timeout=timeout)
        return r.returncode, r.stdout
    except subprocess.TimeoutExpired as e:
        return 124, (e.stdout or "") + "\nTIMEOUT"


def worker(k, its):
    wt = f"/tmp/hv-w{k}"
    sh(f"git -C /repo worktree remove --force {wt}; git -C /repo worktree add -q --detach {wt} HEAD")
    env = dict(os.environ, CARGO_TARGET_DIR=f"/tmp/hv-target{k}", CARGO_NET_OFFLINE="true")
    for it in its:
        d = os.path.join(ROOT, it)
        meta = json.load(open(os.path.join(d, "meta.json")))
        sh(f"git -C {wt} checkout -q -- . && git -C {wt} clean -fdq -e target")
        cmd = meta.get("demo_cmd") or ""
        loc = meta.get("demo_location") or ""
        demos = sorted(glob.glob(os.path.join(d, "*.rs")))
        dests = re.findall(r"cp\s+\S*?(\w+\.rs)\s+(\S+\.rs)", cmd)
        files = []
        for src, dst in dests:
            sp = os.path.join(d, src)
            if os.path.exists(sp):
                files.append((sp, re.sub(r"^/tmp/[\w-]+/", "", dst)))
        if not files:
            m = re.findall(r"((?:rbx_\w+)/tests/\S+?\.rs)", loc + " " + cmd)
            for i, dm in enumerate(demos):
                if i < len(m):
                    files.append((dm, m[i]))
        tests = re.findall(r"cargo test[^&;|]*", cmd)
        res = {"id": it, "files": [f[1] for f in files], "tests": tests}
        if not files or not tests:
            res["error"] = "no demo plan"
        else:
            for src, dst in files:
                os.makedirs(os.path.dirname(os.path.join(wt, dst)), exist_ok=True)
                shutil.copy(src, os.path.join(wt, dst))
            rc_all, out_all = 0, ""
            for t in tests:
                t2 = re.sub(r"CARGO_TARGET_DIR=\S+", "", t)
                if "--offline" not in t2:
                    t2 += " --offline"
                rc, out = sh(t2, cwd=wt, env=env)
                rc_all |= (rc != 0)
                out_all += out[-2500:]
            res["fails_on_head"] = bool(rc_all)
            res["compiled"] = "error: could not compile" not in out_all and "error[E" not in out_all
            res["tail"] = out_all[-1800:]
        json.dump(res, open(os.path.join(d, "confirm.json"), "w"), indent=1)
        print(it, "FAILS-ON-HEAD" if res.get("fails_on_head") and res.get("compiled") else ("COMPILE-ERROR" if res.get("fails_on_head") else "passes"), flush=True)
    sh(f"git -C /repo worktree remove --force {wt}")


chunks = [items[i::W] for i in range(W)]
with ThreadPoolExecutor(W) as ex:
    list(ex.map(lambda a: worker(*a), enumerate(chunks)))
