#!/usr/bin/env python3
"""add_finding.py <property> <key> <what> <failing_input> <why_not_repaired>  — append an open finding to known_findings.json (by hand, never at check time)."""
import json, sys
p = "/verif/known_findings.json"
d = json.load(open(p))
prop, key, what, inp, why = sys.argv[1:6]
if any(f["key"] == key for f in d["findings"]):
    print("already listed"); sys.exit(0)
d["findings"].append({"property": prop, "status": "open", "key": key, "what": what, "failing_input": inp, "why_not_repaired": why})
json.dump(d, open(p, "w"), indent=1, ensure_ascii=False)
print("added", key)
