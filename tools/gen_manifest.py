#!/usr/bin/env python3
"""Regenerates /verif/MANIFEST.json from the table below (kept in one place so it stays valid)."""
import json
import os

HERE = os.path.dirname(os.path.dirname(os.path.abspath(__file__)))

# property -> (built?, technique, decided clauses, not decided)
P = {
    "C01": ("GF(2)-affine abstract interpretation of the scalar codecs; table agreement; encoder/decoder arm duality (wire-shape abstract interpretation of typed HIR)",
            "C01.alg: decode(encode(x)) = x for every bit pattern of the zig-zag / float-rotation / endian codecs, interleave index duality, referent delta recurrence; C01.tbl: Type discriminants vs TryFrom<u8>, from_rbx_type/to_default_rbx_type, decoder-arm exhaustiveness behind the wildcard, fallback defaults; C01.rot: the 24 rotation-id arms vs the id formula, two-sided epsilon; C01.arm: per wire type, encoder and decoder grammars dual and value mapping the identity with full field coverage",
            "forest/PRNT reconstruction for every tree shape; lz4/zstd; value-level equality of whole DOMs"),
    "C02": ("XML tag/arm tables; writer/reader event-grammar duality per XmlType (typed HIR); float literal tables; must-pass-through on the MIR CFG; text-codec lint",
            "C02.tags, C02.float, C02.uid, C02.twopass, C02.type", "xml-rs escaping/CDATA; float Display/parse exactness (std, trusted); forest equality"),
    "C03": ("doc-vs-code table agreement (docs/binary.md parsed every run); write-sequence extraction of header / chunk framing / END; same-source rule for counts and loops",
            "C03.ids, C03.frame, C03.count, C03.gram", "acceptance by an independent decoder; PRNT order for every tree; compressed-length fields (third party)"),
    "C04": ("decision tables of the chunk dispatch / prop-chunk skip paths; widening-arm table; zstd magic vs doc; decoder arm grammar vs spec",
            "C04.disp, C04.comp, C04.widen, C04.ids, C04.gram", "equality of the decoded DOM with the one described for every foreign file (a run); decompressors"),
    "C05": ("docs/xml.md example elements parsed every run vs writer tag constants and reader arms; document-structure write sequence; reader dispatch decision table",
            "C05.tags, C05.doc, C05.read", "well-formedness as judged by a second XML parser (xml-rs trusted); numeric spellings beyond INF/-INF/NAN"),
    "C06": ("sibling decision tables of the two find_property_descriptors copies, evaluated exhaustively over the bundled database; coercion-table agreement",
            "C06.desc, C06.conv", "equality of decoded values across the codecs (a pair of runs)"),
    "C07": ("information-flow: every hash-ordered iteration reachable from the serializers is enumerated and must be order-insensitive or sanitised by a dominating sort; no clock/RNG/address use; ordered-container type table",
            "C07.hash, C07.ref, C07.fix", "byte-identity of lz4/zstd output (deterministic libraries, trusted)"),
    "C08": ("who-writes / order-insensitivity of per-class serializer state; closure capture facts; default-value decision",
            "C08.state, C08.own, C08.default, C08.col", "`succeeds whenever each instance serializes alone` for every multiset (value-level)"),
    "C09": ("who-may-write table from MIR field places; link/unlink must-pass-through on the MIR CFG; ancestor-guard rule; BFS iterator discipline",
            "C09.who, C09.link, C09.acyc, C09.iter", "the inductive invariant over every history (operations are checked for the preserving shape; histories are not simulated)"),
    "C10": ("ordered-container API discipline (children lists, FIFO queues); frame rule on field writes; remove/insert pairing on the CFG",
            "C10.order, C10.frame, C10.conserve", "reference-model equivalence after every step of every history (a run)"),
    "C11": ("decision table of rewrite_refs vs the property's three-way rule; field coverage of clone_ref_as_builder; must-pass-through of rewrite_refs after the queue",
            "C11.rule, C11.copy, C11.src", "isomorphism for every topology (a run)"),
    "C12": ("who-may-write bookkeeping table; reader rule on external property-map writes; collision decision table; atomic read-modify-write lint",
            "C12.book, C12.coll, C12.gen", "collisions beyond the index period; histories"),
    "C13": ("panic-capable construct enumeration over the call graph from the decoder entry points with a confirmed discharge table; input-sized allocation taint; recursion (SCC) and loop-progress rules; raw-read discipline; write-error propagation",
            "C13.panic, C13.alloc, C13.rec, C13.prog, C13.trunc, C13.read, C13.sink", "panics inside xml-rs/lz4/zstd/base64; allocation failure for sizes proportional to the input"),
    "C14": ("type-id table vs docs/attributes.md; writer/reader byte-grammar duality per attribute type; empty-map decision; single-codec who-calls",
            "C14.ids, C14.arm, C14.spec, C14.empty, C14.one", "round trip for every payload (a run)"),
    "C15": ("migration arm table (input/output variant, literal domain) vs every Migrate descriptor and enum of the bundled database; four-way sibling check of the perform() call sites",
            "C15.tbl, C15.sites", "equality of the values produced on the four paths (one function produces them all; the rest is value-level)"),
    "C16": ("exhaustive data-integrity check of database.msgpack (pure-Python MessagePack reader) + mapping of every database-dependent panic site to the obligation that discharges it",
            "C16.data, C16.oblig, C16.load, C16.closed", "`written and read back unchanged by both formats` (a run)"),
    "C17": ("Serialize/Deserialize pairing tables per is_human_readable branch; borrowed-input lint; Display/FromStr duality lint; name/bit tables; fixture shape conformance",
            "C17.pair, C17.owned, C17.text, C17.names, C17.fixture", "value-exact survival through serde_json/bincode/rmp (third-party number formatting)"),
    "C18": ("lock-region analysis on MIR: check-then-act across the critical-section boundary, re-entrancy / drop-in-region, panic-in-region; constructor decision table",
            "C18.cta, C18.reent, C18.eq", "exhaustive interleavings (model checking, another family)"),
}

BUILT = set(os.environ.get("BUILT", "").split()) or None


def main():
    rules = os.path.join(HERE, "rules")
    checks = []
    na = []
    for pid, (tech, decided, notdec) in sorted(P.items()):
        if not os.path.exists(os.path.join(rules, pid + ".py")):
            na.append({"property_id": pid, "reason": "static rules for this property are designed (DESIGN.md section 4) but not yet built in this tree; not claimed until they are"})
            continue
        # the clauses as built: the rule ids of the last evidence file (own rules, and clauses shared with other
        # properties as `<prop>.via.<rule>`), in front of the hand-written summary
        try:
            ev = json.load(open(os.path.join(HERE, "evidence", pid + ".json")))
            rules_now = sorted(ev["coverage"]["per_rule"])
            own = [r for r in rules_now if ".via." not in r]
            shared = [r.split(".via.", 1)[1] for r in rules_now if ".via." in r]
            decided = "rules " + ", ".join(own) + ((" and, shared with other properties, " + ", ".join(shared)) if shared else "") + " (each rule's statement is printed in the evidence file and in DESIGN.md section 10). Summary of the original core: " + decided
        except (OSError, KeyError, ValueError):
            pass
        checks.append({
            "property_id": pid,
            "quick_cmd": f"./check {pid} --tier quick",
            "thorough_cmd": f"./check {pid} --tier thorough",
            "evidence_file": f"/verif/evidence/{pid}.json",
            "replay_cmd_template": "./check --explain {path}",
            "engine": "factgen+sa",
            "technique": "static analysis: " + tech,
            "level_claimed": {
                "category": "other",
                "text": "Static analysis of named structural clauses, each a necessary condition of the property, decided for all inputs/paths at once from the type-checked program (typed HIR + MIR facts dumped by a rustc_private driver under the real build flags), the bundled data files and the repository's own format documents. Decided: " + decided + ". This is not a proof of the whole behavioural property; it is the part of it whose truth is visible in the shape of the code.",
                "design_ref": f"DESIGN.md section 4 ({pid}) and section 10 (as built)",
            },
            "level_note": "NOT decided by this check: " + notdec + ". Trusted: rustc nightly's front end as the description of the program; cargo reproducing the build flags; the Python rule engines (validated both ways on scratch variants, see selftest/variants.md); std and third-party crates as documented in DESIGN.md section 7. Nothing of /repo is executed.",
        })
    m = {
        "version": 1,
        "setup_cmd": "cd /verif/factgen && CARGO_NET_OFFLINE=true cargo build --release --offline",
        "hooks": {
            "guard": "rbx_dom_verif",
            "enable": "none needed: the checks execute nothing of /repo (cargo +nightly check with a fact-dumping RUSTC_WORKSPACE_WRAPPER); the cfg name is reserved and unused",
            "baseline_off_cmd": "cd /repo && cargo test --workspace --no-fail-fast --offline",
            "source_commits": [],
            "add_only": True,
        },
        "engines": [
            {"name": "factgen", "path": "/verif/factgen", "serves_properties": sorted(P), "kind_free_text": "rustc_private driver (nightly) dumping typed HIR, MIR CFG, ADTs, impls per workspace crate as JSON facts"},
            {"name": "sa", "path": "/verif/sa", "serves_properties": sorted(P), "kind_free_text": "Python analysis libraries: call graph/reachability/panic sites (flow), who-may-write + CFG must-pass (discipline), decision tables (decision), GF(2)/polynomial domains (algebra), wire-shape interpreter (sym/shape), doc parsers (spec), msgpack database model (db)"},
            {"name": "rules", "path": "/verif/rules", "serves_properties": sorted(P), "kind_free_text": "one module per property: rule instances, confirmed tables, floors"},
        ],
        "checks": checks,
        "notes": "Technique family: static analysis only. `./check Cxx` rebuilds facts from /repo's current working tree (memoised by a content hash of every analysed input), runs the property's rules, writes evidence/Cxx.json, prints KNOWN-FINDING / VIOLATION lines. known_findings.json lists genuine defects recorded or fixed. See DESIGN.md.",
        "not_applicable": na,
    }
    with open(os.path.join(HERE, "MANIFEST.json"), "w") as fh:
        json.dump(m, fh, indent=1)
    print(f"{len(checks)} checks, {len(na)} not yet claimed")


if __name__ == "__main__":
    main()
