#!/usr/bin/env python3
"""Freeze the roles of the workspace's non-public functions: spec/fn_roles.json maps every non-public function path of
the library crates (on the tree this is run on) to its module, signature and a feature set (callees, literals, fields
touched).  sa.core uses it to recognise a private function that was merely *renamed*: a canonical path that is missing
from the fact base is re-bound to the unique function of the same module with the same signature whose features are
closest (rules keep using the canonical names).  Regenerate only when the rules are re-confirmed on a new tree."""
import json
import os
import sys

sys.path.insert(0, os.path.dirname(os.path.dirname(os.path.abspath(__file__))))
from sa import core  # noqa: E402

prog = core.load_program()
out = {}
for path, fn in sorted(prog.fns.items()):
    if fn.crate not in core.LIB_CRATES or fn.dk == "Closure" or fn.body is None:
        continue
    if "::test" in path or "::tests::" in path:
        continue
    vis = fn.d.get("vis") or ""
    if vis.startswith("Public") and not fn.d.get("impl_self", "").startswith("<"):
        # public API: cannot be renamed by a behaviour-preserving refactoring... unless the containing module /
        # type is private; keep only functions whose path contains a private-looking segment
        pass
    out[path] = {"module": path.rsplit("::", 1)[0], "sig": fn.d.get("sig"), "impl_self": fn.d.get("impl_self"), "vis": vis[:10], "feats": sorted(core.fn_features(fn))}
json.dump(out, open(os.path.join(core.VERIF, "spec", "fn_roles.json"), "w"), indent=0, sort_keys=True)
print(len(out), "functions")
