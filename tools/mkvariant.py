#!/usr/bin/env python3
"""mkvariant.py <name> <file> <old> <new> [<file> <old> <new> ...] — create selftest/variants/<name>.diff from a textual edit of /repo HEAD."""
import subprocess, sys, os
name = sys.argv[1]
triples = sys.argv[2:]
wt = f"/tmp/mkv-{os.getpid()}"
subprocess.run(f"git -C /repo worktree add -q --detach {wt} HEAD", shell=True, check=True)
try:
    for i in range(0, len(triples), 3):
        f, old, new = triples[i:i+3]
        p = os.path.join(wt, f)
        s = open(p).read()
        if s.count(old) < 1:
            print("OLD TEXT NOT FOUND in", f, ":", old[:60]); sys.exit(2)
        s = s.replace(old, new, 1)
        open(p, "w").write(s)
    d = subprocess.check_output(["git", "-C", wt, "diff"], text=True)
    open(f"/verif/selftest/variants/{name}.diff", "w").write(d)
    print("wrote", name, len(d.splitlines()), "lines")
finally:
    subprocess.run(f"git -C /repo worktree remove --force {wt}", shell=True)
