#!/usr/bin/env python3
"""Refresh seeded/<id>/meta.json (`caught_by`, `own_property_check_fires`) from the detect.json left by
tools/seed_eval.py, and rewrite the seed table of DESIGN.md (between the SEED-TABLE markers)."""
import glob, json, os, re

ROOT = "/verif/seeded"
rows = []
missed = []
for d in sorted(glob.glob(ROOT + "/C*-*"), key=lambda p: (p.split("/")[-1].split("-")[0], int(p.split("-")[-1]))):
    sid = os.path.basename(d)
    prop = sid.split("-")[0]
    try:
        meta = json.load(open(d + "/meta.json"))
        det = json.load(open(d + "/detect.json"))
    except Exception as e:
        print(sid, "incomplete:", e)
        continue
    caught = {}
    for k, keys in det.get("violations", {}).items():
        for key in keys:
            p = key.split(".")[0] if key[0] == "C" else prop
            caught.setdefault(p, []).append(key)
    meta["caught_by"] = {p: sorted(set(ks))[:6] for p, ks in sorted(caught.items())}
    own_rules = sorted({k.split("|")[0] for k in caught.get(prop, []) if "|anchor|" not in k and "cannot-analyse" not in k})
    meta["own_property_check_fires"] = bool(own_rules)
    json.dump(meta, open(d + "/meta.json", "w"), indent=1, ensure_ascii=False)
    others = sorted({k.split("|")[0] for p, ks in caught.items() if p != prop for k in ks})
    summ = re.sub(r"\s+", " ", (meta.get("summary") or "")).replace("|", "/")[:150]
    rows.append(f"| {sid} | {summ} | {', '.join(own_rules) or '**missed**'} | {', '.join(others[:4])} |")
    if not own_rules:
        missed.append(sid)
table = "| seed | change | caught by (own property) | also fires |\n|---|---|---|---|\n" + "\n".join(rows) + "\n"
p = "/verif/DESIGN.md"
s = open(p).read()
B, E = "<!-- SEED-TABLE-BEGIN -->\n", "<!-- SEED-TABLE-END -->\n"
if B in s:
    i, j = s.index(B) + len(B), s.index(E)
    s = s[:i] + table + s[j:]
else:
    # first use: replace the existing table that starts with the header row
    hdr = "| seed | change | caught by (own property) | also fires |\n"
    i = s.index(hdr)
    j = i
    lines = s[i:].split("\n")
    n = 0
    for ln in lines:
        if ln.startswith("|"):
            n += len(ln) + 1
        else:
            break
    s = s[:i] + B + table + E + s[i + n:]
open(p, "w").write(s)
print(len(rows), "seeds;", "missed:", missed)
