#!/usr/bin/env python3
"""try_patch.py <patch.diff> <Cxx> [<Cyy> ...]  — apply a patch to a scratch worktree of /repo HEAD and run the checks there."""
import os, subprocess, sys, shutil
patch = os.path.abspath(sys.argv[1])
props = sys.argv[2:]
wt = f"/tmp/tp-{os.getpid()}"
subprocess.run(f"git -C /repo worktree add -q --detach {wt} HEAD", shell=True, check=True)
try:
    r = subprocess.run(f"git -C {wt} apply --whitespace=nowarn {patch} || git -C {wt} apply --3way --whitespace=nowarn {patch}", shell=True)
    if r.returncode != 0:
        print("PATCH DOES NOT APPLY"); sys.exit(2)
    env = dict(os.environ, VERIF_REPO=wt, VERIF_CACHE="/verif/.cache/var", VERIF_OUT="/tmp/tp-out")
    for p in props:
        subprocess.run(["./check", p], cwd="/verif", env=env)
finally:
    subprocess.run(f"git -C /repo worktree remove --force {wt}", shell=True)
    shutil.rmtree("/tmp/tp-out", ignore_errors=True)
