#!/usr/bin/env python3
"""repaired_eval.py [filter] — for every selftest/repaired/<name>.diff (first line `# expect-gone: <key> | checks: Cxx Cyy`):
apply the repair of a recorded finding to a scratch worktree of /repo HEAD, run the named checks there and require that
(1) the finding's KNOWN-FINDING line is gone, (2) no VIOLATION is printed.  A check that keeps reporting a finding on
code that no longer has the defect would be a false alarm waiting behind the known-findings list."""
import glob, os, re, subprocess, sys, shutil
filt = sys.argv[1] if len(sys.argv) > 1 else ""
bad = []
for path in sorted(glob.glob("/verif/selftest/repaired/*.diff")):
    name = os.path.basename(path)[:-5]
    if filt not in name:
        continue
    head = open(path).readline()
    m = re.match(r"^# expect-gone: (.*?) \| checks: (.*)$", head.strip())
    if not m:
        print(name, "NO HEADER"); bad.append(name); continue
    key, checks = m.group(1), m.group(2).split()
    wt = f"/tmp/rp-{os.getpid()}"
    subprocess.run(f"git -C /repo worktree add -q --detach {wt} HEAD", shell=True, check=True)
    try:
        r = subprocess.run(f"git -C {wt} apply --whitespace=nowarn {path}", shell=True)
        if r.returncode != 0:
            print(name, "PATCH DOES NOT APPLY"); bad.append(name); continue
        env = dict(os.environ, VERIF_REPO=wt, VERIF_CACHE="/verif/.cache/var", VERIF_OUT="/tmp/rp-out")
        out = subprocess.run(["./check"] + checks, cwd="/verif", env=env, text=True, stdout=subprocess.PIPE, stderr=subprocess.STDOUT).stdout
        still = [l for l in out.splitlines() if l.startswith("KNOWN-FINDING") and key in l]
        viol = [l for l in out.splitlines() if l.startswith("VIOLATION")]
        verdict = "ok-gone" if not still and not viol else ("STILL-REPORTED" if still else "NEW-VIOLATION")
        print(name, verdict, (still or viol)[:1])
        if verdict != "ok-gone":
            bad.append(name)
    finally:
        subprocess.run(f"git -C /repo worktree remove --force {wt}", shell=True)
        shutil.rmtree("/tmp/rp-out", ignore_errors=True)
print("repaired", "bad", bad)
sys.exit(1 if bad else 0)
