#!/usr/bin/env python3
"""Confirm each seeded change myself, in scratch worktrees of /repo HEAD (never /repo):
  (1) the patch applies, the workspace builds and the 177 baseline tests still pass with it,
  (2) the demonstration fails with the change and passes without it.
usage: seed_verify.py <seed root> [workers]   -> writes <seed>/verify.json"""
import json, os, re, subprocess, sys, shutil, glob
from concurrent.futures import ThreadPoolExecutor

ROOT = sys.argv[1]
W = int(sys.argv[2]) if len(sys.argv) > 2 else 4
ONLY = sys.argv[3:] 
BASE = set(json.load(open("/root/.vp/BASELINE.json"))["stable_pass"])
seeds = sorted(d for d in os.listdir(ROOT) if os.path.exists(os.path.join(ROOT, d, "patch.diff")) and (not ONLY or d in ONLY))


def sh(cmd, cwd=None, env=None, timeout=3000):
    try:
        r = subprocess.run(cmd, shell=True, text=True, cwd=cwd, env=env, stdout=subprocess.PIPE, stderr=subprocess.STDOUT, timeout=timeout)
        return r.returncode, r.stdout
    except subprocess.TimeoutExpired as e:
        return 124, (e.stdout or "") + "\nTIMEOUT"


def passed_tests(out):
    ok = []
    for l in out.splitlines():
        m = re.match(r"^test (\S+)(?: - should panic)? \.\.\. ok", l)
        if m:
            ok.append(m.group(1))
    return ok


def demo_plan(d, meta):
    """[(src file, dest relative path)] and command"""
    files = []
    loc = meta.get("demo_location") or ""
    cmd = meta.get("demo_cmd") or ""
    demos = sorted(glob.glob(os.path.join(d, "demo*.rs")))
    # destinations named in the command: `cp SEED/..../demo.rs <dest>`
    dm = meta.get("demo") or {}
    if dm.get("files") and dm.get("commands") and demos:
        return [(demos[i], f) for i, f in enumerate(dm["files"]) if i < len(demos)], [re.sub(r"CARGO_TARGET_DIR=\S+", "", c) for c in dm["commands"]]
    dests = re.findall(r"cp\s+\S*?(demo\w*\.rs)\s+(\S+\.rs)", cmd)
    for src, dst in dests:
        files.append((os.path.join(d, src), re.sub(r"^/tmp/[\w-]+/", "", dst)))
    if not files:
        m = re.findall(r"(rbx_\w+/tests/\S+\.rs)", loc + " " + cmd)
        for i, dm in enumerate(demos):
            if i < len(m):
                files.append((dm, m[i]))
    tests = re.findall(r"cargo test[^&;|]*", cmd)
    return files, tests


def worker(k, items):
    wt = f"/tmp/sv-w{k}"
    sh(f"git -C /repo worktree remove --force {wt}; git -C /repo worktree add -q --detach {wt} HEAD")
    env = dict(os.environ, CARGO_TARGET_DIR=f"/tmp/sv-target{k}", CARGO_NET_OFFLINE="true")
    for sd in items:
        d = os.path.join(ROOT, sd)
        res = {"seed": sd}
        try:
            meta = json.load(open(os.path.join(d, "meta.json")))
        except Exception as e:
            meta = {}
            res["meta_error"] = str(e)
        sh(f"git -C {wt} checkout -q -- . && git -C {wt} clean -fdq -e target")
        files, tests = demo_plan(d, meta)
        res["demo_files"] = [f[1] for f in files]
        res["demo_tests"] = tests
        if not files or not tests:
            res["error"] = "could not derive demo placement/command from meta.json"
            json.dump(res, open(os.path.join(d, "verify.json"), "w"), indent=1)
            print(sd, "NO-DEMO-PLAN", flush=True)
            continue

        def place():
            for src, dst in files:
                os.makedirs(os.path.dirname(os.path.join(wt, dst)), exist_ok=True)
                shutil.copy(src, os.path.join(wt, dst))

        def run_demo():
            rc_all = 0
            out_all = ""
            for t in tests:
                t2 = re.sub(r"CARGO_TARGET_DIR=\S+", "", t)
                if "--offline" not in t2:
                    t2 += " --offline"
                rc, out = sh(t2, cwd=wt, env=env, timeout=1800)
                rc_all |= (rc != 0)
                out_all += out[-1500:]
            return rc_all, out_all
        # without the change
        place()
        rc0, out0 = run_demo()
        res["demo_passes_without_change"] = rc0 == 0
        # with the change
        rc, out = sh(f"git -C {wt} apply --whitespace=nowarn {d}/patch.diff || git -C {wt} apply --3way --whitespace=nowarn {d}/patch.diff")
        res["patch_applies"] = rc == 0
        if rc != 0:
            res["apply_output"] = out[-500:]
        else:
            rc1, out1 = run_demo()
            res["demo_fails_with_change"] = rc1 != 0
            res["demo_tail_with_change"] = out1[-600:]
            # existing tests (demo files removed so they do not count)
            for src, dst in files:
                try:
                    os.remove(os.path.join(wt, dst))
                except OSError:
                    pass
            rc2, out2 = sh("cargo test --workspace --no-fail-fast --offline", cwd=wt, env=env, timeout=3000)
            okl = passed_tests(out2)
            from collections import Counter
            want = Counter(s.split("::", 1)[1] for s in BASE)
            have = Counter(okl)
            missing = sorted(k_ for k_, v in want.items() if have.get(k_, 0) < v)
            res["compiles"] = "error: could not compile" not in out2
            res["baseline_tests_still_pass"] = not missing and res["compiles"]
            res["baseline_missing"] = missing[:10]
        res["confirmed"] = bool(res.get("patch_applies") and res.get("demo_passes_without_change") and res.get("demo_fails_with_change") and res.get("baseline_tests_still_pass"))
        json.dump(res, open(os.path.join(d, "verify.json"), "w"), indent=1)
        print(sd, "CONFIRMED" if res["confirmed"] else "NOT-CONFIRMED", {k_: v for k_, v in res.items() if k_ in ("patch_applies", "demo_passes_without_change", "demo_fails_with_change", "baseline_tests_still_pass")}, flush=True)
    sh(f"git -C /repo worktree remove --force {wt}")
    shutil.rmtree(f"/tmp/sv-target{k}", ignore_errors=True)


chunks = [seeds[i::W] for i in range(W)]
with ThreadPoolExecutor(W) as ex:
    list(ex.map(lambda a: worker(*a), enumerate(chunks)))
