#!/bin/bash
cd /verif
./check all 2>&1 | grep "^\[C\|VIOLATION" > /tmp/reg_all.log
for d in benign_agents benign_agents2 benign_agents3 benign_agents4 benign_agents5 benign_agents6 benign_agents7 benign_agents8 benign_agents9 benign_agents10 benign_agents11; do ALL_BENIGN=1 VARIANT_DIR=/verif/selftest/$d python3 tools/variant_eval.py 6 2>&1 | grep -v "ok-silent" > /tmp/reg_$d.log; done
python3 tools/variant_eval.py 6 2>&1 | grep -v "ok-silent\|ok-fired" > /tmp/reg_variants.log
python3 tools/seed_eval.py /verif/seeded 6 2>&1 | grep -v " own " > /tmp/reg_seeds.log
python3 tools/repaired_eval.py > /tmp/reg_repaired.log 2>&1
echo finished > /tmp/reg_done
