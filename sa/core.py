"""sa.core — fact extraction driver, fact loader, report / evidence / known-finding plumbing.

Nothing of the analysed program is executed: `cargo +nightly check` only type-checks
/repo with the factgen driver as RUSTC_WORKSPACE_WRAPPER.
"""
import fcntl
import hashlib
import json
import os
import re
import shutil
import subprocess
import sys
import time

VERIF = os.path.dirname(os.path.dirname(os.path.abspath(__file__)))
REPO = os.environ.get("VERIF_REPO", "/repo")
CACHE = os.environ.get("VERIF_CACHE", os.path.join(VERIF, ".cache"))
OUT = os.environ.get("VERIF_OUT", VERIF)     # where evidence/ and reports/ are written (redirected for scratch-variant runs)
FACTGEN = os.path.join(VERIF, "factgen", "target", "release", "factgen")

LIB_CRATES = ["rbx_types", "rbx_reflection", "rbx_reflection_database", "rbx_dom_weak", "rbx_binary", "rbx_xml"]
BIN_CRATES = ["rbx_util", "rbx_reflector"]

# build configurations: name -> (cargo args, expected fact files)
CONFIGS = {
    "default": (["--workspace"], [c + "-lib" for c in LIB_CRATES] + [c + "-bin" for c in BIN_CRATES]),
    "types_noserde": (["-p", "rbx_types", "--no-default-features"], ["rbx_types-lib"]),
    "binary_text": (["-p", "rbx_binary", "--features", "unstable_text_format"], ["rbx_binary-lib"]),
}

INPUT_PATTERNS = (".rs", ".toml", ".lock", ".msgpack", ".md", ".json", ".yml", ".yaml")


class AnalysisError(Exception):
    pass


def repo_input_hash():
    h = hashlib.sha256()
    files = []
    for root, dirs, fs in os.walk(REPO):
        dirs[:] = sorted(d for d in dirs if d not in ("target", ".git", "node_modules", "test-files", "benches"))
        for f in sorted(fs):
            if f.endswith(INPUT_PATTERNS):
                files.append(os.path.join(root, f))
    for p in files:
        h.update(os.path.relpath(p, REPO).encode())
        h.update(b"\0")
        try:
            with open(p, "rb") as fh:
                h.update(hashlib.sha256(fh.read()).digest())
        except OSError:
            h.update(b"?")
    try:
        with open(FACTGEN, "rb") as fh:
            h.update(hashlib.sha256(fh.read()).digest())
    except OSError:
        raise AnalysisError("factgen driver not built: run MANIFEST.setup_cmd (cd /verif/factgen && cargo build --release --offline)")
    h.update(REPO.encode())
    return h.hexdigest()[:24], len(files)


def _sysroot():
    return subprocess.check_output(["rustc", "+nightly", "--print", "sysroot"], text=True).strip()


def ensure_facts(config="default"):
    """Return the directory holding fact files for /repo's current working tree under `config`."""
    os.makedirs(CACHE, exist_ok=True)
    hsh, nfiles = repo_input_hash()
    out = os.path.join(CACHE, "facts", f"{hsh}-{config}")
    lock_path = os.path.join(CACHE, "extract.lock")
    with open(lock_path, "w") as lock:
        fcntl.flock(lock, fcntl.LOCK_EX)
        marker = os.path.join(out, "OK")
        if os.path.exists(marker):
            return out, hsh
        if os.path.exists(out):
            shutil.rmtree(out)
        os.makedirs(out)
        args, expected = CONFIGS[config]
        target = os.path.join(CACHE, "target-" + config)
        # force the wrapper to run for workspace members: drop their fingerprints
        fp = os.path.join(target, "debug", ".fingerprint")
        if os.path.isdir(fp):
            for d in os.listdir(fp):
                if d.startswith("rbx_") or d.startswith("rbx-"):
                    shutil.rmtree(os.path.join(fp, d), ignore_errors=True)
        nonce = hashlib.sha256(f"{time.time()}-{os.getpid()}".encode()).hexdigest()[:16]
        env = dict(os.environ)
        env.update({
            "LD_LIBRARY_PATH": os.path.join(_sysroot(), "lib"),
            "RUSTFLAGS": "-Zmir-opt-level=0 -Awarnings",
            "RUSTC_WORKSPACE_WRAPPER": FACTGEN,
            "FACTGEN_OUT": out,
            "FACTGEN_NONCE": nonce,
            "CARGO_TARGET_DIR": target,
            "CARGO_NET_OFFLINE": "true",
        })
        env.pop("RUSTC_WRAPPER", None)
        cmd = ["cargo", "+nightly", "check", "--offline", "-q"] + args
        t0 = time.time()
        p = subprocess.run(cmd, cwd=REPO, env=env, stdout=subprocess.PIPE, stderr=subprocess.STDOUT, text=True)
        if p.returncode != 0:
            tail = "\n".join(p.stdout.splitlines()[-40:])
            shutil.rmtree(out, ignore_errors=True)
            raise AnalysisError(f"cannot-analyse: `{' '.join(cmd)}` failed in {REPO} (exit {p.returncode})\n{tail}")
        for e in expected:
            fpath = os.path.join(out, e + ".json")
            if not os.path.exists(fpath):
                shutil.rmtree(out, ignore_errors=True)
                raise AnalysisError(f"cannot-analyse: no fact file for {e} (driver skipped?)")
            with open(fpath, "rb") as fh:
                head = fh.read(4096)
            if nonce.encode() not in head:
                shutil.rmtree(out, ignore_errors=True)
                raise AnalysisError(f"cannot-analyse: stale fact file for {e} (nonce mismatch)")
        with open(marker, "w") as fh:
            json.dump({"hash": hsh, "config": config, "input_files": nfiles, "extract_s": round(time.time() - t0, 1)}, fh)
        # prune old fact sets (keep the 6 most recent)
        base = os.path.join(CACHE, "facts")
        sets = sorted((os.path.getmtime(os.path.join(base, d)), d) for d in os.listdir(base))
        for _, d in sets[:-6]:
            shutil.rmtree(os.path.join(base, d), ignore_errors=True)
        return out, hsh


# ---------------------------------------------------------------------------------- program model

class Fn:
    __slots__ = ("path", "crate", "d", "body", "params", "mir", "sp", "dk", "closures")

    def __init__(self, crate, d):
        self.path = d["path"]
        self.crate = crate
        self.d = d
        self.body = d.get("body")
        self.params = d.get("params", [])
        self.mir = d.get("mir")
        self.sp = d.get("sp", "")
        self.dk = d.get("dk")
        self.closures = []

    @property
    def file(self):
        return self.sp.split(":")[0]

    @property
    def line(self):
        try:
            return int(self.sp.split(":")[1])
        except Exception:
            return 0

    def __repr__(self):
        return f"<Fn {self.path}>"


def _resolve_types(node, types):
    """Replace interned type indices by strings, in place, iteratively."""
    stack = [node]
    while stack:
        n = stack.pop()
        if isinstance(n, dict):
            for k in ("ty", "aty", "dty", "cast_ty"):
                v = n.get(k)
                if isinstance(v, int):
                    n[k] = types[v]
            for v in n.values():
                if isinstance(v, (dict, list)):
                    stack.append(v)
        elif isinstance(n, list):
            for v in n:
                if isinstance(v, (dict, list)):
                    stack.append(v)


class Program:
    def __init__(self, facts_dir, hsh, config):
        self.dir = facts_dir
        self.hash = hsh
        self.config = config
        self.crates = {}
        self.fns = {}
        self.adts = {}
        self.impls = []
        self.traits = {}
        self.statics = {}
        for fname in sorted(os.listdir(facts_dir)):
            if not fname.endswith(".json"):
                continue
            with open(os.path.join(facts_dir, fname)) as fh:
                raw = fh.read()
            name = fname.rsplit("-", 1)[0]
            raw = re.sub(r"\bcrate::", name + "::", raw)
            d = json.loads(raw)
            types = d["types"]
            self.crates[name] = d
            for f in d["fns"]:
                if "mir" in f:
                    m = f["mir"]
                    m["locals"] = [types[i] for i in m["locals"]]
                _resolve_types(f, types)
                fn = Fn(name, f)
                # a lib and bin could share a name; first wins
                self.fns.setdefault(fn.path, fn)
            for a in d["adts"]:
                a["crate"] = name
                self.adts.setdefault(a["path"], a)
            for i in d["impls"]:
                i["crate"] = name
                self.impls.append(i)
            for t in d["traits"]:
                self.traits[t["path"]] = t
            for s in d["statics"]:
                self.statics[s["path"]] = s
        for fn in self.fns.values():
            if fn.dk == "Closure":
                root = fn.d.get("root")
                if root in self.fns:
                    self.fns[root].closures.append(fn)
        resolve_self_ctors(self)
        self.inlined_consts = inline_literal_consts(self)
        self.field_groups = flatten_field_groups(self)
        self.field_renames = canonicalise_fields(self)
        self.fn_renames = canonicalise_fns(self)

    def impl_fn(self, trait, self_ty, name):
        """method `name` of `impl trait for self_ty` (trait None = inherent)."""
        for i in self.impls:
            if i.get("trait") == trait and i["self"] == self_ty:
                for it in i["items"]:
                    if it["name"] == name and it["path"] in self.fns:
                        return self.fns[it["path"]]
        raise AnchorMissing(f"impl {trait} for {self_ty}: method {name} not found")

    def fn(self, path):
        f = self.fns.get(path)
        if f is None:
            raise AnchorMissing(f"function `{path}` not found in the fact base")
        return f

    def find_fns(self, regex):
        r = re.compile(regex)
        return [f for p, f in sorted(self.fns.items()) if r.search(p)]

    def adt(self, path):
        a = self.adts.get(path)
        if a is None:
            raise AnchorMissing(f"type `{path}` not found in the fact base")
        return a

    def lib_fns(self):
        return [f for f in self.fns.values() if f.crate in LIB_CRATES]


class AnchorMissing(Exception):
    pass


def fn_features(fn):
    """what a function is made of, independent of its name and of local names: resolved callees (last two path
    segments), literals, fields touched, struct / variant constructors"""
    out = set()
    if fn.body is None:
        return out
    for n in walk_fn(fn):
        k = n.get("k")
        if k in ("Call", "MethodCall"):
            cal = callee_generic(n) or ""
            if cal:
                out.add("c:" + "::".join(cal.split("::")[-2:]))
        elif k == "Lit":
            v = n["lit"].get("v")
            if isinstance(v, (str, int)) and len(str(v)) < 40:
                out.add("l:" + str(v))
        elif k == "Field":
            out.add("f:" + str(n.get("f")))
        elif k == "Struct" and n.get("def"):
            out.add("s:" + n["def"].rsplit("::", 1)[-1])
        elif k == "Path" and n.get("def") and n.get("res", "").startswith(("Ctor", "Const", "AssocConst", "Static")):
            out.add("p:" + "::".join(n["def"].split("::")[-2:]))
    return out


def canonicalise_fns(prog):
    """Re-bind canonical function paths (spec/fn_roles.json) that are missing from the fact base to the function
    that plays the same role under another name: same module, same signature, closest feature set (Jaccard >= 0.5 and
    clearly ahead of the runner-up).  The fact base is rewritten so that rules keep using the canonical paths.
    Returns {actual path: canonical path}."""
    rp = os.path.join(VERIF, "spec", "fn_roles.json")
    if not os.path.exists(rp):
        return {}
    with open(rp) as fh:
        roles = json.load(fh)
    missing = [p for p in roles if p not in prog.fns]
    if not missing and all(c in prog.statics for c in STATIC_ROLES):
        return {}
    taken = set(roles) & set(prog.fns)
    by_module = {}
    for p, f in prog.fns.items():
        if f.dk == "Closure" or f.body is None or p in taken:
            continue
        by_module.setdefault(p.rsplit("::", 1)[0], []).append(f)
    feats_cache = {}
    mapping = {}
    proposals = []
    for canon in missing:
        r = roles[canon]
        cands = [f for f in by_module.get(r["module"], []) if f.d.get("sig") == r["sig"]]
        want = set(r["feats"])
        scored = []
        for f in cands:
            if f.path not in feats_cache:
                feats_cache[f.path] = fn_features(f)
            got = feats_cache[f.path]
            j = len(want & got) / max(1, len(want | got))
            scored.append((j, f.path))
        scored.sort(reverse=True)
        if scored and scored[0][0] >= 0.5 and (len(scored) == 1 or scored[0][0] - scored[1][0] >= 0.15):
            proposals.append((scored[0][0], canon, scored[0][1]))
            continue
        # second stage: a free function turned into a method (or back), or a parameter reordered — same source
        # module (file), any signature, but a much closer feature match is required
        top = r["module"]
        while top.count("::") > 1 and not any(m == top for m in by_module):
            top = top.rsplit("::", 1)[0]
        file_mod = "::".join(r["module"].split("::")[:2])
        scored = []
        for m2, fl in by_module.items():
            if not (m2 == file_mod or m2.startswith(file_mod + "::")):
                continue
            for f in fl:
                if f.path not in feats_cache:
                    feats_cache[f.path] = fn_features(f)
                got = feats_cache[f.path]
                if len(want) < 6:
                    continue
                j = len(want & got) / max(1, len(want | got))
                scored.append((j, f.path))
        scored.sort(reverse=True)
        if scored and scored[0][0] >= 0.75 and (len(scored) == 1 or scored[0][0] - scored[1][0] >= 0.2):
            proposals.append((scored[0][0] - 0.25, canon, scored[0][1]))
    # one actual function can play one role only: best score first
    used = set()
    for sc, canon, actual in sorted(proposals, reverse=True):
        if actual in used or actual in mapping:
            continue
        mapping[actual] = canon
        used.add(actual)
    # statics by role: the one static of a given type in a module keeps its canonical name
    for canon, (module, ty_rx) in STATIC_ROLES.items():
        if canon in prog.statics:
            continue
        cands = [p for p, st in prog.statics.items() if p.rsplit("::", 1)[0] == module and p not in STATIC_ROLES and (re.search(ty_rx, st.get("ty") or "") or (ty_rx == "<opaque>" and st.get("ty") == p))]
        if len(cands) == 1:
            mapping[cands[0]] = canon
    if not mapping:
        return {}
    olds = sorted(mapping, key=len, reverse=True)
    rx = re.compile(r"(?<![\w])(" + "|".join(re.escape(o) for o in olds) + r")(?![\w])")

    def ren(sv):
        if not any(o in sv for o in olds):
            return sv
        return rx.sub(lambda m: mapping[m.group(1)], sv)
    KEYS = ("path", "def", "inst", "fn", "root", "cdef", "rk", "fnargs", "self", "trait", "ty", "aty", "dty")
    for crate in prog.crates.values():
        stack = [crate["fns"], crate["impls"], crate["statics"]]
        while stack:
            n = stack.pop()
            if isinstance(n, dict):
                for k2 in KEYS:
                    v = n.get(k2)
                    if isinstance(v, str):
                        nv = ren(v)
                        if nv is not v:
                            n[k2] = nv
                stack.extend(v for v in n.values() if isinstance(v, (dict, list)))
            elif isinstance(n, list):
                stack.extend(n)
    newfns = {}
    for p, f in prog.fns.items():
        f.path = f.d.get("path", ren(p))
        newfns[f.path] = f
    prog.fns = newfns
    prog.statics = {st["path"]: st for st in prog.statics.values()}
    return mapping


STATIC_ROLES = {
    "rbx_types::shared_string::STRING_CACHE": ("rbx_types::shared_string", "<opaque>"),
    "rbx_types::unique_id::INDEX": ("rbx_types::unique_id", r"^core::sync::atomic::Atomic<u32>$"),
}


# Private state structs whose fields the rules talk about.  A field is identified by its *type* (role), so renaming a
# private field does not change what a rule means; the rules keep using the canonical names below, and the fact base
# is rewritten at load time when the source uses another name.  Fields that cannot be told apart by type keep their
# own names.
FIELD_ROLES = {
    "rbx_binary::serializer::state::SerializerState": {
        "relevant_instances": r"^alloc::vec::Vec<rbx_types::referent::Ref>$", "id_to_referent": r"HashMap<rbx_types::referent::Ref, i32\b",
        "type_infos": r"^rbx_binary::serializer::state::TypeInfos<", "shared_strings": r"^alloc::vec::Vec<rbx_types::shared_string::SharedString>$",
        "shared_string_ids": r"HashMap<rbx_types::shared_string::SharedString, u32\b", "output": r"^W$", "dom": r"^&'dom rbx_dom_weak::dom::WeakDom$",
        "serializer": r"^&'db rbx_binary::serializer::Serializer<"},
    "rbx_binary::serializer::Serializer": {"database": r"ReflectionDatabase<", "compression": r"CompressionType$"},
    "rbx_binary::serializer::state::TypeInfos": {"values": r"BTreeMap<ustr::Ustr, rbx_binary::serializer::state::TypeInfo<", "next_type_id": r"^u32$", "database": r"ReflectionDatabase<"},
    "rbx_binary::serializer::state::TypeInfo": {
        "type_id": r"^u32$", "is_service": r"^bool$", "instances": r"^alloc::vec::Vec<&'dom rbx_dom_weak::instance::Instance>$",
        "properties": r"BTreeMap<ustr::Ustr, rbx_binary::serializer::state::PropInfo<", "class_descriptor": r"Option<&'db rbx_reflection::database::ClassDescriptor<"},
    "rbx_binary::serializer::state::PropInfo": {
        "prop_type": r"^rbx_binary::types::Type$", "serialized_name": r"^ustr::Ustr$", "aliases": r"HashSet<ustr::Ustr",
        "default_value": r"Cow<'db, rbx_types::variant::Variant>", "migration": r"Option<&'db rbx_reflection::migration::PropertyMigration>"},
    "rbx_binary::deserializer::state::DeserializerState": {
        "tree": r"^rbx_dom_weak::dom::WeakDom$", "shared_strings": r"^alloc::vec::Vec<rbx_types::shared_string::SharedString>$",
        "type_infos": r"HashMap<u32, rbx_binary::deserializer::state::TypeInfo\b", "instances_by_ref": r"HashMap<i32, rbx_binary::deserializer::state::Instance\b",
        "root_instance_refs": r"^alloc::vec::Vec<i32>$", "metadata": r"HashMap<alloc::string::String, alloc::string::String\b", "input": r"^R$"},
    "rbx_binary::deserializer::state::TypeInfo": {"type_id": r"^u32$", "type_name": r"^ustr::Ustr$", "referents": r"^alloc::vec::Vec<i32>$"},
    "rbx_binary::deserializer::state::Instance": {"builder": r"InstanceBuilder$", "children": r"^alloc::vec::Vec<i32>$"},
    "rbx_binary::chunk::ChunkBuilder": {"chunk_name": r"^&'static \[u8\]$", "compression": r"CompressionType$", "buffer": r"^alloc::vec::Vec<u8>$"},
    "rbx_xml::serializer::EmitState": {
        "options": r"EncodeOptions<", "referent_map": r"HashMap<rbx_types::referent::Ref, u32\b", "next_referent": r"^u32$",
        "shared_strings_to_emit": r"SharedStringHash, rbx_types::shared_string::SharedString>"},
    "rbx_xml::deserializer::ParseState": {
        "tree": r"rbx_dom_weak::dom::WeakDom$", "options": r"DecodeOptions<", "referents_to_ids": r"HashMap<alloc::string::String, rbx_types::referent::Ref\b",
        "referent_rewrites": r"Vec<rbx_xml::deserializer::ReferentRewrite>", "known_shared_strings": r"HashMap<alloc::string::String, rbx_types::shared_string::SharedString\b",
        "shared_string_rewrites": r"Vec<rbx_xml::deserializer::SharedStringRewrite>", "unknown_type_names": r"HashSet<alloc::string::String\b"},
    "rbx_dom_weak::dom::WeakDom": {"instances": r"AHashMap<rbx_types::referent::Ref, rbx_dom_weak::instance::Instance>", "root_ref": r"^rbx_types::referent::Ref$", "unique_ids": r"AHashSet<rbx_types::unique_id::UniqueId>"},
    "rbx_dom_weak::instance::Instance": {"children": r"^alloc::vec::Vec<rbx_types::referent::Ref>$"},
    "rbx_dom_weak::dom::CloneContext": {"queue": r"VecDeque<\(rbx_types::referent::Ref, rbx_types::referent::Ref\)>", "ref_rewrites": r"AHashMap<rbx_types::referent::Ref, rbx_types::referent::Ref>"},
    "rbx_dom_weak::dom::WeakDomDescendants": {"queue": r"VecDeque<rbx_types::referent::Ref>", "dom": r"rbx_dom_weak::dom::WeakDom$"},
    "rbx_types::shared_string::SharedString": {"data": r"Option<alloc::sync::Arc<alloc::vec::Vec<u8>>>", "hash": r"^blake3::Hash$"},
}


def resolve_self_ctors(prog):
    """`Self(..)` inside an impl resolves to the impl (`<T as From<U>>` in a trait impl), not to the tuple struct it
    constructs; the call's type is the struct — name the constructor after it, so that `Self(x)` and `T(x)` are the same
    thing wherever they are written"""
    n = 0
    for f in prog.fns.values():
        if f.body is None:
            continue
        for x in walk(f.body):
            if x.get("k") == "Call" and isinstance(x.get("f"), dict) and x["f"].get("k") == "Path" and x["f"].get("res") == "SelfCtor":
                ty = (x.get("ty") or "").split("<")[0]
                if ty in prog.adts and x["f"].get("def") != ty:
                    x["f"]["def"] = ty
                    x["f"].pop("inst", None)
                    n += 1
    return n


def inline_literal_consts(prog):
    """Module-level `const NAME: T = <string / integer / bool literal>;` of the library crates: every use of NAME in a body
    is replaced by the literal, so that `ustr("UniqueId")` and `ustr(UNIQUE_ID_PROP)` are the same program to the rules
    (a named constant in place of a magic value is a pure spelling change).  Returns {const path: value}."""
    lits = {}
    for path, fn in prog.fns.items():
        if not str(fn.dk).startswith("Const") or fn.crate not in LIB_CRATES or fn.body is None:
            continue
        b = strip(fn.body)
        if b.get("k") == "Lit" and b["lit"].get("lk") in ("str", "int", "bool"):
            lits[path] = b
    if not lits:
        return {}

    def rewrite(n):
        if isinstance(n, dict):
            if n.get("k") == "Path" and n.get("def") in lits and str(n.get("res", "")).startswith("Const"):
                lit = lits[n["def"]]
                keep = {k: v for k, v in n.items() if k in ("sp", "ty", "aty", "adj")}
                n.clear()
                n.update({"k": "Lit", "lit": dict(lit["lit"]), "from_const": True})
                n.update(keep)
                return
            for key, v in n.items():
                if key in ("pat", "pats", "p"):
                    continue        # patterns keep naming the constant (rules resolve it there)
                if isinstance(v, (dict, list)):
                    rewrite(v)
        elif isinstance(n, list):
            for v in n:
                rewrite(v)
    for fn in prog.fns.values():
        if fn.body is not None and fn.crate in LIB_CRATES and not str(fn.dk).startswith("Const"):
            rewrite(fn.body)
    return {p: b["lit"].get("v") for p, b in lits.items()}


def flatten_field_groups(prog):
    """A private struct that only groups fields of one of the state structs in FIELD_ROLES (no methods of its own, used
    as the type of exactly one field, always built by a literal where the state struct is built) is dissolved into the
    state struct: `self.table.ids` becomes `self.ids`.  The rules then see the same places whether or not a refactoring
    bundled two fields.  Returns {state struct: {field: group struct}} for the evidence."""
    done = {}
    for adt in FIELD_ROLES:
        a = prog.adts.get(adt)
        if a is None or not a.get("variants"):
            continue
        fields = a["variants"][0]["fields"]
        for f in list(fields):
            gname = (f["ty"] or "").split("<")[0]
            g = prog.adts.get(gname)
            if g is None or gname in FIELD_ROLES or g.get("crate") != a.get("crate") or str(g.get("kind")).lower() != "struct" or not g.get("variants"):
                continue
            if "Public" in str(g.get("vis")) or not gname.startswith(adt.rsplit("::", 1)[0] + "::"):
                continue
            # used as a field type once, no inherent methods with a self receiver
            users = [(an, x["name"]) for an, ad in prog.adts.items() if ad.get("variants") for v in ad["variants"] for x in v["fields"] if (x["ty"] or "").split("<")[0] == gname]
            if len(users) != 1:
                continue
            if any(fn.path.startswith(gname + "::") or fn.path.startswith("<" + gname + " as ") for fn in prog.fns.values() if "derive" not in (fn.d.get("x") or "")):
                continue
            gfields = g["variants"][0]["fields"]
            if {x["name"] for x in gfields} & ({x["name"] for x in fields} - {f["name"]}):
                continue
            # every literal of the state struct gives the group as a literal
            ok = True
            lits = []
            for fn in prog.fns.values():
                if fn.body is None:
                    continue
                for n in walk_fn(fn):
                    if n.get("k") == "Struct" and n.get("def") == adt:
                        fl = [x for x in n.get("fields") or [] if x.get("f") == f["name"]]
                        if fl and not (strip(fl[0]["e"]).get("k") == "Struct" and strip(fl[0]["e"]).get("def") == gname and not strip(fl[0]["e"]).get("base")):
                            ok = False
                        lits.append(n)
            if not ok:
                continue
            # --- rewrite
            idx = fields.index(f)
            fields[idx:idx + 1] = [dict(x) for x in gfields]
            old_mir, = [f"{adt}.{f['name']}"]
            for fn in prog.fns.values():
                if fn.body is not None:
                    # a local that only names the group (`let table = &mut self.table;`): `table.ids` is `self.ids`
                    alias = {}
                    for st in walk_lets(fn.body):
                        if st["pat"].get("k") == "Binding" and isinstance(st.get("init"), dict):
                            i0 = strip(st["init"])
                            while i0.get("k") in ("AddrOf", "Unary") and isinstance(i0.get("e"), dict):
                                i0 = strip(i0["e"])
                            if i0.get("k") == "Field" and i0.get("f") == f["name"] and ((i0.get("ty") or "").split("<")[0] == gname):
                                alias[st["pat"]["lid"]] = i0["e"]
                    stack = [fn.body]
                    while stack:
                        n = stack.pop()
                        if isinstance(n, dict):
                            if alias and n.get("k") == "Field" and isinstance(n.get("e"), dict):
                                a0 = n["e"]
                                while a0.get("k") in ("DropTemps", "Use", "Type", "Unary", "AddrOf") and isinstance(a0.get("e"), dict):
                                    a0 = a0["e"]
                                if a0.get("k") == "Path" and a0.get("res") == "local" and a0.get("lid") in alias:
                                    n["e"] = alias[a0["lid"]]
                            if n.get("k") == "Field" and isinstance(n.get("e"), dict):
                                inner = n["e"]
                                while inner.get("k") in ("DropTemps", "Use", "Type") and isinstance(inner.get("e"), dict):
                                    inner = inner["e"]
                                if inner.get("k") == "Field" and inner.get("f") == f["name"] and ((inner.get("ty") or "").split("<")[0] == gname):
                                    n["e"] = inner["e"]
                            if n.get("k") == "Struct" and n.get("def") == adt and isinstance(n.get("fields"), list):
                                out = []
                                for x in n["fields"]:
                                    if x.get("f") == f["name"]:
                                        out.extend(strip(x["e"])["fields"])
                                    else:
                                        out.append(x)
                                n["fields"] = out
                            stack.extend(v for v in n.values() if isinstance(v, (dict, list)))
                        elif isinstance(n, list):
                            stack.extend(n)
                if fn.mir:
                    stack = [fn.mir["blocks"]]
                    while stack:
                        n = stack.pop()
                        if isinstance(n, dict):
                            pr = n.get("proj")
                            if isinstance(pr, list) and old_mir in pr:
                                out = []
                                i = 0
                                while i < len(pr):
                                    if pr[i] == old_mir and i + 1 < len(pr) and isinstance(pr[i + 1], str) and pr[i + 1].startswith(gname + "."):
                                        out.append(adt + "." + pr[i + 1][len(gname) + 1:])
                                        i += 2
                                    else:
                                        out.append(pr[i])
                                        i += 1
                                n["proj"] = out
                            stack.extend(v for v in n.values() if isinstance(v, (dict, list)))
                        elif isinstance(n, list):
                            stack.extend(n)
            done.setdefault(adt, {})[f["name"]] = gname
    return done


def canonicalise_fields(prog):
    """Rename fields of the structs in FIELD_ROLES to their canonical (role) names throughout the fact base, when the
    source names differ.  Returns {adt: {actual name: canonical name}} for the evidence."""
    ren = {}
    for adt, roles in FIELD_ROLES.items():
        a = prog.adts.get(adt)
        if a is None or not a.get("variants"):
            continue
        fields = a["variants"][0]["fields"]
        names = {f["name"] for f in fields}
        m = {}
        for canon, rx in roles.items():
            if canon in names:
                continue      # the canonical name is in use: nothing to do for this role
            hits = [f for f in fields if re.search(rx, f["ty"])]
            # unambiguous by type, and not already claimed by another role that kept its name
            hits = [f for f in hits if f["name"] not in roles]
            if len(hits) == 1:
                m[hits[0]["name"]] = canon
        if m:
            ren[adt] = m
    if not ren:
        return {}

    def adt_of(ty):
        t = (ty or "").lstrip("&").strip()
        t = re.sub(r"^'\w+ ", "", t)
        t = re.sub(r"^mut ", "", t).strip()
        t = re.sub(r"^&('\w+ )?(mut )?", "", t)
        return t.split("<", 1)[0]
    for adt, m in ren.items():
        for f in prog.adts[adt]["variants"][0]["fields"]:
            if f["name"] in m:
                f["name"] = m[f["name"]]
    mir_map = {f"{adt}.{old}": f"{adt}.{new}" for adt, m in ren.items() for old, new in m.items()}
    for fn in prog.fns.values():
        if fn.body is not None:
            stack = [fn.body, fn.params]
            while stack:
                n = stack.pop()
                if isinstance(n, dict):
                    k = n.get("k")
                    if k == "Field" and isinstance(n.get("e"), dict):
                        a = adt_of(n["e"].get("aty") or n["e"].get("ty"))
                        if a not in ren:
                            a = adt_of(n["e"].get("ty"))
                        if a in ren and n.get("f") in ren[a]:
                            n["f"] = ren[a][n["f"]]
                    if k == "Struct" and n.get("def") in ren and isinstance(n.get("fields"), list):
                        for fl in n["fields"]:
                            if isinstance(fl, dict) and fl.get("f") in ren[n["def"]]:
                                fl["f"] = ren[n["def"]][fl["f"]]
                    if k == "Closure":
                        for cp in n.get("captures") or []:
                            pass
                    stack.extend(v for v in n.values() if isinstance(v, (dict, list)))
                elif isinstance(n, list):
                    stack.extend(n)
        if fn.mir:
            stack = [fn.mir["blocks"]]
            while stack:
                n = stack.pop()
                if isinstance(n, dict):
                    pr = n.get("proj")
                    if isinstance(pr, list):
                        n["proj"] = [mir_map.get(x, x) if isinstance(x, str) else x for x in pr]
                    stack.extend(v for v in n.values() if isinstance(v, (dict, list)))
                elif isinstance(n, list):
                    stack.extend(n)
    return ren


_PROGRAMS = {}


def load_program(config="default"):
    if config in _PROGRAMS:
        return _PROGRAMS[config]
    d, h = ensure_facts(config)
    p = Program(d, h, config)
    _PROGRAMS[config] = p
    return p


# ---------------------------------------------------------------------------------- HIR helpers

CHILD_KEYS = ("e", "f", "l", "r", "c", "t", "recv", "init", "body", "base", "guard")
LIST_KEYS = ("args",)


def children(n):
    """Direct sub-expressions of a HIR expression node (including through blocks, arms, fields)."""
    k = n.get("k")
    out = []
    if k == "If":
        out = [n["c"], n["t"]]
        if "f" in n:
            out.append(n["f"])
        return out
    for key in CHILD_KEYS:
        v = n.get(key)
        if isinstance(v, dict) and "k" in v:
            out.append(v)
    v = n.get("args")
    if isinstance(v, list):
        out.extend(v)
    if k in ("Block", "Loop"):
        out.extend(block_exprs(n["b"]))
    if k == "Match":
        for a in n["arms"]:
            if "guard" in a:
                out.append(a["guard"])
            out.append(a["body"])
            out.extend(pat_exprs(a["pat"]))
    if k == "Struct":
        for f in n["fields"]:
            out.append(f["e"])
    if k == "LetExpr":
        out.extend(pat_exprs(n["pat"]))
    return out


def pat_exprs(p):
    out = []
    stack = [p]
    while stack:
        q = stack.pop()
        if not isinstance(q, dict):
            continue
        if q.get("k") == "Guard":
            out.append(q["guard"])
        for key in ("p", "sub", "mid"):
            if key in q and isinstance(q[key], dict):
                stack.append(q[key])
        for key in ("pats", "pre", "post"):
            for x in q.get(key, []) or []:
                stack.append(x)
        for f in q.get("fields", []) or []:
            stack.append(f["p"])
    return out


def block_exprs(b):
    out = []
    for st in b["stmts"]:
        if st["k"] == "Let":
            if "init" in st:
                out.append(st["init"])
            if "els" in st:
                out.extend(block_exprs(st["els"]))
        else:
            out.append(st["e"])
    if "expr" in b:
        out.append(b["expr"])
    return out


def walk(n, into_closures=True):
    """Pre-order traversal of all expression nodes below (and including) n."""
    stack = [n]
    while stack:
        x = stack.pop()
        yield x
        if x.get("k") == "Closure" and not into_closures:
            continue
        ch = children(x)
        stack.extend(reversed(ch))


def all_lits(n):
    """every literal value anywhere below n — in expressions AND in patterns (`matches!(c, '\\r' | '\\0'..='\\u{8}')`)"""
    stack = [n]
    while stack:
        x = stack.pop()
        if isinstance(x, dict):
            if x.get("k") == "Lit" and isinstance(x.get("lit"), dict):
                yield x["lit"].get("v")
            stack.extend(v for v in x.values() if isinstance(v, (dict, list)))
        elif isinstance(x, list):
            stack.extend(v for v in x if isinstance(v, (dict, list)))


def walk_fn(fn, into_closures=True):
    if fn.body is None:
        return
    yield from walk(fn.body, into_closures)


def callee(n):
    """Resolved callee path of a Call / MethodCall node (most specific known), else None."""
    k = n.get("k")
    if k == "MethodCall":
        return n.get("inst") or n.get("def")
    if k == "Call":
        f = n["f"]
        if f.get("k") == "Path":
            return f.get("inst") or f.get("def")
    return None


def callee_generic(n):
    k = n.get("k")
    if k == "MethodCall":
        return n.get("def")
    if k == "Call":
        f = n["f"]
        if f.get("k") == "Path":
            return f.get("def")
    return None


def call_args(n):
    """All argument expressions, receiver first for method calls."""
    if n.get("k") == "MethodCall":
        return [n["recv"]] + n["args"]
    return n.get("args", [])


def strip(n):
    """Peel wrappers that do not change the value: DropTemps, Use, Type, AddrOf, unary deref, Block with only expr."""
    while True:
        k = n.get("k")
        if k in ("DropTemps", "Use", "Type", "AddrOf"):
            n = n["e"]
        elif k == "Unary" and n.get("op") == "*":
            n = n["e"]
        elif k == "Block" and not n["b"]["stmts"] and "expr" in n["b"] and "label" not in n:
            n = n["b"]["expr"]
        else:
            return n


def loc(n):
    sp = n.get("sp", "")
    parts = sp.split(":")
    return f"{parts[0]}:{parts[1]}" if len(parts) > 1 else sp


def place_root(n):
    """For a place expression (local / field / index / deref chains, through method calls that
    return references like get_mut/unwrap/as_mut), return (root_local_name_or_None, [field path])."""
    fields = []
    while True:
        n = strip(n)
        k = n.get("k")
        if k == "Field":
            fields.append(n["f"])
            n = n["e"]
        elif k == "Index":
            fields.append("[]")
            n = n["l"]
        elif k == "Path" and n.get("res") == "local":
            return n["name"], list(reversed(fields))
        elif k == "MethodCall":
            fields.append("." + n["m"] + "()")
            n = n["recv"]
        elif k == "Match" and n.get("src") == "TryDesugar":
            # expr? : the scrutinee is Try::branch(expr)
            inner = n["e"]
            if inner.get("k") == "Call" and inner["args"]:
                n = inner["args"][0]
                fields.append("?")
            else:
                return None, list(reversed(fields))
        else:
            return None, list(reversed(fields))


def place_root_lid(n):
    """like place_root, but identifies the root local by its HirId-local id: (lid or None, [field path])"""
    fields = []
    while True:
        n = strip(n)
        k = n.get("k")
        if k == "Field":
            fields.append(n["f"])
            n = n["e"]
        elif k == "Index":
            fields.append("[]")
            n = n["l"]
        elif k == "Path" and n.get("res") == "local":
            return n.get("lid"), list(reversed(fields))
        elif k == "MethodCall":
            fields.append("." + n["m"] + "()")
            n = n["recv"]
        elif k == "Match" and n.get("src") == "TryDesugar":
            inner = n["e"]
            if inner.get("k") == "Call" and inner["args"]:
                n = inner["args"][0]
                fields.append("?")
            else:
                return None, list(reversed(fields))
        else:
            return None, list(reversed(fields))


def binding_origins(fn):
    """{binding lid: ([(pattern def path, field name or index), ...] outermost first, scrutinee / initialiser node)}
    for every binding introduced by a let, if-let / while-let, match arm or for loop of fn (closures included)."""
    out = {}

    def rec(p, chain, scrut):
        if not isinstance(p, dict):
            return
        k = p.get("k")
        if k == "Binding":
            out[p["lid"]] = (list(chain), scrut)
            if "sub" in p:
                rec(p["sub"], chain, scrut)
        elif k in ("Ref", "Deref", "Box"):
            rec(p.get("p"), chain, scrut)
        elif k == "TupleStruct":
            for i, q in enumerate(p.get("pats") or []):
                rec(q, chain + [(p.get("def"), i)], scrut)
        elif k == "Struct":
            for f in p.get("fields") or []:
                rec(f["p"], chain + [(p.get("def"), f["f"])], scrut)
        elif k in ("Tuple", "Slice", "Or"):
            for i, q in enumerate(p.get("pats") or []):
                rec(q, chain + [(k, i)] if k != "Or" else chain, scrut)
    if fn.body is None:
        return out
    for st in walk_lets(fn.body):
        rec(st.get("pat"), [], st.get("init"))
    for n in walk_fn(fn):
        k = n.get("k")
        if k == "LetExpr":
            rec(n["pat"], [], n["init"])
        elif k == "Match":
            for arm in n["arms"]:
                rec(arm["pat"], [], n["e"])
    return out


def resolve_place(n, origins, depth=0):
    """(root lid, [field path]) of a place expression, looking through locals that were bound by destructuring a
    struct (`let S { a, b } = x;` makes `a` mean `x.a`) or by a plain `let y = x.f;`"""
    lid, path = place_root_lid(n)
    fields = [p for p in path]
    while lid is not None and lid in origins and depth < 6:
        chain, scrut = origins[lid]
        if scrut is None:
            break
        names = [f for d, f in chain if isinstance(f, str)]
        if len(names) != len(chain):
            break        # tuple / enum payload positions are not field paths
        l2, p2 = place_root_lid(scrut)
        if l2 is None or l2 == lid:
            break
        if any(x.startswith(".") and x not in (".clone()", ".as_ref()", ".borrow()", ".iter()", ".into_iter()") for x in p2):
            break        # bound from a computed value, not from a place
        fields = [x for x in p2] + names + fields
        lid = l2
        depth += 1
    return lid, fields


def param_lids(fn):
    """{param name: (lid, type)} for simple binding parameters"""
    out = {}
    for prm in fn.params:
        p = prm.get("pat") or prm
        if p.get("k") == "Binding" or "lid" in p:
            out[p.get("name") or prm.get("name")] = (p.get("lid"), prm.get("ty") or p.get("ty"))
    return out


def fingerprint(n, depth=4):
    """A short, line-number-free description of an expression built from resolved callees,
    field names and local names."""
    n = strip(n)
    k = n.get("k")
    if depth <= 0:
        return "…"
    if k == "Path":
        if n.get("res") == "local":
            return n["name"]
        return short(n.get("def", "?"))
    if k == "Field":
        return fingerprint(n["e"], depth) + "." + n["f"]
    if k == "MethodCall":
        return f"{fingerprint(n['recv'], depth - 1)}.{n['m']}({','.join(fingerprint(a, depth - 1) for a in n['args'])})"
    if k == "Call":
        return f"{fingerprint(n['f'], depth - 1)}({','.join(fingerprint(a, depth - 1) for a in n['args'])})"
    if k == "Index":
        return f"{fingerprint(n['l'], depth - 1)}[{fingerprint(n['r'], depth - 1)}]"
    if k == "Lit":
        return repr(n["lit"].get("v"))
    if k == "Binary":
        return f"({fingerprint(n['l'], depth - 1)}{n['op']}{fingerprint(n['r'], depth - 1)})"
    if k == "Unary":
        return f"{n['op']}{fingerprint(n['e'], depth - 1)}"
    if k == "Cast":
        return f"{fingerprint(n['e'], depth - 1)} as {short(n['ty'])}"
    if k == "Match" and n.get("src") == "TryDesugar":
        inner = n["e"]
        if inner.get("k") == "Call" and inner["args"]:
            return fingerprint(inner["args"][0], depth) + "?"
    if k == "Closure":
        return "|…|"
    if k == "Struct":
        return short(n.get("def", "?")) + "{…}"
    if k == "Tup":
        return "(" + ",".join(fingerprint(a, depth - 1) for a in n["args"]) + ")"
    return k or "?"


def short(path):
    """Last two segments of a pretty path, generic arguments removed."""
    p = re.sub(r"<[^<>]*>", "", path)
    p = re.sub(r"<[^<>]*>", "", p)
    segs = [s for s in p.split("::") if s]
    return "::".join(segs[-2:]) if len(segs) >= 2 else p


def lit_value(n):
    n = strip(n)
    if n.get("k") == "Lit":
        return n["lit"].get("v")
    if n.get("k") == "Unary" and n.get("op") == "-" and strip(n["e"]).get("k") == "Lit":
        v = strip(n["e"])["lit"].get("v")
        if isinstance(v, int):
            return -v
        if isinstance(v, str):
            return "-" + v
    return None


# ---------------------------------------------------------------------------------- checker plumbing

class Checker:
    def __init__(self, prop, tier="quick"):
        self.prop = prop
        self.tier = tier
        self.t0 = time.time()
        self.violations = []       # dicts
        self.rules = {}            # rule -> {"obligations": n, "discharged": n, "desc": str}
        self.samples = []
        self.floors = {}
        self.assumptions = []
        self.analysed = {}
        self.notes = []
        self.not_decided = []
        try:
            self.seed = int(os.environ.get("VERIF_SEED", "0"))
        except ValueError:
            self.seed = 0

    # -- rule bookkeeping
    def rule(self, rid, desc):
        self.rules.setdefault(rid, {"desc": desc, "obligations": 0, "discharged": 0, "instances": set()})

    def ok(self, rid, instance=None, n=1):
        r = self.rules[rid]
        r["obligations"] += n
        r["discharged"] += n
        if instance is not None:
            r["instances"].add(str(instance))

    def violation(self, rid, key, msg, where="", detail=None, instance=None):
        """key: line-number-free identity of the violating construct (rule|function|construct|fingerprint)."""
        r = self.rules[rid]
        r["obligations"] += 1
        if instance is not None:
            r["instances"].add(str(instance))
        self.violations.append({"rule": rid, "key": f"{rid}|{key}", "msg": msg, "where": where, "detail": detail})

    def floor(self, rid, found, required, what):
        self.floors[rid + ":" + what] = [found, required]
        if found < required:
            self.rules.setdefault(rid, {"desc": "", "obligations": 0, "discharged": 0, "instances": set()})
            self.violation(rid, f"floor|{what}", f"instance count for `{what}` fell to {found}, below the {required} confirmed by hand on the pinned tree (rule would pass vacuously)", "")

    def sample(self, s):
        if len(self.samples) < 12:
            self.samples.append(s)

    def finish(self):
        known = load_known(self.prop)
        open_keys = {k["key"]: k for k in known if k.get("status") == "open"}
        new = []
        seen_known = []
        uniq = {}
        for v in self.violations:
            uniq.setdefault(v["key"], v)
        for v in uniq.values():
            if v["key"] in open_keys:
                seen_known.append(v)
            else:
                new.append(v)
        os.makedirs(os.path.join(OUT, "reports"), exist_ok=True)
        os.makedirs(os.path.join(OUT, "evidence"), exist_ok=True)
        printed = set()
        for v in seen_known:
            if v["key"] in printed:
                continue
            printed.add(v["key"])
            print(f"KNOWN-FINDING: property={self.prop} {open_keys[v['key']]['what']} [{v['key']}] at {v['where']}")
        for i, v in enumerate(new):
            rp = os.path.join(OUT, "reports", f"{self.prop}-{i}.json")
            with open(rp, "w") as fh:
                json.dump({"property": self.prop, **v, "repo": REPO, "tier": self.tier}, fh, indent=1)
            print(f"  {v['rule']}: {v['msg']}  at {v['where']}   key={v['key']}")
            print(f"VIOLATION property={self.prop} replay={rp}")
        obligations = sum(r["obligations"] for r in self.rules.values())
        discharged = sum(r["discharged"] for r in self.rules.values())
        distinct = sum(len(r["instances"]) for r in self.rules.values())
        ev = {
            "property_id": self.prop,
            "tier": self.tier,
            "seed": self.seed,
            "level": "other",
            "coverage": {
                "explanation": "Static analysis (no code of /repo executed). Rules applied: " + "; ".join(
                    f"{rid} — {r['desc']} [{r['discharged']}/{r['obligations']} instances conform]" for rid, r in sorted(self.rules.items()))
                    + (". NOT decided: " + "; ".join(self.not_decided) if self.not_decided else "")
                    + ((". Thorough tier controls (the same check re-run on scratch copies of the tree with one stored patch each; they never change the verdict): "
                        + f"breaking changes reported {self.analysed['controls'].get('breaking_fired')}/{self.analysed['controls'].get('breaking_total')}, "
                        + f"behaviour-preserving refactorings left silent {self.analysed['controls'].get('benign_silent')}/{self.analysed['controls'].get('benign_total')}, "
                        + f"skipped (patch no longer applies / tree does not build) {len(self.analysed['controls'].get('skipped', []))}, "
                        + f"missed {self.analysed['controls'].get('missed')}, false alarms {self.analysed['controls'].get('false_alarms')}") if isinstance(self.analysed.get("controls"), dict) and "breaking_total" in self.analysed.get("controls", {}) else ""),
                "obligations": obligations,
                "discharged": discharged,
                "evaluations": max(obligations, 1),
                "distinct_nontrivial": distinct,
                "rule": "a case is one rule instance (a named construct of /repo the rule template was instantiated on: an arm, a call site, a table row, a database entry); distinct = distinct instance names per rule",
                "samples": self.samples or ["(no samples recorded)"],
                "exhaustive": False,
                "per_rule": {rid: {"obligations": r["obligations"], "discharged": r["discharged"], "distinct_instances": len(r["instances"])} for rid, r in sorted(self.rules.items())},
                "floors": self.floors,
                "analysed": self.analysed,
                "known_findings_seen": sorted(printed),
                "trusted_base": ["rustc nightly front end (resolution, typeck, MIR build)", "cargo reproducing the build flags", "the Python rule engines in /verif/sa", "std/third-party crates as documented"],
            },
            "assumptions": self.assumptions,
            "wall_s": round(time.time() - self.t0, 2),
            "violations": len(new),
        }
        with open(os.path.join(OUT, "evidence", f"{self.prop}.json"), "w") as fh:
            json.dump(ev, fh, indent=1, sort_keys=True)
        status = "FAIL" if new else "ok"
        print(f"[{self.prop}] {status}: {discharged}/{obligations} rule instances conform, {len(printed)} known finding(s), {len(new)} new violation(s), {ev['wall_s']}s")
        return 1 if new else 0


def load_known(prop):
    p = os.path.join(VERIF, "known_findings.json")
    if not os.path.exists(p):
        return []
    with open(p) as fh:
        d = json.load(fh)
    return [k for k in d.get("findings", []) if k.get("property") == prop]


# ---------------------------------------------------------------------------------- desugaring recognisers

def as_try(n):
    """`expr?`  ->  expr  (HIR: match Try::branch(expr) { Break(r) => return from_residual(r), Continue(v) => v })."""
    if n.get("k") == "Match" and n.get("src") == "TryDesugar":
        inner = n["e"]
        if inner.get("k") == "Call" and inner["args"]:
            return inner["args"][0]
    return None


def as_for(n):
    """`for pat in iter { body }` -> (pat, iter_expr, body_expr, loop_hid)."""
    n0 = n
    if n0.get("k") == "DropTemps":
        n0 = n0["e"]
    if n0.get("k") == "MethodCall" and n0.get("m") in ("for_each", "try_for_each") and len(n0.get("args") or []) == 1:
        # `xs.iter().for_each(|x| body)` / `.try_for_each(|x| body)?` is the same iteration as `for x in xs.iter() { body }`
        clo = strip(n0["args"][0])
        if clo.get("k") == "Closure" and len(clo.get("params") or []) == 1 and "Iterator" in (callee_generic(n0) or callee(n0) or ""):
            prm = clo["params"][0]
            return (prm.get("pat") or prm), n0["recv"], clo["body"], None
    if n0.get("k") == "Match" and n0.get("src") == "ForLoopDesugar" and len(n0["arms"]) == 1:
        it = n0["e"]
        if it.get("k") == "Call" and it["args"]:
            iter_expr = it["args"][0]
        else:
            return None
        lp = n0["arms"][0]["body"]
        if lp.get("k") != "Loop":
            return None
        stmts = lp["b"]["stmts"]
        inner = None
        if stmts and stmts[0]["k"] in ("Expr", "Semi"):
            inner = stmts[0]["e"]
        elif "expr" in lp["b"]:
            inner = lp["b"]["expr"]
        if inner is None or inner.get("k") != "Match":
            return None
        for arm in inner["arms"]:
            p = arm["pat"]
            if p.get("def") == "core::option::Option::Some":
                pat = p["fields"][0]["p"] if p.get("k") == "Struct" else p["pats"][0]
                return pat, iter_expr, arm["body"], lp.get("hid")
    return None


def show(n, ind=0, maxd=40, out=None):
    """Debug pretty-printer of a HIR expression tree."""
    lines = [] if out is None else out

    def rec(n, ind):
        if ind > maxd:
            lines.append(" " * ind + "...")
            return
        k = n.get("k")
        t = as_try(n)
        if t is not None:
            lines.append(" " * ind + "TRY?")
            rec(t, ind + 2)
            return
        fl = as_for(n)
        if fl is not None:
            lines.append(" " * ind + "FOR " + pat_str(fl[0]) + " IN")
            rec(fl[1], ind + 4)
            lines.append(" " * ind + "DO")
            rec(fl[2], ind + 2)
            return
        extra = {kk: v for kk, v in n.items() if kk in ("op", "m", "def", "inst", "name", "src", "label", "target", "hid") and not isinstance(v, (dict, list))}
        if k == "Lit":
            extra["lit"] = n["lit"].get("v")
        if k == "Field":
            extra["f"] = n["f"]
        lines.append(" " * ind + f"{k} {extra} :: {n.get('ty', '')[:60]}")
        if k in ("Block", "Loop"):
            for st in n["b"]["stmts"]:
                if st["k"] == "Let":
                    lines.append(" " * (ind + 1) + "Let " + pat_str(st["pat"]))
                    if "init" in st:
                        rec(st["init"], ind + 3)
                    if "els" in st:
                        lines.append(" " * (ind + 1) + "Else")
                        for e in block_exprs(st["els"]):
                            rec(e, ind + 3)
                else:
                    lines.append(" " * (ind + 1) + st["k"])
                    rec(st["e"], ind + 3)
            if "expr" in n["b"]:
                lines.append(" " * (ind + 1) + "=>")
                rec(n["b"]["expr"], ind + 3)
            return
        if k == "Match":
            rec(n["e"], ind + 2)
            for a in n["arms"]:
                lines.append(" " * (ind + 1) + "ARM " + pat_str(a["pat"]) + (" IF" if "guard" in a else ""))
                if "guard" in a:
                    rec(a["guard"], ind + 5)
                rec(a["body"], ind + 3)
            return
        if k == "Closure":
            lines.append(" " * (ind + 1) + "PARAMS " + ", ".join(pat_str(p) for p in n["params"]))
            rec(n["body"], ind + 2)
            return
        if k == "Struct":
            for f in n["fields"]:
                lines.append(" " * (ind + 1) + "." + f["f"])
                rec(f["e"], ind + 3)
            if "base" in n:
                rec(n["base"], ind + 3)
            return
        if k == "LetExpr":
            lines.append(" " * (ind + 1) + "PAT " + pat_str(n["pat"]))
            rec(n["init"], ind + 2)
            return
        for ch in children(n):
            rec(ch, ind + 2)

    rec(n, ind)
    if out is None:
        return "\n".join(lines)


def pat_str(p):
    k = p.get("k")
    if k == "Binding":
        return p["name"] + ("@" + pat_str(p["sub"]) if "sub" in p else "")
    if k == "Wild":
        return "_"
    if k == "Tuple":
        return "(" + ", ".join(pat_str(q) for q in p["pats"]) + ")"
    if k == "TupleStruct":
        return short(p.get("def", "?")) + "(" + ", ".join(pat_str(q) for q in p["pats"]) + ")"
    if k == "Struct":
        return short(p.get("def", "?")) + "{" + ", ".join(f["f"] + ":" + pat_str(f["p"]) for f in p["fields"]) + "}"
    if k == "Expr":
        e = p["e"]
        return repr(e["lit"].get("v")) if e["k"] == "Lit" else short(e.get("def", "?"))
    if k == "Or":
        return " | ".join(pat_str(q) for q in p["pats"])
    if k in ("Ref", "Box", "Deref"):
        return "&" + pat_str(p["p"])
    return k or "?"


def walk_lets(n):
    """all `let` statements anywhere below n (blocks are reached through walk)"""
    for x in walk(n):
        if x.get("k") in ("Block", "Loop"):
            for st in x["b"]["stmts"]:
                if st["k"] == "Let":
                    yield st


def format_args(fn_or_node):
    """[(formatter fn name e.g. 'new_lower_hex', argument expr)] for every format_args! in order of use."""
    out = []
    root = fn_or_node.body if isinstance(fn_or_node, Fn) else fn_or_node
    tuples = {}
    for st in walk_lets(root):
        if st["pat"].get("k") == "Binding" and "init" in st and strip(st["init"]).get("k") == "Tup":
            tuples[st["pat"]["lid"]] = strip(st["init"])["args"]
    for n in walk(root):
        if n.get("k") == "Match" and n.get("src") == "FormatArgs":
            tup = strip(n["e"])
            if tup.get("k") == "Tup" and n["arms"] and n["arms"][0]["pat"].get("k") == "Binding":
                tuples[n["arms"][0]["pat"]["lid"]] = tup["args"]
    for n in walk(root):
        if n.get("k") == "Call" and "fmt::rt::Argument" in (callee(n) or "") and n["args"]:
            a = strip(n["args"][0])
            name = (callee(n) or "").rsplit("::", 1)[-1]
            if a.get("k") == "Field" and a["f"].isdigit():
                base = strip(a["e"])
                el = tuples.get(base.get("lid"))
                if el is not None and int(a["f"]) < len(el):
                    out.append((name, el[int(a["f"])]))
                    continue
            out.append((name, n["args"][0]))
    return out


class Alias:
    """Run a rule that belongs to another property under this property's name: the clause it decides is a necessary
    condition of both.  Rule ids become `<prop>.via.<original id>`; keys follow."""

    def __init__(self, c, prop):
        self._c = c
        self._prop = prop

    def _rid(self, rid):
        return f"{self._prop}.via.{rid}"

    def rule(self, rid, desc):
        self._c.rule(self._rid(rid), "(shared clause) " + desc)

    def ok(self, rid, instance=None, n=1):
        self._c.ok(self._rid(rid), instance, n)

    def violation(self, rid, key, msg, where="", detail=None, instance=None):
        self._c.violation(self._rid(rid), key, msg, where, detail, instance)

    def floor(self, rid, found, required, what):
        self._c.floor(self._rid(rid), found, required, what)

    def sample(self, s):
        pass

    @property
    def rules(self):
        outer = self

        class _Proxy:
            def __getitem__(self, rid):
                return outer._c.rules[outer._rid(rid)]

            def __contains__(self, rid):
                return outer._rid(rid) in outer._c.rules

            def setdefault(self, rid, v):
                return outer._c.rules.setdefault(outer._rid(rid), v)
        return _Proxy()

    def __getattr__(self, name):
        return getattr(self._c, name)
