"""sa.ioseq — ordered I/O call skeleton of a function body (typed HIR), with control structure preserved.

Items:  ('call', name, node) | ('for', pat, iter_expr, [items]) | ('if', cond, [then], [else]) |
        ('match', scrutinee, [(pat, [items])]) | ('loop', [items]) | ('ret', node) | ('closure', node, [items])"""
from . import core


def skeleton(n, is_io, into_closures=True):
    out = []
    _sk(n, is_io, out, into_closures)
    return out


def _sk(n, is_io, out, into_closures):
    k = n.get("k")
    t = core.as_try(n)
    if t is not None:
        _sk(t, is_io, out, into_closures)
        return
    fl = core.as_for(n)
    if fl is not None:
        pat, it, body, _ = fl
        _sk(it, is_io, out, into_closures)
        inner = []
        _sk(body, is_io, inner, into_closures)
        if inner:
            out.append(("for", pat, it, inner))
        return
    if k == "DropTemps" or k == "Use" or k == "Type":
        _sk(n["e"], is_io, out, into_closures)
        return
    if k == "Block":
        for st in n["b"]["stmts"]:
            if st["k"] == "Let":
                if "init" in st:
                    _sk(st["init"], is_io, out, into_closures)
                if "els" in st:
                    inner = []
                    _sk({"k": "Block", "b": st["els"]}, is_io, inner, into_closures)
                    if inner:
                        out.append(("if", st.get("init"), [], inner))
            else:
                _sk(st["e"], is_io, out, into_closures)
        if "expr" in n["b"]:
            _sk(n["b"]["expr"], is_io, out, into_closures)
        return
    if k == "If":
        _sk_cond(n["c"], is_io, out, into_closures)
        a, b = [], []
        _sk(n["t"], is_io, a, into_closures)
        if "f" in n:
            _sk(n["f"], is_io, b, into_closures)
        if a or b:
            out.append(("if", n["c"], a, b))
        return
    if k == "Match":
        _sk(n["e"], is_io, out, into_closures)
        arms = []
        any_ = False
        for arm in n["arms"]:
            inner = []
            if "guard" in arm:
                _sk(arm["guard"], is_io, inner, into_closures)
            _sk(arm["body"], is_io, inner, into_closures)
            arms.append((arm["pat"], inner))
            any_ = any_ or bool(inner)
        if any_:
            out.append(("match", n["e"], arms))
        return
    if k == "Loop":
        inner = []
        _sk({"k": "Block", "b": n["b"]}, is_io, inner, into_closures)
        if inner:
            out.append(("loop", inner))
        return
    if k == "Closure":
        if into_closures:
            inner = []
            _sk(n["body"], is_io, inner, into_closures)
            if inner:
                out.append(("closure", n, inner))
        return
    if k == "Ret":
        if "e" in n:
            _sk(n["e"], is_io, out, into_closures)
        out.append(("ret", n))
        return
    if k in ("MethodCall", "Call"):
        for a in core.call_args(n):
            _sk(a, is_io, out, into_closures)
        if k == "Call" and n["f"].get("k") != "Path":
            _sk(n["f"], is_io, out, into_closures)
        name = is_io(n)
        if name:
            out.append(("call", name, n))
        return
    for ch in core.children(n):
        _sk(ch, is_io, out, into_closures)


def _sk_cond(n, is_io, out, into_closures):
    _sk(n, is_io, out, into_closures)


def flat_calls(items):
    for it in items:
        if it[0] == "call":
            yield it
        elif it[0] == "for":
            yield from flat_calls(it[3])
        elif it[0] == "if":
            yield from flat_calls(it[2])
            yield from flat_calls(it[3])
        elif it[0] == "match":
            for _, inner in it[2]:
                yield from flat_calls(inner)
        elif it[0] in ("loop",):
            yield from flat_calls(it[1])
        elif it[0] == "closure":
            yield from flat_calls(it[2])


def drop_rets(items):
    return [i for i in items if i[0] != "ret"]


def render(items, ind=0):
    lines = []
    for it in items:
        if it[0] == "call":
            n = it[2]
            args = n["args"]
            lines.append(" " * ind + f"{it[1]}({', '.join(core.fingerprint(a, 4) for a in args)})")
        elif it[0] == "for":
            lines.append(" " * ind + f"for {core.pat_str(it[1])} in {core.fingerprint(it[2], 4)}:")
            lines += render(it[3], ind + 2)
        elif it[0] == "if":
            lines.append(" " * ind + f"if {core.fingerprint(it[1], 4) if it[1] else '?'}:")
            lines += render(it[2], ind + 2)
            if it[3]:
                lines.append(" " * ind + "else:")
                lines += render(it[3], ind + 2)
        elif it[0] == "match":
            lines.append(" " * ind + f"match {core.fingerprint(it[1], 4)}:")
            for pat, inner in it[2]:
                lines.append(" " * (ind + 1) + core.pat_str(pat) + " =>")
                lines += render(inner, ind + 3)
        elif it[0] == "loop":
            lines.append(" " * ind + "loop:")
            lines += render(it[1], ind + 2)
        elif it[0] == "closure":
            lines.append(" " * ind + "closure:")
            lines += render(it[2], ind + 2)
        elif it[0] == "ret":
            lines.append(" " * ind + "return")
    return lines
