"""sa.algebra — exact abstract domains for the scalar codecs.

(i)  GF(2)-affine bit vectors: every bit of a value is  c XOR x_i1 XOR x_i2 ...  over the input bits.
     Exact for shifts/rotates by constants, xor, and/or with constants, int casts, byte (de)composition,
     float<->bits reinterpretation, and negation of a value supported on bit 0.
(ii) Z-linear forms for loop-carried recurrences (delta coding).
(iii) Integer polynomials for index maps (interleaving).

All evaluation is on typed HIR; nothing of /repo is executed.  Any construct outside the domain raises
NotAffine, which callers report as `cannot-establish` (fail closed).
"""
import re

from . import core


class NotAffine(Exception):
    pass


INT_TYPES = {"u8": (8, False), "i8": (8, True), "u16": (16, False), "i16": (16, True), "u32": (32, False), "i32": (32, True),
             "u64": (64, False), "i64": (64, True), "u128": (128, False), "i128": (128, True), "usize": (64, False), "isize": (64, True),
             "f32": (32, False), "f64": (64, False), "bool": (1, False)}


class Bits:
    """value = list of bits, LSB first; each bit = (const 0/1, frozenset of input-bit ids)."""
    __slots__ = ("bits", "signed", "kind")

    def __init__(self, bits, signed=False, kind="int"):
        self.bits = list(bits)
        self.signed = signed
        self.kind = kind    # int | float | bytes_be | bytes_le (bytes: bits laid out so that bits[0:8] is byte 0)

    @property
    def width(self):
        return len(self.bits)

    @staticmethod
    def input(name, width, signed=False, kind="int"):
        return Bits([(0, frozenset([(name, i)])) for i in range(width)], signed, kind)

    @staticmethod
    def const(v, width, signed=False):
        v &= (1 << width) - 1
        return Bits([((v >> i) & 1, frozenset()) for i in range(width)], signed)

    def is_const(self):
        return all(not s for _, s in self.bits)

    def const_value(self):
        v = sum(c << i for i, (c, _) in enumerate(self.bits))
        if self.signed and v >> (self.width - 1):
            v -= 1 << self.width
        return v

    def same(self, other):
        return self.width == other.width and all(a == b for a, b in zip(self.bits, other.bits))

    def describe(self):
        out = []
        for i, (c, s) in enumerate(self.bits):
            terms = [f"{n}[{j}]" for n, j in sorted(s)]
            if c:
                terms.append("1")
            out.append(f"b{i}=" + ("^".join(terms) if terms else "0"))
        return " ".join(out)


def bxor(a, b):
    return (a[0] ^ b[0], a[1] ^ b[1])


ZERO = (0, frozenset())
ONE = (1, frozenset())


def ty_info(ty):
    ty = ty.lstrip("&").replace("mut ", "").strip()
    if ty in INT_TYPES:
        return INT_TYPES[ty]
    m = re.match(r"\[u8; (\d+)\]", ty)
    if m:
        return (8 * int(m.group(1)), False)
    raise NotAffine(f"type `{ty}` outside the bit-vector domain")


class BitEval:
    """Evaluate a pure HIR expression over Bits, with an environment for locals; inlines workspace fns."""

    def __init__(self, prog, depth=4, input_pred=None, input_val=None):
        self.prog = prog
        self.depth = depth
        self.input_pred = input_pred      # node -> bool: this sub-expression *is* the codec's input
        self.input_val = input_val

    def ev(self, n, env):
        n = core.strip(n) if n.get("k") in ("DropTemps", "Use", "Type") else n
        if self.input_pred is not None and self.input_pred(n):
            return self.input_val
        k = n.get("k")
        if k in ("DropTemps", "Use", "Type"):
            return self.ev(n["e"], env)
        if k == "AddrOf":
            return self.ev(n["e"], env)
        if k == "Block":
            env = dict(env)
            for st in n["b"]["stmts"]:
                if st["k"] == "Let" and st["pat"]["k"] == "Binding" and "init" in st:
                    env[st["pat"]["lid"]] = self.ev(st["init"], env)
                elif st["k"] == "Let" and st["pat"]["k"] == "Struct" and "init" in st:
                    v = self.ev(st["init"], env)
                    if not isinstance(v, dict):
                        raise NotAffine("struct pattern on a non-struct value")
                    for f in st["pat"]["fields"]:
                        if f["p"].get("k") != "Binding" or f["f"] not in v:
                            raise NotAffine("nested struct pattern")
                        env[f["p"]["lid"]] = v[f["f"]]
                else:
                    raise NotAffine("statement outside the pure fragment")
            if "expr" not in n["b"]:
                raise NotAffine("block without value")
            return self.ev(n["b"]["expr"], env)
        if k == "Path":
            if n.get("res") == "local":
                if n["lid"] in env:
                    return env[n["lid"]]
                raise NotAffine(f"unbound local {n['name']}")
            raise NotAffine(f"path {n.get('def')}")
        if k == "Struct":
            return {f["f"]: self.ev(f["e"], env) for f in n["fields"]}
        if k == "Field":
            v = self.ev(n["e"], env)
            if isinstance(v, dict) and n["f"] in v:
                return v[n["f"]]
            raise NotAffine(f"field {n['f']} of a non-struct value")
        if k == "Lit":
            v = n["lit"].get("v")
            if n["lit"]["lk"] in ("int", "bool"):
                w, s = ty_info(n["ty"])
                return Bits.const(int(v), w, s)
            raise NotAffine("non-integer literal")
        if k == "Unary":
            op = n["op"]
            a = self.ev(n["e"], env)
            if op == "*":
                return a
            if op == "!":
                return Bits([(c ^ 1, s) for c, s in a.bits], a.signed)
            if op == "-":
                # exact only when the operand is supported on bit 0:  -(b) = b replicated into every bit
                if all(bit == ZERO for bit in a.bits[1:]):
                    return Bits([a.bits[0]] * a.width, a.signed)
                raise NotAffine("negation of a value not confined to bit 0")
            raise NotAffine(f"unary {op}")
        if k == "Binary":
            op = n["op"]
            a = self.ev(n["l"], env)
            b = self.ev(n["r"], env)
            if op == "^":
                self._same_width(a, b, op)
                return Bits([bxor(x, y) for x, y in zip(a.bits, b.bits)], a.signed)
            if op in ("&", "|"):
                self._same_width(a, b, op)
                if b.is_const() or a.is_const():
                    cst, var = (b, a) if b.is_const() else (a, b)
                    out = []
                    for (cc, _), bit in zip(cst.bits, var.bits):
                        if op == "&":
                            out.append(bit if cc else ZERO)
                        else:
                            out.append(ONE if cc else bit)
                    return Bits(out, a.signed)
                # disjoint supports: a|b == a^b
                if op == "|" and all(x == ZERO or y == ZERO for x, y in zip(a.bits, b.bits)):
                    return Bits([bxor(x, y) for x, y in zip(a.bits, b.bits)], a.signed)
                raise NotAffine(f"{op} of two non-constant values")
            if op in ("<<", ">>"):
                if not b.is_const():
                    raise NotAffine("shift by a non-constant")
                kk = b.const_value()
                w = a.width
                if kk < 0 or kk >= w:
                    raise NotAffine("shift amount out of range (would panic / wrap)")
                if op == "<<":
                    return Bits([ZERO] * kk + a.bits[: w - kk], a.signed)
                fill = a.bits[w - 1] if a.signed else ZERO
                return Bits(a.bits[kk:] + [fill] * kk, a.signed)
            if op in ("==", "!="):
                # exact when the two sides differ in at most one non-constant bit position:
                # (a == b)  <=>  that bit of a^b is 0, provided every other bit of a^b is the constant 0
                self._same_width(a, b, op)
                d = [bxor(x, y) for x, y in zip(a.bits, b.bits)]
                if any(bit == ONE for bit in d):
                    return Bits.const(0 if op == "==" else 1, 1)
                var = [bit for bit in d if bit != ZERO]
                if not var:
                    return Bits.const(1 if op == "==" else 0, 1)
                if len(var) == 1:
                    ne = var[0]
                    return Bits([ne if op == "!=" else bxor(ne, ONE)], False)
                raise NotAffine("comparison of values differing in several non-constant bits")
            if op == "+":
                self._same_width(a, b, op)
                if all(x == ZERO or y == ZERO for x, y in zip(a.bits, b.bits)):
                    return Bits([bxor(x, y) for x, y in zip(a.bits, b.bits)], a.signed)
                raise NotAffine("addition with overlapping supports")
            raise NotAffine(f"binary {op}")
        if k == "If":
            cnd = self.ev(n["c"], env)
            if cnd.width != 1:
                raise NotAffine("non-boolean condition")
            if "f" not in n:
                raise NotAffine("if without else in value position")
            t = self.ev(n["t"], env)
            f = self.ev(n["f"], env)
            self._same_width(t, f, "if")
            cb = cnd.bits[0]
            if cb == ONE:
                return t
            if cb == ZERO:
                return f
            out = []
            for x, y in zip(t.bits, f.bits):
                d = bxor(x, y)
                if d == ZERO:
                    out.append(x)
                elif d == ONE:
                    out.append(bxor(y, cb))      # c ? y^1 : y  =  y ^ c
                else:
                    raise NotAffine("branches differ by a non-constant bit under a non-constant condition")
            return Bits(out, t.signed, t.kind)
        if k == "Cast":
            a = self.ev(n["e"], env)
            w, s = ty_info(n["ty"])
            if w <= a.width:
                return Bits(a.bits[:w], s)
            fill = a.bits[-1] if a.signed else ZERO
            return Bits(a.bits + [fill] * (w - a.width), s)
        if k == "Call" and n["f"].get("def") in ("core::result::Result::Ok", "core::option::Option::Some") and len(n["args"]) == 1:
            return self.ev(n["args"][0], env)
        if k in ("MethodCall", "Call"):
            cal = core.callee(n) or ""
            args = core.call_args(n)
            m = re.search(r"(?:core::num::<impl (\w+)>|core::f(?:32|64)::<impl (f\d+)>|core::num::f(?:32|64)::<impl (f\d+)>)::(\w+)$", cal)
            name = m.group(4) if m else cal.rsplit("::", 1)[-1]
            if m or cal.startswith("core::"):
                vals = [self.ev(a, env) for a in args]
                return self.std(name, vals, n)
            fn = self.prog.fns.get(cal)
            if fn is not None and fn.body is not None and self.depth > 0:
                sub = BitEval(self.prog, self.depth - 1)
                vals = [self.ev(a, env) for a in args]
                e2 = {}
                for p, v in zip(fn.params, vals):
                    if p["k"] != "Binding":
                        raise NotAffine("non-binding parameter")
                    e2[p["lid"]] = v
                return sub.ev(fn.body, e2)
            raise NotAffine(f"call to {cal}")
        raise NotAffine(f"expression kind {k}")

    def _same_width(self, a, b, op):
        if a.width != b.width:
            raise NotAffine(f"width mismatch in {op}")

    def std(self, name, vals, n):
        a = vals[0]
        if name in ("to_bits", "from_bits"):
            w, s = ty_info(n["ty"])
            return Bits(a.bits, s, "float" if name == "from_bits" else "int")
        if name in ("rotate_left", "rotate_right"):
            if not vals[1].is_const():
                raise NotAffine("rotate by non-constant")
            kk = vals[1].const_value() % a.width
            if name == "rotate_right":
                kk = (a.width - kk) % a.width
            # rotate_left by kk: bit i moves to i+kk
            return Bits(a.bits[a.width - kk:] + a.bits[: a.width - kk], a.signed)
        if name in ("to_be_bytes", "to_le_bytes", "to_ne_bytes"):
            nb = a.width // 8
            bytes_ = [a.bits[8 * i: 8 * i + 8] for i in range(nb)]   # little-endian order
            if name == "to_be_bytes":
                bytes_ = bytes_[::-1]
            return Bits([b for by in bytes_ for b in by], False, "bytes")
        if name in ("from_be_bytes", "from_le_bytes", "from_ne_bytes"):
            w, s = ty_info(n["ty"])
            nb = a.width // 8
            bytes_ = [a.bits[8 * i: 8 * i + 8] for i in range(nb)]
            if name == "from_be_bytes":
                bytes_ = bytes_[::-1]
            return Bits([b for by in bytes_ for b in by], s)
        if name == "swap_bytes":
            nb = a.width // 8
            bytes_ = [a.bits[8 * i: 8 * i + 8] for i in range(nb)][::-1]
            return Bits([b for by in bytes_ for b in by], a.signed)
        if name in ("wrapping_shl", "wrapping_shr"):
            raise NotAffine(name)
        raise NotAffine(f"std function {name}")


def compose_identity(prog, enc, enc_param, dec, dec_param, width, signed, in_kind="int"):
    """decode(encode(x)) == x for all x of the given width?  enc/dec are (expr node, lid of the input local); dec_param
    may instead be a predicate on HIR nodes that recognises the decoder's input sub-expression (e.g. `read[index]`)."""
    x = Bits.input("x", width, signed, in_kind)
    be = BitEval(prog)
    y = be.ev(enc, {enc_param: x})
    if callable(dec_param):
        z = BitEval(prog, input_pred=dec_param, input_val=y).ev(dec, {})
    else:
        z = be.ev(dec, {dec_param: y})
    return z.same(x), y, z


# ---------------------------------------------------------------------------------- polynomials / linear forms

class Poly:
    """Integer polynomial over named symbols: {monomial(tuple of sorted names): coef}."""

    def __init__(self, d=None):
        self.d = {k: v for k, v in (d or {}).items() if v != 0}

    @staticmethod
    def sym(name):
        return Poly({(name,): 1})

    @staticmethod
    def const(c):
        return Poly({(): c})

    def __add__(self, o):
        d = dict(self.d)
        for k, v in o.d.items():
            d[k] = d.get(k, 0) + v
        return Poly(d)

    def __sub__(self, o):
        d = dict(self.d)
        for k, v in o.d.items():
            d[k] = d.get(k, 0) - v
        return Poly(d)

    def __mul__(self, o):
        d = {}
        for k1, v1 in self.d.items():
            for k2, v2 in o.d.items():
                k = tuple(sorted(k1 + k2))
                d[k] = d.get(k, 0) + v1 * v2
        return Poly(d)

    def __eq__(self, o):
        return self.d == o.d

    def __repr__(self):
        if not self.d:
            return "0"
        return " + ".join((f"{v}*" if v != 1 or not k else "") + "*".join(k) if k else str(v) for k, v in sorted(self.d.items()))


def poly_eval(n, env, symfn=None):
    """Evaluate an integer HIR expression to a Poly. env: lid -> Poly. symfn(node) may name opaque leaves."""
    n = core.strip(n)
    k = n.get("k")
    if k == "Path" and n.get("res") == "local":
        if n["lid"] in env:
            return env[n["lid"]]
        raise NotAffine(f"unbound local {n['name']}")
    if k == "Lit" and n["lit"]["lk"] == "int":
        return Poly.const(int(n["lit"]["v"]))
    if k == "Binary" and n["op"] in ("+", "-", "*"):
        a = poly_eval(n["l"], env, symfn)
        b = poly_eval(n["r"], env, symfn)
        return a + b if n["op"] == "+" else a - b if n["op"] == "-" else a * b
    if k == "Cast":
        return poly_eval(n["e"], env, symfn)
    if k == "MethodCall" and n["m"] in ("wrapping_add", "wrapping_sub", "wrapping_mul") and len(n["args"]) == 1:
        # ring arithmetic modulo 2^n: polynomial identities carry over
        a = poly_eval(n["recv"], env, symfn)
        b = poly_eval(n["args"][0], env, symfn)
        return a + b if n["m"] == "wrapping_add" else a - b if n["m"] == "wrapping_sub" else a * b
    if k == "Unary" and n.get("op") == "*":
        return poly_eval(n["e"], env, symfn)
    if k == "Block" and not n["b"]["stmts"] and "expr" in n["b"]:
        return poly_eval(n["b"]["expr"], env, symfn)
    if symfn is not None:
        s = symfn(n)
        if s is not None:
            return s
    raise NotAffine(f"expression {k} outside the polynomial domain")


# ---------------------------------------------------------------------------- loop-nest index maps

class LoopNest:
    """Symbolic walk of a function body made of lets and (nested) `for` loops whose innermost statement is a single
    element move `dst[..] = src[..]` (through iterator element bindings, derefs or explicit indexing).

    Each loop introduces one index symbol with a half-open range:
        for (i, e) in X.iter()/iter_mut().enumerate()   i in [0, |X|), e = X[i]
        for e in X.iter()/iter_mut()                     hidden i in [0, |X|), e = X[i]
        for i in a..b                                    i in [a, b)
    Places evaluate to (root local lid, [index Poly per dimension]).  The result is independent of the loop order,
    of which side uses iterators or indexing, and of subexpressions hoisted into lets."""

    def __init__(self, fn, symfn=None):
        self.fn = fn
        self.symfn = symfn
        self.env = {}        # lid -> Poly
        self.elems = {}      # lid -> (root lid, [Poly])
        self.ranges = {}     # symbol -> (lo Poly, hi Poly | ("len", root lid, depth))
        self.moves = []      # (dst place, src place, node)
        self.n = 0

    def fresh(self):
        self.n += 1
        return f"k{self.n}"

    def place(self, e):
        e = core.strip(e)
        k = e.get("k")
        if k == "Path" and e.get("res") == "local":
            if e["lid"] in self.elems:
                return self.elems[e["lid"]]
            return (e["lid"], [])
        if k == "Unary" and e.get("op") in ("*", "deref"):
            return self.place(e["e"])
        if k in ("AddrOf",):
            return self.place(e["e"])
        if k == "Index":
            root, idx = self.place(e["l"])
            return (root, idx + [poly_eval(e["r"], self.env, self.symfn)])
        if k == "MethodCall" and e["m"] in ("iter", "iter_mut", "into_iter", "as_slice", "as_mut_slice", "as_ref", "as_mut", "deref", "deref_mut") and not e["args"]:
            return self.place(e["recv"])
        raise NotAffine(f"place expression {k} outside the loop-nest model")

    def dim_of(self, it, pat):
        """one iteration dimension: binds the closure / loop pattern, returns (symbol, length Poly | ("len", root, depth))"""
        it = core.strip(it)
        sname = self.fresh()
        if it.get("k") == "Struct" and it.get("def") == "core::ops::range::Range":
            flds = {f["f"]: f["e"] for f in it["fields"]}
            if pat.get("k") != "Binding":
                raise NotAffine("range pattern")
            lo, hi = poly_eval(flds["start"], self.env, self.symfn), poly_eval(flds["end"], self.env, self.symfn)
            if lo != Poly.const(0):
                raise NotAffine("range not starting at 0 in a collected chain")
            self.env[pat["lid"]] = Poly.sym(sname)
            self.ranges[sname] = (lo, hi)
            return sname, hi
        enum = False
        if it.get("k") == "MethodCall" and it["m"] == "enumerate":
            enum, it = True, core.strip(it["recv"])
        root, idx = self.place(it)
        self.ranges[sname] = (Poly.const(0), ("len", root, len(idx)))
        elem = (root, idx + [Poly.sym(sname)])
        q = pat
        if enum:
            if not (q.get("k") == "Tuple" and len(q["pats"]) == 2 and all(x.get("k") == "Binding" for x in q["pats"])):
                raise NotAffine("enumerate pattern")
            self.env[q["pats"][0]["lid"]] = Poly.sym(sname)
            self.elems[q["pats"][1]["lid"]] = elem
        else:
            while q.get("k") in ("Ref", "Deref") and isinstance(q.get("p"), dict):
                q = q["p"]
            if q.get("k") != "Binding":
                raise NotAffine("element pattern")
            self.elems[q["lid"]] = elem
        return sname, ("len", root, len(idx))

    def collected(self, lid, init):
        """`let buf = <nested flat_map / map chain>.collect()`: element k of the result, k = the lexicographic rank of
        the nested indices, is the place the innermost closure yields — recorded as the move buf[k] = that place"""
        e = core.strip(init)
        if not (e.get("k") == "MethodCall" and e["m"] == "collect"):
            return

        def seq(x):
            x = core.strip(x)
            while x.get("k") == "Block" and not x["b"]["stmts"] and "expr" in x["b"]:
                x = core.strip(x["b"]["expr"])
            if x.get("k") == "MethodCall" and x["m"] in ("map", "flat_map") and x["args"] and core.strip(x["args"][0]).get("k") == "Closure":
                clo = core.strip(x["args"][0])
                prm = clo["params"][0]
                d = self.dim_of(x["recv"], prm.get("pat") or prm)
                if x["m"] == "map":
                    body = core.strip(clo["body"])
                    while body.get("k") == "Block" and not body["b"]["stmts"] and "expr" in body["b"]:
                        body = core.strip(body["b"]["expr"])
                    return [d], self.place(body)
                dims, el = seq(clo["body"])
                return [d] + dims, el
            if x.get("k") == "MethodCall" and x["m"] in ("copied", "cloned") and not x["args"]:
                return seq(x["recv"])
            raise NotAffine("collected chain outside the model")
        try:
            dims, el = seq(e["recv"])
        except NotAffine:
            return
        self.dims_of = getattr(self, "dims_of", {})
        self.dims_of[lid] = dims
        self.pending_collect = getattr(self, "pending_collect", [])
        self.pending_collect.append((lid, dims, el, e))

    def run(self, body):
        b = core.strip(body)
        if b.get("k") == "Block":
            for st in b["b"]["stmts"]:
                if st["k"] == "Let":
                    if st["pat"].get("k") == "Binding" and "init" in st:
                        try:
                            self.env[st["pat"]["lid"]] = poly_eval(st["init"], self.env, self.symfn)
                        except NotAffine:
                            # not an index quantity: the buffer itself — possibly built as one iterator chain,
                            # `(0..N).flat_map(|j| values.iter().map(move |v| v[j])).collect()`
                            self.collected(st["pat"]["lid"], st["init"])
                else:
                    self.run(st["e"])
            if "expr" in b["b"]:
                self.run(b["b"]["expr"])
            return
        fl = core.as_for(b)
        if fl is not None:
            pat, it, inner = fl[0], core.strip(fl[1]), fl[2]
            if it.get("k") == "Struct" and it.get("def") == "core::ops::range::Range":
                flds = {f["f"]: f["e"] for f in it["fields"]}
                if pat.get("k") != "Binding":
                    raise NotAffine("range loop pattern")
                s = self.fresh()
                self.env[pat["lid"]] = Poly.sym(s)
                self.ranges[s] = (poly_eval(flds["start"], self.env, self.symfn), poly_eval(flds["end"], self.env, self.symfn))
            else:
                enum = False
                if it.get("k") == "MethodCall" and it["m"] == "enumerate":
                    enum = True
                    it = core.strip(it["recv"])
                root, idx = self.place(it)
                s = self.fresh()
                self.ranges[s] = (Poly.const(0), ("len", root, len(idx)))
                elem = (root, idx + [Poly.sym(s)])
                if enum:
                    if not (pat.get("k") == "Tuple" and len(pat["pats"]) == 2 and all(q.get("k") == "Binding" for q in pat["pats"])):
                        raise NotAffine("enumerate loop pattern")
                    self.env[pat["pats"][0]["lid"]] = Poly.sym(s)
                    self.elems[pat["pats"][1]["lid"]] = elem
                else:
                    q = pat
                    while q.get("k") in ("Ref", "Deref") and isinstance(q.get("p"), dict):
                        q = q["p"]
                    if q.get("k") != "Binding":
                        raise NotAffine("loop pattern")
                    self.elems[q["lid"]] = elem
            self.run(inner)
            return
        if b.get("k") == "Assign":
            rhs = core.strip(b["r"])
            if rhs.get("k") == "Call" and (core.callee(rhs) or "").endswith("array::from_fn") and rhs["args"] and core.strip(rhs["args"][0]).get("k") == "Closure":
                # `*slot = std::array::from_fn(|j| EXPR)` is `for j in 0..N { slot[j] = EXPR }`
                clo = core.strip(rhs["args"][0])
                prm = clo["params"][0]
                pat = prm.get("pat") or prm
                if pat.get("k") != "Binding":
                    raise NotAffine("from_fn closure pattern")
                sname = self.fresh()
                self.env[pat["lid"]] = Poly.sym(sname)
                root, idx = self.place(b["l"])
                self.ranges[sname] = (Poly.const(0), ("len", root, len(idx)))
                body = core.strip(clo["body"])
                while body.get("k") == "Block" and not body["b"]["stmts"] and "expr" in body["b"]:
                    body = core.strip(body["b"]["expr"])
                self.moves.append(((root, idx + [Poly.sym(sname)]), self.place(body), b))
                return
            self.moves.append((self.place(b["l"]), self.place(b["r"]), b))
            return
        if b.get("k") in ("Match", "MethodCall", "Call", "Ret", "Path", "Lit", "Tup") or core.as_try(b) is not None:
            return      # I/O calls and the result expression are not part of the index map
        raise NotAffine(f"statement {b.get('k')} outside the loop-nest model")
