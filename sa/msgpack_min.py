"""A minimal pure-Python MessagePack decoder (enough for database.msgpack)."""
import struct


class Ext:
    def __init__(self, code, data):
        self.code = code
        self.data = data


def unpack(buf):
    v, pos = _dec(buf, 0)
    if pos != len(buf):
        raise ValueError(f"trailing bytes after msgpack value ({len(buf) - pos})")
    return v


def _dec(b, p):
    t = b[p]
    p += 1
    if t <= 0x7F:
        return t, p
    if t >= 0xE0:
        return t - 0x100, p
    if 0x80 <= t <= 0x8F:
        return _map(b, p, t & 0x0F)
    if 0x90 <= t <= 0x9F:
        return _arr(b, p, t & 0x0F)
    if 0xA0 <= t <= 0xBF:
        n = t & 0x1F
        return b[p:p + n].decode("utf-8", "surrogateescape"), p + n
    if t == 0xC0:
        return None, p
    if t == 0xC2:
        return False, p
    if t == 0xC3:
        return True, p
    if t in (0xC4, 0xC5, 0xC6):
        w = {0xC4: 1, 0xC5: 2, 0xC6: 4}[t]
        n = int.from_bytes(b[p:p + w], "big")
        p += w
        return bytes(b[p:p + n]), p + n
    if t in (0xC7, 0xC8, 0xC9):
        w = {0xC7: 1, 0xC8: 2, 0xC9: 4}[t]
        n = int.from_bytes(b[p:p + w], "big")
        p += w
        code = b[p]
        return Ext(code, bytes(b[p + 1:p + 1 + n])), p + 1 + n
    if t == 0xCA:
        return struct.unpack(">f", b[p:p + 4])[0], p + 4
    if t == 0xCB:
        return struct.unpack(">d", b[p:p + 8])[0], p + 8
    if t in (0xCC, 0xCD, 0xCE, 0xCF):
        w = {0xCC: 1, 0xCD: 2, 0xCE: 4, 0xCF: 8}[t]
        return int.from_bytes(b[p:p + w], "big"), p + w
    if t in (0xD0, 0xD1, 0xD2, 0xD3):
        w = {0xD0: 1, 0xD1: 2, 0xD2: 4, 0xD3: 8}[t]
        return int.from_bytes(b[p:p + w], "big", signed=True), p + w
    if t in (0xD4, 0xD5, 0xD6, 0xD7, 0xD8):
        n = {0xD4: 1, 0xD5: 2, 0xD6: 4, 0xD7: 8, 0xD8: 16}[t]
        return Ext(b[p], bytes(b[p + 1:p + 1 + n])), p + 1 + n
    if t in (0xD9, 0xDA, 0xDB):
        w = {0xD9: 1, 0xDA: 2, 0xDB: 4}[t]
        n = int.from_bytes(b[p:p + w], "big")
        p += w
        return b[p:p + n].decode("utf-8", "surrogateescape"), p + n
    if t in (0xDC, 0xDD):
        w = 2 if t == 0xDC else 4
        return _arr(b, p + w, int.from_bytes(b[p:p + w], "big"))
    if t in (0xDE, 0xDF):
        w = 2 if t == 0xDE else 4
        return _map(b, p + w, int.from_bytes(b[p:p + w], "big"))
    raise ValueError(f"unknown msgpack type byte {t:#x}")


def _arr(b, p, n):
    out = []
    for _ in range(n):
        v, p = _dec(b, p)
        out.append(v)
    return out, p


class Pairs(list):
    """A msgpack map kept as an ordered list of (key, value) pairs (keys may repeat)."""

    def get(self, k, default=None):
        for kk, v in self:
            if kk == k:
                return v
        return default

    def key_list(self):
        return [k for k, _ in self]


def _map(b, p, n):
    out = Pairs()
    for _ in range(n):
        k, p = _dec(b, p)
        v, p = _dec(b, p)
        out.append((k, v))
    return out, p
