"""sa.tables — literal match tables read from typed HIR (for TABLE rules)."""
from . import core


def pat_alts(p):
    """Flatten a pattern into its alternatives; each alternative is a hashable key."""
    k = p.get("k")
    if k == "Or":
        out = []
        for q in p["pats"]:
            out.extend(pat_alts(q))
        return out
    if k == "Wild":
        return [("_",)]
    if k == "Binding":
        if "sub" in p:
            return pat_alts(p["sub"])
        return [("_",)]
    if k == "Expr":
        e = p["e"]
        if e["k"] == "Lit":
            return [("lit", e["lit"].get("v"))]
        return [("v", e.get("def"))]
    if k == "Ref" or k == "Box" or k == "Deref":
        return pat_alts(p["p"])
    if k == "TupleStruct":
        subs = [pat_alts(q) for q in p["pats"]]
        return [("ctor", p.get("def"), tuple(tuple(s) for s in subs))]
    if k == "Struct":
        subs = tuple((f["f"], tuple(pat_alts(f["p"]))) for f in p["fields"])
        return [("struct", p.get("def"), subs)]
    if k == "Tuple":
        subs = [pat_alts(q) for q in p["pats"]]
        # cartesian product kept small: only expand when each component has one alternative
        return [("tuple", tuple(tuple(s) for s in subs))]
    if k == "Range":
        lo = p.get("lo", {}).get("lit", {}).get("v") if p.get("lo") else None
        hi = p.get("hi", {}).get("lit", {}).get("v") if p.get("hi") else None
        return [("range", lo, hi, p.get("end"))]
    return [("?", k)]


def unwrap_ok_some(e):
    """Strip Ok(..)/Some(..)/DropTemps/blocks-with-only-expr around a value."""
    while True:
        e = core.strip(e)
        if e.get("k") == "Call" and e["f"].get("k") == "Path" and e["f"].get("def") in (
                "core::option::Option::Some", "core::result::Result::Ok") and len(e["args"]) == 1:
            e = e["args"][0]
            continue
        return e


def result_key(e):
    e0 = core.strip(e)
    if e0.get("k") == "Ret":
        inner = e0.get("e")
        if inner is None:
            return ("ret", None)
        i = core.strip(inner)
        if i.get("k") == "Path":
            return ("ret", i.get("def"))
        if i.get("k") == "Call" and i["f"].get("k") == "Path":
            return ("ret", i["f"].get("def"))
        return ("ret", "?")
    e1 = unwrap_ok_some(e)
    if e1.get("k") == "Path":
        if e1.get("res") == "local":
            return ("local", e1["name"])
        return ("v", e1.get("def"))
    if e1.get("k") == "Lit":
        return ("lit", e1["lit"].get("v"))
    v = core.lit_value(e1)
    if v is not None:
        return ("lit", v)
    return ("expr", e1)


def top_match(fn, scrutinee=None):
    """The first `match` (source-level) in the body of fn, optionally on the named local."""
    for n in core.walk_fn(fn):
        if n.get("k") == "Match" and n.get("src") == "Normal":
            if scrutinee is None:
                return n
            s = core.strip(n["e"])
            if s.get("k") == "Path" and s.get("name") == scrutinee:
                return n
    raise core.AnchorMissing(f"no match expression found in {fn.path}")


def table(match):
    """[(pattern alternative key, arm)] in source order."""
    out = []
    for arm in match["arms"]:
        for alt in pat_alts(arm["pat"]):
            out.append((alt, arm))
    return out


def simple_map(fn, scrutinee=None):
    """{pattern key: result key} of a literal table function; wildcard under key ('_',)."""
    m = top_match(fn, scrutinee)
    d = {}
    dups = []
    for alt, arm in table(m):
        rk = result_key(arm["body"])
        if alt in d:
            dups.append(alt)
        else:
            d[alt] = rk
    return d, dups, m


def variant_name(path):
    return path.rsplit("::", 1)[-1] if path else path


def enum_discriminants(adt):
    return {v["name"]: v.get("discr") for v in adt["variants"]}
