"""sa.shape — wire-shape duality: match the writer's event tree against the reader's, substitute written terms for
reads, and check that the value the reader delivers is the identity on the value the writer was given
(every leaf field exactly once, in its own position), modulo a frozen table of named normalisations."""
import re

from . import core
from .sym import (C, OK, SOME, NONE, ERR, UNIT, Interp, Exit, Unsupported, fld, payload, var, is_var, term_str, contains_unk, norm_dom)


class Mismatch(Exception):
    def __init__(self, msg, loc=""):
        super().__init__(msg)
        self.loc = loc


# ---------------------------------------------------------------------------------- event utilities

def strip_sinks(evs):
    """split events into wire events and sinks (keeping rep/alt structure for both)"""
    return evs


def has_wire(evs):
    for e in evs:
        if e[0] in ("W", "R"):
            return True
        if e[0] == "rep" and has_wire(e[2]):
            return True
        if e[0] == "alt" and any(has_wire(b[1]) for b in e[1]):
            return True
    return False


def render(evs, ind=0):
    out = []
    for e in evs:
        if e[0] == "W":
            out.append(" " * ind + f"W {e[1]} {term_str(e[2], 5)}")
        elif e[0] == "R":
            out.append(" " * ind + f"R {e[1]} -> #{e[2]}")
        elif e[0] == "rep":
            out.append(" " * ind + f"rep {term_str(norm_dom(e[1]), 3)}:")
            out += render(e[2], ind + 2)
        elif e[0] == "alt":
            out.append(" " * ind + "alt:")
            for b in e[1]:
                out.append(" " * (ind + 1) + f"[{term_str(b[0], 3) if b[0] is not True else 'else'}]" + (f" ^{b[2]}" if b[2] else ""))
                out += render(b[1], ind + 3)
        elif e[0] == "sink":
            out.append(" " * ind + f"SINK {e[1]} {term_str(e[2], 6)}")
    return out


# ---------------------------------------------------------------------------------- substitution / normalisation

class Normaliser:
    def __init__(self, prog, codec_pairs=None):
        self.prog = prog
        self.pairs = codec_pairs or []    # [(name, fn(term) -> term|None)]

    def norm(self, t, subst, assume=()):
        r = self._norm(t, subst, assume)
        return r

    def _norm(self, t, subst, assume):
        if not isinstance(t, tuple) or not t:
            return t
        k = t[0]
        if k == "phi":
            alts = []
            for c, x in t[1]:
                cn = self._norm(c, subst, assume) if c is not True else True
                truth = decide(cn, assume)
                if truth is False:
                    continue
                xn = self._norm(x, subst, assume)
                if truth is True:
                    return xn
                alts.append((cn, xn))
            if len(alts) == 1:
                return alts[0][1]
            if alts and all(a[1] == alts[0][1] for a in alts):
                return alts[0][1]
            return ("phi", tuple(alts))
        if k == "rd":
            if t[1] in subst:
                return self._norm(subst[t[1]], subst, assume)
            return t
        if k == "rdelem":
            if t[1] in subst:
                col = self._norm(subst[t[1]], subst, assume)
                # element of the written column at the same index
                if col[0] == "vec" and len(col[1]) == 1 and col[1][0][0] == "seg":
                    return col[1][0][2]
                if col[0] == "stream":
                    return col[2]
                return ("elem", col)
            return t
        if k in ("c", "in", "dom", "closure", "unk"):
            return t
        if k == "elem":
            inner = self._norm(t[1], subst, assume)
            if inner[0] == "vec" and inner[1] and all(s_[0] == "seg" for s_ in inner[1]):
                segs = inner[1]
                if len(segs) == 1:
                    return segs[0][2]
                alts = []
                for s_ in segs:
                    cn = s_[3]
                    truth = decide(cn, assume) if cn is not None else True
                    if truth is False:
                        continue
                    if truth is True:
                        return s_[2]
                    alts.append((cn, s_[2]))
                if len(alts) == 1:
                    return alts[0][1]
                if alts:
                    return ("phi", tuple(alts))
            return ("elem", inner)
        if k == "fld":
            return self.rewrite(fld(self._norm(t[1], subst, assume), t[2]))
        if k == "payload":
            return self.rewrite(payload(self._norm(t[1], subst, assume), t[2], t[3]))
        if k == "st":
            return self.rewrite(("st", t[1], tuple((f, self._norm(v, subst, assume)) for f, v in t[2])))
        if k == "vec":
            segs = []
            for s in t[1]:
                if s[0] == "one":
                    segs.append(("one", self._norm(s[1], subst, assume)))
                elif s[0] == "seg":
                    cn = self._norm(s[3], subst, assume) if s[3] is not None else None
                    if cn is not None:
                        truth = decide(cn, assume)
                        if truth is False:
                            continue
                        if truth is True:
                            cn = None
                    segs.append(("seg", self.norm_d(s[1], subst, assume), self._norm(s[2], subst, assume), cn))
                elif s[0] == "fill":
                    segs.append(("fill", self._norm(s[1], subst, assume), self._norm(s[2], subst, assume)))
                else:
                    segs.append(tuple(self._norm(x, subst, assume) if isinstance(x, tuple) else x for x in s))
            return ("vec", tuple(segs))
        out = tuple(self._norm(x, subst, assume) if isinstance(x, tuple) else x for x in t)
        return self.rewrite(out)

    def norm_d(self, d, subst, assume=()):
        return norm_dom(tuple(self._norm(x, subst, assume) if isinstance(x, tuple) else x for x in d)) if isinstance(d, tuple) else d

    def rewrite(self, t):
        changed = True
        guard = 0
        while changed and guard < 20:
            guard += 1
            changed = False
            for name, f in self.pairs:
                r = f(t)
                if r is not None and r != t:
                    t = r
                    changed = True
        return t


def default_pairs():
    P = []

    def bytes_pair(t):
        # from_xx_bytes(to_xx_bytes(x)) -> x      (same endianness, same width)
        if t[0] == "app" and len(t[2]) == 1:
            m = re.search(r"<impl (\w+)>::from_(le|be|ne)_bytes$", t[1])
            inner = t[2][0]
            if m and inner[0] == "app" and len(inner[2]) == 1:
                m2 = re.search(r"<impl (\w+)>::to_(le|be|ne)_bytes$", inner[1])
                if m2 and m2.group(2) == m.group(2) and width(m.group(1)) == width(m2.group(1)):
                    x = inner[2][0]
                    if m.group(1) == m2.group(1):
                        return x
                    return ("cast", m.group(1), x)
        return None
    P.append(("le/be bytes", bytes_pair))

    def cast_pair(t):
        # (x as wider) as narrower where narrower is x's own width: identity on x's range; len(x) as u32 as usize -> len
        if t[0] == "cast" and t[2][0] == "cast":
            return ("cast", t[1], t[2][2])
        if t[0] == "cast" and t[2][0] in ("len", "c"):
            return t[2]
        if t[0] == "try":
            inner = t[1]
            if is_var(inner, OK) or is_var(inner, SOME):
                return inner[2][0]
        return None
    P.append(("casts", cast_pair))

    def bits_pair(t):
        if t[0] == "app" and len(t[2]) >= 1:
            inner = t[2][0]
            if t[1].endswith("::from_bits") and inner[0] == "app" and inner[1].endswith("::to_bits"):
                return inner[2][0]
            if t[1].endswith("::rotate_right") and inner[0] == "app" and inner[1].endswith("::rotate_left") and t[2][1] == inner[2][1]:
                return inner[2][0]
            if t[1].endswith("::rotate_left") and inner[0] == "app" and inner[1].endswith("::rotate_right") and t[2][1] == inner[2][1]:
                return inner[2][0]
        return None
    P.append(("bits/rotate", bits_pair))

    def index_pair(t):
        # [x][0] -> x ; index of a literal vector by a constant
        if t[0] == "app" and t[1] == "index" and len(t[2]) == 2:
            v, i = t[2]
            if v[0] == "app" and re.search(r"<impl [iu]8>::to_(le|be|ne)_bytes$", v[1]) and i == C(0):
                return v[2][0]
            if v[0] == "vec" and i[0] == "c" and isinstance(i[1], int) and all(s[0] == "one" for s in v[1]) and i[1] < len(v[1]):
                return v[1][i[1]][1]
        return None
    P.append(("index", index_pair))

    def bool_pair(t):
        # (b as u8) != 0  ->  b      ;   try(Ok(x)) -> x
        if t[0] == "op" and t[1] == "!=" and t[3] == C(0) and t[2][0] == "cast" and t[2][1] == "u8":
            return t[2][2]
        if t[0] == "some_payload":
            inner = t[1]
            if is_var(inner, SOME) or is_var(inner, OK):
                return inner[2][0]
        if t[0] == "optmap":
            if is_var(t[1], SOME) or is_var(t[1], OK):
                return var(t[1][1], t[2])
            if is_var(t[1], NONE):
                return t[1]
        if t[0] == "unwrap_or":
            if is_var(t[1], SOME) or is_var(t[1], OK):
                return t[1][2][0]
        return None
    P.append(("bool/option", bool_pair))

    def utf8_pair(t):
        if t[0] == "app" and t[1] in ("alloc::string::String::from_utf8", "core::str::converts::from_utf8") and len(t[2]) == 1:
            return var(OK, t[2][0])
        return None
    P.append(("utf8", utf8_pair))
    return P


def width(ty):
    m = re.search(r"(\d+)$", ty)
    return int(m.group(1)) if m else None


# ---------------------------------------------------------------------------------- matcher

from .sym import split_phis as sym_split_phis, find_phi as sym_find_phi  # noqa: E402


def _has_reader_unknown(t):
    if isinstance(t, tuple) and t:
        if t[0] in ("rd", "rdelem"):
            return True
        return any(_has_reader_unknown(x) for x in t)
    if isinstance(t, list):
        return any(_has_reader_unknown(x) for x in t)
    return False


def _bare_limit(c):
    """`<writer-side term> relop <constant>` (possibly negated)"""
    while isinstance(c, tuple) and c and c[0] == "not":
        c = c[1]
    if not (isinstance(c, tuple) and len(c) == 4 and c[0] == "op" and c[1] in ("<", ">", "<=", ">=")):
        return False
    a, b = c[2], c[3]
    for x, y in ((a, b), (b, a)):
        if isinstance(y, tuple) and y and y[0] == "c" and isinstance(y[1], (int, float)) and not isinstance(y[1], bool):
            if isinstance(x, tuple) and x and x[0] != "c" and not _has_reader_unknown(x):
                return True
    return False


class Matcher:
    """Walk the writer's and the reader's event lists in lockstep."""

    def __init__(self, normaliser, prim_compat=None, dom_equal=None):
        self.N = normaliser
        self.prim_compat = prim_compat or (lambda w, r: w == r)
        self.dom_equal = dom_equal or (lambda a, b: a == b)
        self.trace = []
        self.failures = []      # [(conds, message, loc)] writer branches that no reader path accepts
        self.collect = True
        self.writer_assume = frozenset()
        self.writer_returns_are_errors = False
        self.optional_read_prims = set()    # reads that may find nothing (e.g. XML character data before a child element)

    def size_equal(self, a, b):
        if isinstance(a, tuple) and isinstance(b, tuple) and a and b and a[0] == "len" and b[0] == "len":
            return self.dom_equal(norm_dom(a[1]), norm_dom(b[1]))
        return False

    def match(self, enc, dec, subst):
        """returns list of outcomes: each (subst, sinks[list of (name, term, conds)]) — one per consistent (writer path, reader path) pair.
        Raises Mismatch if some writer path has no consistent reader path."""
        return self._m(list(enc), list(dec), dict(subst), [], [])

    def _m(self, enc, dec, subst, sinks, conds):
        # drop leading non-wire writer events
        while True:
            if dec and dec[0][0] == "sink":
                sinks = sinks + [(dec[0][1], dec[0][2], tuple(conds), dec[0][3])]
                dec = dec[1:]
                continue
            if dec and dec[0][0] == "rep" and not has_wire(dec[0][2]):
                # a reader loop without reads: only sinks inside
                inner = self._collect_sinks(dec[0][2], conds)
                sinks = sinks + [(n, t, c, l, dec[0][1]) for n, t, c, l in inner]
                dec = dec[1:]
                continue
            if enc and enc[0][0] == "rep" and not has_wire(enc[0][2]):
                enc = enc[1:]
                continue
            if enc and enc[0][0] == "sink":
                enc = enc[1:]
                continue
            break
        if not enc and not dec:
            return [(subst, sinks, tuple(conds))]
        # writer alt: every branch must be accepted
        if enc and enc[0][0] == "alt":
            outs = []
            for cond, evs, ex, exval in enc[0][1]:
                if ex in ("err",) or (ex == "return" and (is_err_value(exval) or self.writer_returns_are_errors)):
                    continue     # the writer refuses this value: not a path the reader has to accept
                if cond is not True and decide(self.N.norm(cond, subst, self.writer_assume | assumptions(conds)), self.writer_assume | assumptions(conds)) is False:
                    continue
                if ex == "return":
                    rest = evs
                else:
                    rest = evs + enc[1:]
                try:
                    outs += self._m(rest, dec, subst, sinks, conds + [("W", cond)])
                except Mismatch as ex_:
                    if not self.collect:
                        raise
                    self.failures.append((tuple(conds + [("W", cond)]), str(ex_), ex_.loc))
            return outs
        if dec and dec[0][0] == "P":
            # a look at the next item without consuming it: described from what the writer emits next (nothing left =
            # the caller's closing tag)
            binder = getattr(self, "peek_binder", None)
            if binder is None:
                raise Mismatch("the reader peeks at the next item; this matcher has no model for that", dec[0][2])
            head = enc[0] if enc else None
            if head is not None and head[0] == "rep":
                raise Mismatch("the reader peeks where the writer loops", dec[0][2])
            s2 = dict(subst)
            s2[dec[0][1]] = binder(head)
            return self._m(enc, dec[1:], s2, sinks, conds)
        if dec and dec[0][0] == "alt":
            branches = dec[0][1]
            ok = []
            errs = []
            for cond, evs, ex, exval in branches:
                assume = assumptions(conds)
                c = self.N.norm(cond, subst, assume) if cond is not True else True
                truth = decide(c, assume)
                if truth is False:
                    continue
                if ex in ("err",) or (ex == "return" and is_err_value(exval)):
                    if truth is True:
                        raise Mismatch(f"the reader rejects what the writer produced: condition {term_str(c, 4)} holds on a reader error path", dec[0][2])
                    # an error branch the reader takes on a bare comparison between something the writer wrote (every
                    # read value in it has been identified with a writer term) and a constant: nothing on the writer's
                    # side keeps the value out of that range, so the reader refuses data the writer produces
                    if truth is None and _bare_limit(c):
                        raise Mismatch(f"the reader refuses values the writer can produce: it fails when {term_str(c, 4)}, and the writer puts no such bound on what it writes", dec[0][2])
                    continue
                rest = evs if ex == "return" else evs + dec[1:]
                if ex == "return" and getattr(self, "return_sink", False):
                    # the value of an early `return` is the reader's result on this path
                    rest = rest + [("sink", "__return__", exval, dec[0][2])]
                try:
                    r = self._m(enc, rest, subst, sinks, conds + [("R", c)])
                    ok.append((truth, r))
                    if truth is True:
                        break
                except Mismatch as e:
                    errs.append(e)
                    if truth is True:
                        raise
            if not ok:
                if errs:
                    raise errs[0]
                raise Mismatch("no reader branch is consistent with the written data", dec[0][2])
            definite = [r for t, r in ok if t is True]
            if definite:
                return definite[0]
            if len(ok) > 1:
                # ambiguous: accept only if all consistent branches deliver the same sinks
                flat = [repr(sorted(repr(s[:2]) for o in r for s in o[1])) for _, r in ok]
                if len(set(flat)) > 1:
                    # prefer the branch whose grammar consumed the writer's events exactly — all did; report
                    raise Mismatch("ambiguous pairing of writer and reader branches with different results", dec[0][2])
            return ok[0][1]
        if not enc and dec[0][0] == "R" and dec[0][1] in self.optional_read_prims:
            s2 = dict(subst)
            s2[dec[0][2]] = C("")
            return self._m(enc, dec[1:], s2, sinks, conds)
        if not enc and dec[0][0] == "R" and len(dec[0]) > 4 and dec[0][4] == ("rest",):
            s2 = dict(subst)
            s2[dec[0][2]] = ("vec", ())
            return self._m(enc, dec[1:], s2, sinks, conds)
        if not enc:
            raise Mismatch(f"the reader expects more data than the writer produced: {render(dec[:1])}", ev_loc(dec[0]))
        if not dec:
            raise Mismatch(f"the writer produces data the reader never consumes: {render(enc[:1])}", ev_loc(enc[0]))
        e, d = enc[0], dec[0]
        if d[0] == "R" and d[1] in self.optional_read_prims and not (e[0] == "W" and self.prim_compat(e[1], d[1])):
            s2 = dict(subst)
            s2[d[2]] = C("")
            return self._m(enc, dec[1:], s2, sinks, conds)
        if e[0] == "W" and getattr(self, "split_written_phis", False) and sym_find_phi(e[2]) is not None:
            # the written value was chosen by an earlier, event-free decision of the writer (`let s = match x {..}`):
            # follow each choice as a path of its own, so that the reader's decisions can be read against it
            outs = []
            for cs, tt in sym_split_phis(e[2], ()):
                cs2 = [c_ for c_ in cs if c_ is not True]
                if any(decide(self.N.norm(c_, subst, assumptions(conds)), assumptions(conds)) is False for c_ in cs2):
                    continue
                e2 = (e[0], e[1], tt) + tuple(e[3:])
                outs += self._m([e2] + enc[1:], dec, subst, sinks, conds + [("W", c_) for c_ in cs2])
            return outs
        if e[0] == "W" and d[0] == "R":
            if not self.prim_compat(e[1], d[1]):
                raise Mismatch(f"wire primitive mismatch: writer emits {e[1]} ({term_str(e[2], 4)}), reader consumes {d[1]}", d[3])
            s2 = dict(subst)
            s2[d[2]] = e[2]
            if len(e) > 4 and len(d) > 4 and e[4] is not None and d[4] is not None:
                assume = assumptions(conds) | self.writer_assume
                wn = strip_casts(self.N.norm(e[4], subst, assume))
                rn = strip_casts(self.N.norm(d[4], subst, assume))
                if wn != rn and not self.size_equal(wn, rn) and not contains_unk(wn) and not contains_unk(rn) and rn != ("rest",):
                    raise Mismatch(f"the reader takes {term_str(rn, 5)} bytes where the writer emitted {term_str(wn, 5)} bytes ({term_str(e[2], 4)}): the length prefix does not describe what follows", d[3])
            return self._m(enc[1:], dec[1:], s2, sinks, conds)
        if e[0] == "rep" and d[0] == "rep":
            de = norm_dom(self.N.norm_d(e[1], subst))
            dd = norm_dom(self.N.norm_d(d[1], subst))
            if not self.dom_equal(de, dd):
                raise Mismatch(f"loop domains differ: writer repeats over {term_str(de, 4)}, reader over {term_str(dd, 4)}", d[3])
            inner = self._m(e[2], d[2], subst, [], conds)
            outs = []
            for s_in, sinks_in, conds_in in inner:
                sk = sinks + [(x[0], x[1], x[2], x[3], d[1]) if len(x) == 4 else x for x in sinks_in]
                # reads bound inside the loop body stay visible (per-iteration symbolic), and so do the branch decisions
                outs += self._m(enc[1:], dec[1:], s_in, sk, list(conds_in))
            return outs
        if e[0] == "W" and d[0] == "rep":
            col = self.N.norm(e[2], subst, assumptions(conds) | self.writer_assume)
            if e[1] == "bytes" and col[0] == "vec" and col[1] and all(s_[0] == "seg" for s_ in col[1]) and len({norm_dom(s_[1]) for s_ in col[1]}) == 1:
                dom_ = col[1][0][1]
                el_ = col[1][0][2] if len(col[1]) == 1 else ("elem", col)
                expanded = ("rep", dom_, [("W", "bytes", ("vec", (("one", el_),)), e[3], C(1))], e[3])
                return self._m([expanded] + enc[1:], dec, subst, sinks, conds)
            raise Mismatch(f"the writer emits a single {e[1]} where the reader loops", d[3])
        if e[0] == "rep" and d[0] == "R":
            raise Mismatch(f"the writer loops where the reader consumes a single {d[1]}", d[3])
        raise Mismatch(f"event kinds differ: writer {e[0]}, reader {d[0]}", ev_loc(d))

    def _collect_sinks(self, evs, conds):
        out = []
        for e in evs:
            if e[0] == "sink":
                out.append((e[1], e[2], tuple(conds), e[3]))
            elif e[0] == "rep":
                out += self._collect_sinks(e[2], conds)
            elif e[0] == "alt":
                for cond, evs2, ex, exval in e[1]:
                    out += self._collect_sinks(evs2, conds + [("R", cond)])
        return out


def strip_casts(t):
    while isinstance(t, tuple) and t and t[0] in ("cast", "try"):
        t = t[2] if t[0] == "cast" else t[1]
    return t


def assumptions(conds):
    out = set()
    for side, c in conds:
        if c is True or not isinstance(c, tuple):
            continue
        out.add(c)
        if c[0] == "and":
            out |= set(c[1])
    return frozenset(out)


def ev_loc(e):
    return e[3] if e[0] in ("W", "R", "rep", "sink") and len(e) > 3 else (e[2] if e[0] == "alt" else "")


def is_err_value(v):
    if v is None:
        return False
    if is_var(v, ERR) or is_var(v, NONE):
        return True
    if isinstance(v, tuple) and v and v[0] in ("app",) and len(v) > 1:
        return False
    return False


def decide(c, assume=()):
    """True / False / None for a normalised condition, under a set of assumed conditions"""
    if c is True:
        return True
    if not isinstance(c, tuple):
        return None
    if c in assume:
        return True
    if ("not", c) in assume:
        return False
    if c[0] == "is":
        for a in assume:
            if isinstance(a, tuple) and a[0] == "is" and a[1] == c[1] and a[2] != c[2]:
                return False
    if c[0] == "c":
        return bool(c[1])
    if c[0] == "else":
        rs = [decide(x, assume) for x in c[1]]
        if any(r is True for r in rs):
            return False
        if all(r is False for r in rs):
            return True
        return None
    if c[0] == "not":
        r = decide(c[1], assume)
        return None if r is None else (not r)
    if c[0] == "op" and c[1] in ("==", "!="):
        a, b = c[2], c[3]
        if a[0] == "c" and b[0] == "c":
            return (a[1] == b[1]) if c[1] == "==" else (a[1] != b[1])
        if a == b:
            return c[1] == "=="
        return None
    if c[0] == "is":
        t = c[1]
        if t[0] in ("var", "varn"):
            return t[1] == c[2]
        return None
    if c[0] == "and":
        rs = [decide(x, assume) for x in c[1]]
        if any(r is False for r in rs):
            return False
        if all(r is True for r in rs):
            return True
        return None
    if c[0] == "or":
        rs = [decide(x, assume) for x in c[1]]
        if any(r is True for r in rs):
            return True
        if all(r is False for r in rs):
            return False
        return None
    return None


# ---------------------------------------------------------------------------------- identity

class Identity:
    def __init__(self, prog, allowed=None, assume=()):
        self.prog = prog
        self.allowed = allowed or []   # [(name, fn(term, base, assume) -> bool)]
        self.used = []
        self.assume = assume

    def check(self, t, base, path=""):
        """[] if t is the identity on base; else list of (field path, got) mismatches"""
        if t == base:
            return []
        if is_var(t, NONE) and (("not", ("is", base, SOME)) in self.assume or ("is", base, NONE) in self.assume):
            return []
        for name, f in self.allowed:
            if f(t, base, self.assume):
                self.used.append(name)
                return []
        if t[0] == "st":
            adt = self.prog.adts.get(t[1])
            errs = []
            have = dict(t[2])
            names = [f["name"] for f in adt["variants"][0]["fields"]] if adt else list(have)
            for nm in names:
                if nm not in have:
                    errs.append((path + "." + nm, "(missing)"))
                else:
                    errs += self.check(have[nm], fld(base, nm), path + "." + nm)
            return errs
        if t[0] == "app" and t[1] in self.prog.adts and self.prog.adts[t[1]].get("kind", "struct") in ("struct", "Struct"):
            # a tuple struct built with its constructor function: fields are positional
            errs = []
            for i, a in enumerate(t[2]):
                errs += self.check(a, fld(base, str(i)), path + f".{i}")
            return errs
        if t[0] == "var":
            if not t[2] and ("is", base, t[1]) in self.assume:
                return []
            if base[0] == "var" and base[1] == t[1]:
                errs = []
                for i, a in enumerate(t[2]):
                    errs += self.check(a, base[2][i], path)
                return errs
            for a_ in self.assume:
                if isinstance(a_, tuple) and a_[0] == "is" and a_[1] == base and a_[2] != t[1]:
                    return [(path or "(value)", f"comes back as {core.short(t[1])} although it was written as {core.short(a_[2])}")]
            if getattr(self, "strict_variants", False) and ("is", base, t[1]) not in self.assume:
                others = [a_ for a_ in self.assume if isinstance(a_, tuple) and a_[0] == "not" and isinstance(a_[1], tuple) and a_[1][0] == "is" and a_[1][1] == base]
                if not others:
                    return [(path or "(value)", f"comes back as {core.short(t[1])} on a path that does not establish which variant was written")]
            errs = []
            for i, a in enumerate(t[2]):
                errs += self.check(a, payload(base, t[1], i), path + "→" + t[1].rsplit("::", 1)[-1])
            return errs
        if t[0] == "tup":
            errs = []
            for i, a in enumerate(t[1]):
                errs += self.check(a, fld(base, str(i)), path + f".{i}")
            return errs
        if t[0] == "vec" and len(t[1]) == 1 and t[1][0][0] == "seg" and t[1][0][3] is None:
            dom, el = t[1][0][1], t[1][0][2]
            d = norm_dom(dom)
            if d == ("iter", base) or d == norm_dom(("iter", base)):
                return self.check(el, ("elem", base), path + "[]")
            return [(path, f"a collection over {term_str(d, 3)} instead of the elements of {term_str(base, 3)}")]
        if t[0] == "phi":
            errs = []
            for c, x in t[1]:
                errs += self.check(x, base, path)
            return errs
        return [(path or "(value)", term_str(t, 5))]
