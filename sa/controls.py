"""sa.controls — thorough tier: the check's own positive and negative controls.

A static check that is green says "no rule instance is violated"; how much that is worth depends on whether the
rules would have noticed a violation.  In the thorough tier each property's check therefore re-runs itself on
*control trees*: scratch copies of /repo's current working tree (outside /repo and /verif, removed afterwards together
with their build output) with one stored patch applied —

  breaking controls   selftest/variants/<rule>-*.diff whose rule belongs to the property, and seeded/<prop>-k/patch.diff
                      (each confirmed to break the property while compiling and passing the test suite): must FIRE
  benign controls     selftest/variants/benign-*.diff and selftest/benign_agents*/*.diff touching files the property's
                      rules read (behaviour-preserving refactorings): must stay SILENT

The outcome is recorded in the evidence file and printed as CONTROL lines.  It never changes the verdict on /repo
itself: a control that does not apply to the current tree (because the tree was edited) is reported as skipped, and a
control that misbehaves is reported as such — the exit status of the check depends only on /repo's tree."""
import glob
import json
import os
import re
import shutil
import subprocess
import tempfile
from concurrent.futures import ThreadPoolExecutor

from . import core

VERIF = core.VERIF


def patch_files(path):
    out = set()
    with open(path, errors="replace") as fh:
        for line in fh:
            m = re.match(r"^\+\+\+ b/(\S+)", line)
            if m:
                out.add(m.group(1))
    return out


def property_files(prop):
    files = set()
    try:
        with open(os.path.join(VERIF, "properties.jsonl")) as fh:
            for line in fh:
                d = json.loads(line)
                if d.get("id") == prop:
                    files |= set((d.get("anchors") or {}).get("files") or [])
    except OSError:
        pass
    return files


def select(prop, max_benign=10):
    ctl = []
    for f in sorted(glob.glob(os.path.join(VERIF, "selftest", "variants", "*.diff"))):
        name = os.path.basename(f)[:-5]
        if name.startswith("benign-"):
            continue
        rule = name.split("-")[0]
        if rule.split(".")[0] == prop:
            ctl.append(("breaking", "variant:" + name, f))
    for f in sorted(glob.glob(os.path.join(VERIF, "seeded", prop + "-*", "patch.diff"))):
        ctl.append(("breaking", "seed:" + os.path.basename(os.path.dirname(f)), f))
    pf = property_files(prop)
    benign = []
    for f in sorted(glob.glob(os.path.join(VERIF, "selftest", "variants", "benign-*.diff"))) + sorted(glob.glob(os.path.join(VERIF, "selftest", "benign_agents*", "*.diff"))):
        touched = patch_files(f)
        if any(t in pf or any(t.startswith(p.rstrip("/") + "/") for p in pf if p.endswith("/")) for t in touched):
            benign.append(("benign", "refactor:" + os.path.basename(os.path.dirname(f)).replace("benign_agents", "r") + "/" + os.path.basename(f)[:-5], f))
    # spread the benign sample over the list deterministically
    if len(benign) > max_benign:
        step = len(benign) / max_benign
        benign = [benign[int(i * step)] for i in range(max_benign)]
    return ctl + benign


def run_one(prop, kind, name, patch, slot, root):
    tree = os.path.join(root, f"tree{slot}")
    out = os.path.join(root, f"out{slot}")
    cache = os.path.join(root, f"cache{slot % 4}")     # a few build caches, reused within the run
    shutil.rmtree(tree, ignore_errors=True)
    shutil.rmtree(out, ignore_errors=True)
    try:
        r = subprocess.run(["rsync", "-a", "--exclude", "/target", "--exclude", "/.git", core.REPO.rstrip("/") + "/", tree + "/"], stdout=subprocess.PIPE, stderr=subprocess.STDOUT, text=True)
        if r.returncode != 0:
            return {"name": name, "kind": kind, "verdict": "error", "detail": "copy failed: " + r.stdout[-200:]}
        r = subprocess.run(["git", "apply", "--whitespace=nowarn", patch], cwd=tree, stdout=subprocess.PIPE, stderr=subprocess.STDOUT, text=True)
        if r.returncode != 0:
            return {"name": name, "kind": kind, "verdict": "skipped", "detail": "patch does not apply to the current tree"}
        env = dict(os.environ, VERIF_REPO=tree, VERIF_CACHE=cache, VERIF_OUT=out, VERIF_TIER="quick")
        r = subprocess.run([os.path.join(VERIF, "check"), prop, "--tier", "quick"], cwd=VERIF, env=env, stdout=subprocess.PIPE, stderr=subprocess.STDOUT, text=True)
        keys = [m.group(1) for m in re.finditer(r"key=(\S.*)$", r.stdout, re.M)]
        fired = bool(re.search(r"^VIOLATION property=" + prop, r.stdout, re.M))
        if any(k.startswith("analyse|") for k in keys):
            return {"name": name, "kind": kind, "verdict": "skipped", "detail": "control tree does not build"}
        if kind == "breaking":
            return {"name": name, "kind": kind, "verdict": "fired" if fired else "MISSED", "keys": keys[:4]}
        return {"name": name, "kind": kind, "verdict": "silent" if not fired else "FALSE-ALARM", "keys": keys[:4]}
    except Exception as e:      # a control never affects the verdict
        return {"name": name, "kind": kind, "verdict": "error", "detail": f"{type(e).__name__}: {e}"}
    finally:
        shutil.rmtree(tree, ignore_errors=True)
        shutil.rmtree(out, ignore_errors=True)


def run(prop, workers=None):
    ctl = select(prop)
    if not ctl:
        return {"controls": 0, "results": []}
    workers = workers or int(os.environ.get("VERIF_CONTROL_WORKERS", "6"))
    root = tempfile.mkdtemp(prefix=f"verif-ctl-{prop}-")
    try:
        slots = list(range(len(ctl)))
        with ThreadPoolExecutor(workers) as ex:
            # slot index modulo workers keeps at most `workers` trees alive
            results = list(ex.map(lambda a: run_one(prop, a[1][0], a[1][1], a[1][2], a[0] % workers, root) if False else run_one(prop, a[1][0], a[1][1], a[1][2], a[0], root), zip(slots, ctl)))
    finally:
        shutil.rmtree(root, ignore_errors=True)
    summ = {"controls": len(results),
            "breaking_fired": sum(1 for r in results if r["verdict"] == "fired"),
            "breaking_total": sum(1 for r in results if r["kind"] == "breaking" and r["verdict"] in ("fired", "MISSED")),
            "benign_silent": sum(1 for r in results if r["verdict"] == "silent"),
            "benign_total": sum(1 for r in results if r["kind"] == "benign" and r["verdict"] in ("silent", "FALSE-ALARM")),
            "skipped": [r["name"] for r in results if r["verdict"] == "skipped"],
            "errors": [r["name"] + ": " + r.get("detail", "") for r in results if r["verdict"] == "error"],
            "missed": [r["name"] for r in results if r["verdict"] == "MISSED"],
            "false_alarms": [r["name"] for r in results if r["verdict"] == "FALSE-ALARM"],
            "results": results}
    return summ
