"""sa.flow — whole-workspace call graph (MIR call/drop terminators + closure aggregates, CHA for trait
methods), reachability with witness paths, panic-capable construct enumeration (typed HIR + MIR asserts)."""
import re
from collections import deque

from . import core


class CallGraph:
    def __init__(self, prog):
        self.prog = prog
        self.edges = {}       # path -> set(path)
        self.ext = {}         # path -> set(external callee path)
        self.trait_impls = {}  # (trait path, method name) -> [impl method path]
        self.drop_impls = {}  # self type string -> drop fn path
        for imp in prog.impls:
            tr = imp.get("trait")
            if not tr:
                continue
            for it in imp["items"]:
                if it["kind"].startswith("Fn") or "Fn" in it["kind"]:
                    self.trait_impls.setdefault((tr, it["name"]), []).append(it["path"])
            if tr == "core::ops::drop::Drop":
                for it in imp["items"]:
                    if it["name"] == "drop":
                        self.drop_impls[imp["self"]] = it["path"]
        for path, fn in prog.fns.items():
            self.edges[path] = set()
            self.ext[path] = set()
            if not fn.mir:
                continue
            for bb in fn.mir["blocks"]:
                t = bb["term"]
                if t["k"] == "call":
                    tgt = t.get("inst") or t.get("fn")
                    if tgt:
                        self._add(path, tgt, t.get("fn"))
                    # function items passed as arguments (e.g. `.map(Some)`, `.and_then(BrickColor::from_number)`)
                    for a in t.get("args", []):
                        if a.get("k") == "const" and a.get("fn"):
                            self._add(path, a["fn"], a["fn"])
                elif t["k"] == "drop":
                    dty = t.get("dty", "")
                    for st, dp in self.drop_impls.items():
                        if st in dty:
                            self.edges[path].add(dp)
                for s in bb["stmts"]:
                    rk = s.get("rk", "")
                    if rk.startswith("agg:closure:"):
                        self.edges[path].add(rk[len("agg:closure:"):])
                    for op in s.get("ops", []):
                        if op.get("k") == "const" and op.get("fn"):
                            self._add(path, op["fn"], op["fn"])
        self._std_dispatch()

    def _std_dispatch(self):
        """calls that reach a workspace trait impl through a generic std function: `s.parse::<T>()` runs
        `<T as FromStr>::from_str`, `x.to_string()` runs `<X as Display>::fmt` (read off the typed HIR, where the
        instantiation is visible)"""
        prog = self.prog
        by_self = {}
        for imp in prog.impls:
            if imp.get("trait") in ("core::str::traits::FromStr", "core::fmt::Display"):
                for it in imp["items"]:
                    if it["name"] in ("from_str", "fmt"):
                        by_self[(imp["trait"], imp["self"])] = it["path"]

        def peel(ty):
            ty = ty or ""
            while ty.startswith("&"):
                ty = ty[5:] if ty.startswith("&mut ") else ty[1:]
            return ty
        for path, fn in prog.fns.items():
            if fn.body is None:
                continue
            for n in core.walk_fn(fn, into_closures=False):
                if n.get("k") != "MethodCall":
                    continue
                cal = core.callee_generic(n) or ""
                if cal.endswith("core::str::<impl str>::parse"):
                    m = re.match(r"^core::result::Result<(.+), [^,]+>$", n.get("ty") or "")
                    tgt = by_self.get(("core::str::traits::FromStr", m.group(1))) if m else None
                    if tgt and tgt in prog.fns:
                        self.edges[path].add(tgt)
                elif cal.endswith("alloc::string::ToString::to_string"):
                    tgt = by_self.get(("core::fmt::Display", peel(core.strip(n["recv"]).get("ty"))))
                    if tgt and tgt in prog.fns:
                        self.edges[path].add(tgt)

    def _add(self, src, tgt, generic):
        prog = self.prog
        if tgt in prog.fns and prog.fns[tgt].mir:
            self.edges[src].add(tgt)
        # trait method (declared in a workspace trait or implemented by workspace types): CHA
        g = generic or tgt
        m = re.match(r"^(.*)::(\w+)$", g)
        if m and m.group(1) in prog.traits:
            for ip in self.trait_impls.get((m.group(1), m.group(2)), []):
                if tgt == g:   # unresolved: every impl is a possible target
                    self.edges[src].add(ip)
            if tgt in prog.fns:
                self.edges[src].add(tgt)
        elif tgt not in prog.fns:
            self.ext[src].add(tgt)
            # external trait method implemented in the workspace (e.g. Read for a local type, Deserialize impls): CHA when unresolved
            if m and tgt == g:
                for ip in self.trait_impls.get((m.group(1), m.group(2)), []):
                    self.edges[src].add(ip)

    def reach(self, roots):
        """{reachable fn path: predecessor path or None} by BFS."""
        pred = {}
        dq = deque()
        for r in roots:
            if r in self.edges and r not in pred:
                pred[r] = None
                dq.append(r)
        while dq:
            x = dq.popleft()
            for y in sorted(self.edges.get(x, ())):
                if y not in pred:
                    pred[y] = x
                    dq.append(y)
        return pred

    def path_to(self, pred, x):
        out = []
        while x is not None:
            out.append(x)
            x = pred.get(x)
        return list(reversed(out))

    def sccs(self, nodes):
        """Tarjan SCCs restricted to `nodes`; returns list of components with a cycle."""
        index = {}
        low = {}
        stack = []
        on = set()
        out = []
        counter = [0]
        import sys
        sys.setrecursionlimit(10000)

        def strong(v):
            index[v] = low[v] = counter[0]
            counter[0] += 1
            stack.append(v)
            on.add(v)
            for w in self.edges.get(v, ()):
                if w not in nodes:
                    continue
                if w not in index:
                    strong(w)
                    low[v] = min(low[v], low[w])
                elif w in on:
                    low[v] = min(low[v], index[w])
            if low[v] == index[v]:
                comp = []
                while True:
                    w = stack.pop()
                    on.discard(w)
                    comp.append(w)
                    if w == v:
                        break
                if len(comp) > 1 or v in self.edges.get(v, ()):
                    out.append(sorted(comp))
        for v in sorted(nodes):
            if v not in index:
                strong(v)
        return out


PANIC_CALLEES = [
    (r"^core::option::Option::<T>::(unwrap|expect)$", "unwrap"),
    (r"^core::result::Result::<T, E>::(unwrap|expect|unwrap_err|expect_err)$", "unwrap"),
    (r"^core::panicking::(panic|panic_fmt|panic_display|panic_explicit|unreachable_display|panic_nounwind|assert_failed|assert_matches_failed)$", "panic"),
    (r"^std::rt::(begin_panic|panic_fmt)$", "panic"),
    (r"^core::slice::<impl \[T\]>::(copy_from_slice|clone_from_slice|split_at|split_at_mut|swap|chunks|chunks_exact|windows|rotate_left|rotate_right|copy_within)$", "slice-op"),
    (r"^alloc::vec::Vec::<T, A>::(remove|insert|swap_remove|drain|split_off|truncate_front)$", "vec-op"),
    (r"^alloc::collections::vec_deque::VecDeque::<T, A>::(swap|split_off)$", "vec-op"),
    (r"^alloc::string::String::(remove|insert|insert_str|split_off|drain|replace_range)$", "string-op"),
    (r"^core::cell::RefCell::<T>::(borrow|borrow_mut)$", "refcell"),
    (r"^core::iter::traits::iterator::Iterator::step_by$", "iter-op"),
    (r"^core::char::methods::<impl char>::from_digit$", "char-op"),
    (r"^core::str::<impl str>::(split_at|split_at_mut)$", "str-op"),
    (r"^core::time::Duration::(from_secs_f32|from_secs_f64)$", "time-op"),
    (r"^std::time::SystemTime::duration_since$", None),
]
PANIC_RX = [(re.compile(r), k) for r, k in PANIC_CALLEES if k]


def panic_kind_of_callee(cal):
    if not cal:
        return None
    for rx, k in PANIC_RX:
        if rx.search(cal):
            return k
    return None


PANIC_MACROS = ("panic", "unreachable", "unimplemented", "todo", "assert", "assert_eq", "assert_ne", "debug_assert", "debug_assert_eq", "debug_assert_ne")


def macro_of(x):
    """the user-visible panic macro in an expansion chain 'macro:a>macro:b', if any"""
    for seg in (x or "").split(">"):
        if seg.startswith("macro:"):
            name = seg[6:].rsplit("::", 1)[-1]
            if name in PANIC_MACROS:
                return name
    return None


def panic_sites(fn):
    """Panic-capable constructs in the typed HIR of fn (closures included, as they belong to the fn's body).
    Returns [{kind, fp (line-free fingerprint), node, macro}]"""
    out = []
    if fn.body is None:
        return out
    for n in core.walk_fn(fn):
        k = n.get("k")
        x = n.get("x") or ""
        if k in ("MethodCall", "Call"):
            cal = core.callee_generic(n)
            pk = panic_kind_of_callee(cal)
            if pk:
                macro = macro_of(x)
                if pk == "panic":
                    kind = f"macro:{macro}" if macro else "panic-call"
                    fp = macro or core.short(cal)
                    if macro in ("assert", "assert_eq", "assert_ne", "debug_assert", "debug_assert_eq", "debug_assert_ne"):
                        pass
                else:
                    kind = pk
                    args = core.call_args(n)
                    fp = core.short(cal).split("::")[-1] + "∘" + (core.fingerprint(args[0], 5) if args else "")
                out.append({"kind": kind, "fp": fp, "node": n, "macro": macro})
        elif k == "Index":
            base_ty = core.strip(n["l"]).get("ty", "")
            out.append({"kind": "index", "fp": core.fingerprint(n, 5), "node": n, "macro": None, "base_ty": n["l"].get("aty") or n["l"].get("ty", "")})
        elif k == "Binary" and n["op"] in ("/", "%") and re.match(r"^[iu](8|16|32|64|128|size)$", n.get("ty", "")):
            if core.lit_value(n["r"]) in (None, 0):
                out.append({"kind": "div", "fp": core.fingerprint(n, 5), "node": n, "macro": None})
    # de-duplicate macro expansions (one panic! expands to one call, assert_eq! to several)
    seen = set()
    res = []
    for s in out:
        key = (s["kind"], s["fp"], s["node"].get("sp"))
        if s["macro"] and key in seen:
            continue
        seen.add(key)
        res.append(s)
    return res
