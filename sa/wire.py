"""sa.wire — I/O primitives for the symbolic interpreter: std::io::{Write::write_all, Read::read_exact,
Read::take(..).read_to_end}, and helpers to run an encoder / decoder region."""
import re

from . import core
from .sym import subst_const_type, C, OK, SOME, NONE, ERR, UNIT, Interp, Exit, Unsupported, fld, var, is_var, term_str, norm_dom


def size_of_type(ty):
    ty = (ty or "").lstrip("&").replace("mut ", "").strip()
    m = re.match(r"^\[u8; (\d+)\]$", ty)
    if m:
        return C(int(m.group(1)))
    return None


def term_size(t):
    """byte size of a bytes-valued term when it is evident from the term itself"""
    if t[0] == "app" and len(t[2]) == 1:
        m = re.search(r"<impl ([iuf])(\d+)>::to_(le|be|ne)_bytes$", t[1])
        if m:
            return C(int(m.group(2)) // 8)
    if t[0] == "vec" and all(s[0] == "one" for s in t[1]) and t[1]:
        return C(len(t[1]))
    if t[0] == "vec" and len(t[1]) == 1 and t[1][0][0] == "fill":
        return t[1][0][1]
    if t[0] == "c" and isinstance(t[1], tuple):
        return C(len(t[1]))
    return None


def p_write_all(I, n, path, arg_nodes, env):
    # args: writer, bytes
    I.eval(arg_nodes[0], env)
    t = I.eval(arg_nodes[1], env)
    cenv = I.const_env[-1] if getattr(I, "const_env", None) else {}
    size = size_of_type(subst_const_type(core.strip(arg_nodes[1]).get("ty"), cenv)) or size_of_type(subst_const_type(arg_nodes[1].get("ty"), cenv))
    if size is None:
        size = term_size(t)
    if size is None:
        size = ("len", ("iter", t))
    I.emit(("W", "bytes", t, core.loc(n), size))
    return var(OK, UNIT)


def place_lid(node):
    p = core.strip(node)
    while p.get("k") == "MethodCall" and p["m"] in ("as_mut_slice", "as_mut", "make_contiguous", "borrow_mut"):
        p = core.strip(p["recv"])
    if p.get("k") == "Path" and p.get("res") == "local":
        return p["lid"]
    return None


def p_read_exact(I, n, path, arg_nodes, env):
    rdr = I.eval(arg_nodes[0], env)
    lid = place_lid(arg_nodes[1])
    if rdr[0] not in ("in", "take") and lid is not None:
        # reading from an in-memory byte slice (a sub-reader): consume successive bytes of that term, no wire event
        size = size_of_type(core.strip(arg_nodes[1]).get("ty"))
        if size is None or size[0] != "c":
            raise Unsupported("sub-reader with a non-constant read size")
        if not hasattr(I, "subpos"):
            I.subpos = {}
        pos = I.subpos.get(rdr, 0)
        I.subpos[rdr] = pos + size[1]
        env[lid] = ("slice", rdr, pos, size[1])
        return var(OK, UNIT)
    cur = I.eval(arg_nodes[1], env)
    cenv = I.const_env[-1] if getattr(I, "const_env", None) else {}
    size = size_of_type(subst_const_type(core.strip(arg_nodes[1]).get("ty"), cenv))
    if size is None:
        if cur[0] == "vec" and len(cur[1]) == 1 and cur[1][0][0] == "fill":
            size = cur[1][0][1]
        else:
            size = ("len", ("iter", cur))
    rid = I.fresh_read("bytes", core.loc(n), size)
    I.emit(("R", "bytes", rid, core.loc(n), size))
    if lid is None:
        # read into a temporary that is dropped (e.g. `read_exact(&mut [0; 16])`): consumed, value unused
        return var(OK, UNIT)
    env[lid] = ("rd", rid)
    return var(OK, UNIT)


def p_take(I, n, path, arg_nodes, env):
    r = I.eval(arg_nodes[0], env)
    lim = I.eval(arg_nodes[1], env)
    return ("take", r, lim)


def p_read_to_end(I, n, path, arg_nodes, env):
    r = I.eval(arg_nodes[0], env)
    lid = place_lid(arg_nodes[1])
    if r[0] == "take":
        size = r[2]
    else:
        size = ("rest",)
    rid = I.fresh_read("bytes", core.loc(n), size)
    I.emit(("R", "bytes", rid, core.loc(n), size))
    if lid is not None:
        env[lid] = ("rd", rid)
    return var(OK, ("len", ("iter", ("rd", rid))))


def p_index_range_full(I, n, path, arg_nodes, env):
    return I.eval(arg_nodes[0], env)


BYTE_PRIMS = [
    (re.compile(r"^std::io::Write::write_all$"), p_write_all),
    (re.compile(r"^std::io::Read::read_exact$"), p_read_exact),
    (re.compile(r"^std::io::Read::take$"), p_take),
    (re.compile(r"^std::io::Read::read_to_end$|^std::io::Read::read_to_string$"), p_read_to_end),
]


class WireInterp(Interp):
    def e_Index(self, n, env):
        ity = n["r"].get("ty", "")
        if ity.startswith("core::ops::range::RangeFull"):
            return self.eval(n["l"], env)
        return super().e_Index(n, env)

    def e_Match(self, n, env):
        # distribute a match over a phi scrutinee
        if n.get("src") == "Normal":
            t = self.eval(n["e"], env)
            if t[0] == "phi":
                alts = []
                for cond, x in t[1]:
                    def thunk(e2, x=x):
                        return self.match_on(n, x, e2)
                    alts.append((cond, thunk))
                return self.branches(alts, env, core.loc(n))
            return self.match_on(n, t, env)
        return super().e_Match(n, env)

    def match_on(self, n, t, env):
        alts = []
        for arm in n["arms"]:
            r = self.test(arm["pat"], t)
            if r is False:
                continue
            if "guard" in arm:
                e_g = dict(env)
                self.bind(arm["pat"], t, e_g)
                g = self.eval(arm["guard"], e_g)
                if g[0] == "c":
                    g = bool(g[1])
                if g is False:
                    continue
                if g is not True:
                    r = g if r is True else ("and", (r, g))

            def thunk(e2, arm=arm):
                self.bind(arm["pat"], t, e2)
                return self.eval(arm["body"], e2)
            alts.append((r, thunk))
            if r is True:
                break
        if not alts:
            raise Unsupported("no feasible match arm")
        return self.branches(alts, env, core.loc(n))


OPAQUE = {
    "rbx_types::basic_types::Matrix3::to_basic_rotation_id", "rbx_types::basic_types::Matrix3::from_basic_rotation_id",
    "rbx_types::brick_color::BrickColor::from_number", "rbx_types::font::FontWeight::from_u16", "rbx_types::font::FontWeight::as_u16",
    "rbx_types::font::FontStyle::from_u8", "rbx_types::font::FontStyle::as_u8",
    "rbx_types::faces::Faces::from_bits", "rbx_types::faces::Faces::bits", "rbx_types::axes::Axes::from_bits", "rbx_types::axes::Axes::bits",
    "rbx_types::security_capabilities::SecurityCapabilities::from_bits", "rbx_types::security_capabilities::SecurityCapabilities::bits",
    "rbx_types::shared_string::SharedString::new", "rbx_types::shared_string::SharedString::data", "rbx_types::shared_string::SharedString::hash",
    "rbx_types::tags::Tags::encode", "rbx_types::tags::Tags::decode", "rbx_types::material_colors::MaterialColors::encode", "rbx_types::material_colors::MaterialColors::decode",
    "rbx_types::attributes::Attributes::to_writer", "rbx_types::attributes::Attributes::from_reader",
}


def run_region(prog, node, env, prims, depth=8, opaque=None, split_try=None):
    """interpret `node` (an expression) with the given environment; returns (interp, value, exit)"""
    I = WireInterp(prog, prims=prims, depth=depth, opaque=OPAQUE | (opaque or set()))
    if split_try is not None:
        I.split_try = split_try
    val = None
    ex = None
    try:
        val = I.eval(node, env)
    except Exit as e:
        ex = e
        val = e.value
    return I, val, ex
