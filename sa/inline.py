"""sa.inline — MIR-level inlining of workspace-private helpers into an API function.

Rules about pairing / ordering / domination are stated per *API function* (the unit a user calls).  How the body
is split into private helpers is an implementation detail, so the rules run on the caller's CFG with the helpers'
CFGs spliced in: a call block becomes `param locals := arguments; goto callee entry`, every `return` of the callee
becomes `dest := _0'; goto call target`.  Locals and blocks of the callee are renumbered.  Recursion is cut (a callee
already on the inlining stack stays a call) and depth is bounded."""
import copy

from . import core


class InlinedFn:
    """quacks like core.Fn for the MIR-based helpers (discipline.CFG, field_mutations, mir_calls, ...)"""

    def __init__(self, fn, mir, inlined):
        self.path = fn.path
        self.crate = fn.crate
        self.d = fn.d
        self.body = fn.body
        self.params = fn.params
        self.sp = fn.sp
        self.dk = fn.dk
        self.closures = fn.closures
        self.mir = mir
        self.inlined = inlined      # [callee path, ...] in splice order
        self.origin = {}            # block index -> path of the function the block came from

    @property
    def file(self):
        return self.sp.split(":")[0]


def _renumber(node, loff, boff):
    """deep-copied MIR node with locals shifted by loff and block targets by boff"""
    if isinstance(node, list):
        return [_renumber(x, loff, boff) for x in node]
    if not isinstance(node, dict):
        return node
    out = {}
    for k, v in node.items():
        if k == "l" and isinstance(v, int) and node.get("k") == "place":
            out[k] = v + loff
        elif k == "targets" and isinstance(v, list):
            out[k] = [t + boff for t in v]
        elif k == "unwind" and isinstance(v, int):
            out[k] = v + boff
        elif k == "proj" and isinstance(v, list):
            # index projections `[_n]` are stored as {"idx": n} or strings; shift dict-form locals
            out[k] = [(_renumber(p, loff, boff) if isinstance(p, (dict, list)) else p) for p in v]
        else:
            out[k] = _renumber(v, loff, boff)
    return out


def inline(prog, fn, should_inline, depth=4):
    """InlinedFn for `fn` with every call to a function accepted by should_inline(callee Fn) spliced in."""
    if not fn.mir:
        return InlinedFn(fn, fn.mir, [])
    mir = {"argc": fn.mir.get("argc"), "locals": list(fn.mir["locals"]), "names": copy.deepcopy(fn.mir.get("names")), "blocks": copy.deepcopy(fn.mir["blocks"])}
    origin = {i: fn.path for i in range(len(mir["blocks"]))}
    inlined = []
    stack_of = {i: (fn.path,) for i in range(len(mir["blocks"]))}   # inlining stack each block belongs to
    work = list(range(len(mir["blocks"])))
    while work:
        bi = work.pop(0)
        bb = mir["blocks"][bi]
        t = bb["term"]
        if t["k"] != "call":
            continue
        tgt = t.get("inst") or t.get("fn")
        callee = prog.fns.get(tgt)
        if callee is None or not callee.mir or not should_inline(callee):
            continue
        stk = stack_of[bi]
        if tgt in stk or len(stk) > depth:
            continue
        loff = len(mir["locals"])
        boff = len(mir["blocks"])
        mir["locals"].extend(callee.mir["locals"])
        new_blocks = _renumber(callee.mir["blocks"], loff, boff)
        targets = t.get("targets", [])
        for j, nb in enumerate(new_blocks):
            nt = nb["term"]
            if nt["k"] == "return":
                nb["stmts"] = nb["stmts"] + ([{"k": "assign", "lhs": t["dest"], "rk": "use", "ops": [{"k": "place", "l": loff}], "sp": t.get("sp", "")}] if t.get("dest") else [])
                nb["term"] = {"k": "goto", "targets": list(targets), "sp": nt.get("sp", "")} if targets else {"k": "unreachable"}
            origin[boff + j] = tgt
            stack_of[boff + j] = stk + (tgt,)
        mir["blocks"].extend(new_blocks)
        # argument passing
        args = t.get("args", [])
        binds = []
        for ai, a in enumerate(args):
            binds.append({"k": "assign", "lhs": {"k": "place", "l": loff + 1 + ai}, "rk": "use", "ops": [a], "sp": t.get("sp", "")})
        bb["stmts"] = bb["stmts"] + binds
        bb["term"] = {"k": "goto", "targets": [boff], "sp": t.get("sp", ""), "inlined_call": tgt}
        inlined.append(tgt)
        work.extend(range(boff, boff + len(new_blocks)))
    out = InlinedFn(fn, mir, inlined)
    out.origin = origin
    return out
