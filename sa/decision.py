"""sa.decision — decision tables of a region of typed HIR.

Enumerates the acyclic paths of an expression, treating conditions as opaque atoms (named by a caller-supplied
`namer`, default: line-free fingerprints built from resolved callees / field roots) and recording per path the
set of atom literals and the ordered effects.  No feasibility reasoning, no solver."""
from . import core


class Path:
    __slots__ = ("conds", "effects", "exit")

    def __init__(self, conds=(), effects=(), exit=None):
        self.conds = tuple(conds)
        self.effects = tuple(effects)
        self.exit = exit      # None | 'return' | 'continue' | 'break' | 'err'

    def extend(self, other):
        return Path(self.conds + other.conds, self.effects + other.effects, other.exit)

    def key(self):
        return (frozenset(self.conds), self.effects, self.exit)

    def __repr__(self):
        cs = " & ".join(("" if v else "!") + a for a, v in self.conds) or "true"
        return f"[{cs}] -> {list(self.effects)}{' ^' + self.exit if self.exit else ''}"


class Tabler:
    def __init__(self, namer=None, effect_namer=None, max_paths=4000):
        self.namer = namer or (lambda n: None if core.strip(n).get("k") == "LetExpr" else core.fingerprint(n, 5))
        self.effect_namer = effect_namer or (lambda n: core.fingerprint(n, 5))
        self.max_paths = max_paths

    # ---- conditions: returns (true_paths, false_paths) as lists of cond tuples
    def cond(self, n):
        n = core.strip(n) if n.get("k") in ("DropTemps", "Use") else n
        k = n.get("k")
        if k == "DropTemps":
            return self.cond(n["e"])
        if k == "Unary" and n["op"] == "!":
            t, f = self.cond(n["e"])
            return f, t
        if k == "Binary" and n["op"] == "&&":
            t1, f1 = self.cond(n["l"])
            t2, f2 = self.cond(n["r"])
            return [a + b for a in t1 for b in t2], f1 + [a + b for a in t1 for b in f2]
        if k == "Binary" and n["op"] == "||":
            t1, f1 = self.cond(n["l"])
            t2, f2 = self.cond(n["r"])
            return t1 + [a + b for a in f1 for b in t2], [a + b for a in f1 for b in f2]
        if k == "LetExpr":
            a = self.namer(n)
            if a is None:
                a = (self.namer(n["init"]) or core.fingerprint(n["init"], 5)) + " is " + core.pat_str(n["pat"])
            return [((a, True),)], [((a, False),)]
        if k == "Lit" and n["lit"]["lk"] == "bool":
            return ([()], []) if n["lit"]["v"] else ([], [()])
        a = self.namer(n)
        return [((a, True),)], [((a, False),)]

    # ---- expressions
    def paths(self, n):
        k = n.get("k")
        if k in ("DropTemps", "Use", "Type"):
            return self.paths(n["e"])
        t = core.as_try(n)
        if t is not None:
            ps = self.paths(t)
            return ps     # the error exit of `?` is not a row of the table (non-accepting path)
        fl = core.as_for(n)
        if fl is not None:
            return [Path(effects=("for{" + self.effect_namer(fl[1]) + "}",))]
        if k == "Block":
            cur = [Path()]
            for st in n["b"]["stmts"]:
                if st["k"] == "Let":
                    nxt = self.paths(st["init"]) if "init" in st else [Path()]
                    if "els" in st:
                        # let-else: the else block diverges
                        a = self.namer(st["init"]) + " is " + core.pat_str(st["pat"])
                        els = self.paths({"k": "Block", "b": st["els"]})
                        nxt = [p.extend(Path(conds=((a, True),))) for p in nxt] + [p.extend(Path(conds=((a, False),))).extend(e) for p in nxt for e in els]
                else:
                    nxt = self.paths(st["e"])
                cur = self._seq(cur, nxt)
            if "expr" in n["b"]:
                cur = self._seq(cur, self.paths(n["b"]["expr"]))
            return cur
        if k == "If":
            tc, fc = self.cond(n["c"])
            tp = self.paths(n["t"])
            fp = self.paths(n["f"]) if "f" in n else [Path()]
            out = [Path(conds=c).extend(p) for c in tc for p in tp] + [Path(conds=c).extend(p) for c in fc for p in fp]
            return self._cap(out)
        if k == "Match" and n.get("src") in ("Normal", "Postfix"):
            # an arm `P if G => body` is the condition `let P = scrutinee && G` (same atoms as the if-let spelling, so
            # the namer sees one form).  `ctxs` are the ways all earlier arms failed: not-P, or P with a failed guard.
            # A guard-free last arm is reached exactly when all earlier arms failed (rustc checked exhaustiveness),
            # so it contributes no atom of its own.
            out = []
            ctxs = [()]
            arms = n["arms"]
            for ai, arm in enumerate(arms):
                wild = arm["pat"].get("k") in ("Wild",) or (arm["pat"].get("k") == "Binding" and "sub" not in arm["pat"])
                if ai == len(arms) - 1 and "guard" not in arm and len(arms) > 1:
                    wild = True
                if wild:
                    pt, pf = [()], []
                else:
                    pt, pf = self.cond({"k": "LetExpr", "pat": arm["pat"], "init": n["e"]})
                body = self.paths(arm["body"])
                if "guard" in arm:
                    tg, fg = self.cond(arm["guard"])
                else:
                    tg, fg = [()], []
                for cx in ctxs:
                    for a in pt:
                        for g in tg:
                            out += [Path(conds=cx + a + g).extend(p) for p in body]
                ctxs = [cx + a for cx in ctxs for a in pf] + [cx + a + g for cx in ctxs for a in pt for g in fg]
                if len(ctxs) > 64:
                    raise core.AnalysisError("match with too many guard contexts")
            return self._cap(out)
        if k == "Ret":
            inner = self.paths(n["e"]) if "e" in n else [Path()]
            return [p.extend(Path(effects=("return " + (self.effect_namer(n["e"]) if "e" in n else ""),), exit="return")) if p.exit is None else p for p in inner]
        if k == "Continue":
            return [Path(exit="continue")]
        if k == "Break":
            return [Path(exit="break")]
        if k in ("Assign", "AssignOp"):
            return [Path(effects=(self.effect_namer(n),))]
        if k in ("MethodCall", "Call"):
            return [Path(effects=(self.effect_namer(n),))]
        if k == "Loop":
            return [Path(effects=("loop{…}",))]
        return [Path()]

    def _seq(self, cur, nxt):
        out = []
        for a in cur:
            if a.exit is not None:
                out.append(a)
            else:
                for b in nxt:
                    out.append(a.extend(b))
        return self._cap(out)

    def _cap(self, out):
        if len(out) > self.max_paths:
            raise core.AnalysisError(f"decision table exceeds {self.max_paths} paths")
        return out


def table(paths, drop_empty=False):
    """normalised table: {frozenset(conds): (effects, exit)}; contradictory paths (a & !a) are dropped."""
    out = {}
    for p in paths:
        cs = set(p.conds)
        if any((a, not v) in cs for a, v in cs):
            continue
        if drop_empty and not p.effects and p.exit is None:
            continue
        out.setdefault(frozenset(cs), []).append((p.effects, p.exit))
    return out


def outcomes_by_valuation(tbl, atoms=None):
    """Expand a table {frozenset(conds): [outcome...]} to {full valuation (tuple of (atom, bool) sorted): set(outcomes)}
    over `atoms` (default: every atom mentioned).  Two tables denote the same decision function iff these maps agree on
    every valuation covered by both and cover the same valuations — independent of how the rows are partitioned."""
    import itertools
    if atoms is None:
        atoms = sorted({a for k in tbl for a, _ in k})
    out = {}
    for vals in itertools.product((False, True), repeat=len(atoms)):
        env = dict(zip(atoms, vals))
        res = set()
        hit = False
        for k, v in tbl.items():
            if all(env.get(a) == val for a, val in k):
                hit = True
                res.update(v)
        if hit:
            out[tuple(sorted(env.items()))] = res
    return out


def same_function(got, want, irrelevant=()):
    """(equal?, [differing valuations]).  `want` rows may leave atoms unconstrained (don't-care)."""
    atoms = sorted({a for k in list(got) + list(want) for a, _ in k})
    if len(atoms) > 12:
        raise core.AnalysisError("too many atoms for valuation expansion")
    g = outcomes_by_valuation(got, atoms)
    w = outcomes_by_valuation(want, atoms)
    diff = []
    for val in sorted(set(g) | set(w)):
        if g.get(val) != w.get(val):
            diff.append((val, sorted(map(str, g.get(val, []))), sorted(map(str, w.get(val, [])))))
    return not diff, diff
