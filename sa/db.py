"""sa.db — the bundled reflection database (rbx_reflection_database/database.msgpack) as data."""
import os

from . import core, msgpack_min


class Prop:
    __slots__ = ("name", "scriptability", "dtype_kind", "dtype", "tags", "kind", "alias_for", "ser", "ser_as", "migrate_to", "migrate_op", "cls")

    def __init__(self, cls, raw):
        self.cls = cls
        self.name, self.scriptability, dt, self.tags, kind = raw
        (self.dtype_kind, self.dtype), = list(dt)
        self.alias_for = self.ser = self.ser_as = self.migrate_to = self.migrate_op = None
        (k, payload), = list(kind) if not isinstance(kind, str) else [(kind, None)]
        self.kind = k
        if k == "Alias":
            self.alias_for = payload[0]
        elif k == "Canonical":
            s = payload[0]
            if isinstance(s, str):
                self.ser = s
            else:
                (sk, sp), = list(s)
                self.ser = sk
                if sk == "SerializesAs":
                    self.ser_as = sp
                elif sk == "Migrate":
                    self.migrate_to, self.migrate_op = sp[0], sp[1]

    def vtype(self):
        return self.dtype if self.dtype_kind == "Value" else "Enum"


class Class:
    __slots__ = ("name", "tags", "superclass", "props", "defaults", "key")

    def __init__(self, key, raw):
        self.key = key
        self.name, self.tags, self.superclass, props, defaults = raw
        self.props = {}
        for k, v in props:
            p = Prop(self, v)
            p_key = k
            self.props[p_key] = p
        self.defaults = {}
        for k, v in defaults:
            (vk, payload), = list(v)
            self.defaults[k] = (vk, payload)


class Database:
    def __init__(self, path=None):
        path = path or os.path.join(core.REPO, "rbx_reflection_database", "database.msgpack")
        with open(path, "rb") as fh:
            raw = msgpack_min.unpack(fh.read())
        if not (isinstance(raw, list) and len(raw) == 3):
            raise core.AnchorMissing("database.msgpack: top level is not [version, classes, enums]")
        self.version = raw[0]
        self.classes = {}
        self.dup_class_keys = []
        for k, v in raw[1]:
            if k in self.classes:
                self.dup_class_keys.append(k)
            self.classes[k] = Class(k, v)
        self.enums = {}
        for k, v in raw[2]:
            self.enums[k] = (v[0], dict(v[1]))

    def chain(self, cls):
        """superclass chain starting at cls (names), stops at cycles / missing."""
        seen = []
        cur = cls
        while cur is not None and cur not in seen and cur in self.classes:
            seen.append(cur)
            cur = self.classes[cur].superclass
        return seen

    def find_prop(self, cls, name):
        for c in self.chain(cls):
            p = self.classes[c].props.get(name)
            if p is not None:
                return p
        return None

    def all_props(self):
        for c in self.classes.values():
            for p in c.props.values():
                yield c, p
