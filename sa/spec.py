"""sa.spec — the repository's own format documents, parsed on every run (never hashed against prose)."""
import os
import re
import xml.etree.ElementTree as ET

from . import core


def _read(name):
    p = os.path.join(core.REPO, "docs", name)
    try:
        with open(p, encoding="utf-8") as fh:
            return fh.read()
    except OSError:
        raise core.AnchorMissing(f"docs/{name} not found")


def sections(text, level="###"):
    """[(heading, body)] for headings of exactly `level`."""
    out = []
    cur = None
    buf = []
    for line in text.splitlines():
        m = re.match(r"^(#+)\s+(.*)$", line)
        if m and len(m.group(1)) <= len(level):
            if cur is not None:
                out.append((cur, "\n".join(buf)))
            cur = m.group(2).strip().strip("`") if len(m.group(1)) == len(level) else None
            buf = []
        elif cur is not None:
            buf.append(line)
    if cur is not None:
        out.append((cur, "\n".join(buf)))
    return out


def md_tables(body):
    """all markdown tables in a body: list of (header cells, [row cells])."""
    tables = []
    rows = []
    for line in body.splitlines() + [""]:
        if line.strip().startswith("|"):
            rows.append([c.strip() for c in line.strip().strip("|").split("|")])
        else:
            if len(rows) >= 2:
                hdr = rows[0]
                data = [r for r in rows[1:] if not all(set(c) <= set(":- ") for c in r)]
                tables.append((hdr, data))
            rows = []
    return tables


def type_ids(doc):
    """{section name: (type id int, body)} from `**Type ID `0xNN`**` lines of binary.md / attributes.md."""
    text = _read(doc)
    out = {}
    for name, body in sections(text, "###"):
        m = re.search(r"\*\*Type ID `0x([0-9a-fA-F]+)`\*\*", body)
        if m:
            out[name] = (int(m.group(1), 16), body)
    if not out:
        raise core.AnchorMissing(f"docs/{doc}: no `**Type ID**` headings found")
    return out


def field_table(body):
    """first `| Field Name | Format |` table of a section: [(field, format)]"""
    for hdr, rows in md_tables(body):
        if hdr and hdr[0] == "Field Name" and len(hdr) >= 2:
            return [(r[0], re.sub(r"\[|\]\([^)]*\)|`", "", r[1]).strip()) for r in rows if len(r) >= 2]
    return None


def xml_type_elements():
    """{heading: [ElementTree roots of each ```xml example]} for the `## Type Elements` part of docs/xml.md."""
    text = _read("xml.md")
    i = text.find("## Type Elements")
    if i < 0:
        raise core.AnchorMissing("docs/xml.md: `## Type Elements` not found")
    out = {}
    for name, body in sections(text[i:], "###"):
        exs = []
        for m in re.finditer(r"```xml\n(.*?)```", body, re.S):
            src = m.group(1)
            try:
                exs.append(ET.fromstring(src))
            except ET.ParseError:
                try:
                    exs.append(ET.fromstring("<wrap>" + src + "</wrap>"))
                except ET.ParseError:
                    pass
        out[name] = (exs, body)
    return out


_HEXRUN = r"(?:[0-9A-Fa-f]{2}[ \t\r\n]+)+[0-9A-Fa-f]{2}"


def hex_examples(body):
    """worked examples of a section, however they are set: an inline code span or a fenced block that holds nothing but
    hex byte pairs (two bytes at least).  -> [(lead, hex text, bytes)] in document order; `lead` is the prose in front of
    the bytes — back to the previous example of the same paragraph, or to the start of the paragraph (for a fenced block:
    of the paragraph above it).  Which words the prose uses (`looks like this`, `is encoded as`, …) is not looked at."""
    spans = []
    for m in re.finditer(r"```[^\n]*\n(.*?)```", body, re.S):
        if re.fullmatch(r"\s*" + _HEXRUN + r"\s*", m.group(1)):
            spans.append((m.start(), m.end(), m.group(1)))
    fenced = [(a, b) for a, b, _t in spans]
    for m in re.finditer(r"`(" + _HEXRUN + r")`", body):
        if any(a <= m.start() < b for a, b in fenced):
            continue
        spans.append((m.start(), m.end(), m.group(1)))
    spans.sort()
    out = []
    prev_end = 0
    for a, b, txt in spans:
        before = body[:a].rstrip()
        para = before.rfind("\n\n")
        start = max(prev_end, para + 2 if para >= 0 else 0)
        if start > len(before):
            start = prev_end
        lead = before[start:]
        hx = " ".join(txt.split())
        out.append((lead, hx, bytes.fromhex(hx.replace(" ", ""))))
        prev_end = b
    return out


def code_spans(text):
    """inline code spans of a piece of prose, in order"""
    return re.findall(r"`([^`\n]+)`", text)
