"""sa.sym — symbolic interpreter over typed HIR (the core of the wire-shape analysis).

Interprets an expression over an abstract store  local -> term  and records I/O events with their control
structure.  Nothing of /repo is executed: this is abstract interpretation of the facts dumped by factgen.

Terms (hashable tuples)
  ("c", v)                       constant
  ("in", name)                   symbolic input
  ("fld", t, f)                  field projection
  ("st", adt, ((f, t), ...))     struct value            ("var", variant_path, (t, ...))   enum value
  ("tup", (t, ...))              tuple
  ("app", callee, (t, ...))      opaque pure application  ("op", o, a, b) ("un", o, a) ("cast", ty, a)
  ("rd", id)                     result of read #id       ("rdelem", id)  element (at the loop index) of column read #id
  ("payload", t, variant, i)     payload of t assumed to be `variant`
  ("is", t, variant)             condition: t is `variant`
  ("vec", (seg, ...))            seg = ("one", t) | ("seg", dom, t, cond) | ("fill", n, t)
  ("stream", dom, elem, clos)    lazy iterator: clos = tuple of ("map", closure) | ("zipidx",) adaptors still to apply
  ("closure", id)                closure value (node + captured env kept in Interp.closures)
  ("len", dom) ("idx", dom)      size / running index of a loop domain
  ("unk", why)                   unsupported -> fails closed in the comparison
Events
  ("W", prim, term, loc) | ("R", prim, rid, loc) | ("rep", dom, [ev], loc) | ("alt", [(cond, [ev], exit)], loc) | ("sink", name, term, loc)
"""
import re

from . import core


class Exit(Exception):
    def __init__(self, kind, value=None):
        self.kind = kind      # 'return' | 'break' | 'continue'
        self.value = value


class Unsupported(Exception):
    pass


def C(v):
    return ("c", v)


UNIT = ("tup", ())
OK = "core::result::Result::Ok"
ERR = "core::result::Result::Err"
SOME = "core::option::Option::Some"
NONE = "core::option::Option::None"


def var(path, *args):
    return ("var", path, tuple(args))


def is_var(t, path=None):
    return isinstance(t, tuple) and t and t[0] == "var" and (path is None or t[1] == path)


def fld(t, f):
    if t[0] == "st":
        for k, v in t[2]:
            if k == f:
                return v
        return ("unk", f"no field {f}")
    if t[0] == "tup" and f.isdigit() and int(f) < len(t[1]):
        return t[1][int(f)]
    if t[0] == "phi":
        return ("phi", tuple((c, fld(x, f)) for c, x in t[1]))
    return ("fld", t, f)


def payload(t, variant, i):
    if t[0] == "var":
        if t[1] == variant:
            return t[2][i] if i < len(t[2]) else ("unk", "payload index")
        return ("unk", f"payload of {t[1]} as {variant}")
    if t[0] == "varn":
        # a struct-like variant: the payload is selected by field name
        if t[1] == variant:
            for f, v in t[2]:
                if f == i:
                    return v
            return ("unk", f"no field {i}")
        return ("unk", f"payload of {t[1]} as {variant}")
    return ("payload", t, variant, i)


def term_str(t, depth=6):
    if not isinstance(t, tuple) or not t:
        return repr(t)
    if depth <= 0:
        return "…"
    k = t[0]
    if k == "c":
        return repr(t[1])
    if k == "in":
        return t[1]
    if k == "fld":
        return f"{term_str(t[1], depth)}.{t[2]}"
    if k == "st":
        return core.short(t[1]) + "{" + ", ".join(f"{f}: {term_str(v, depth - 1)}" for f, v in t[2]) + "}"
    if k == "var":
        return core.short(t[1]) + ("(" + ", ".join(term_str(a, depth - 1) for a in t[2]) + ")" if t[2] else "")
    if k == "tup":
        return "(" + ", ".join(term_str(a, depth - 1) for a in t[1]) + ")"
    if k == "app":
        return core.short(t[1]) + "(" + ", ".join(term_str(a, depth - 1) for a in t[2]) + ")"
    if k == "op":
        return f"({term_str(t[2], depth - 1)} {t[1]} {term_str(t[3], depth - 1)})"
    if k == "un":
        return f"{t[1]}{term_str(t[2], depth - 1)}"
    if k == "cast":
        return f"({term_str(t[2], depth - 1)} as {t[1]})"
    if k == "rd":
        return f"read#{t[1]}"
    if k == "rdelem":
        return f"read#{t[1]}[i]"
    if k == "payload":
        return f"{term_str(t[1], depth)}→{core.short(t[2]).split('::')[-1]}.{t[3]}"
    if k == "is":
        return f"{term_str(t[1], depth)} is {core.short(t[2])}"
    if k == "vec":
        return "[" + ", ".join(seg_str(s, depth - 1) for s in t[1]) + "]"
    if k == "stream":
        return f"iter<{term_str(t[1], 2)}>({term_str(t[2], depth - 1)}{' +' + str(len(t[3])) + ' adaptors' if t[3] else ''})"
    if k == "len":
        return f"len({term_str(t[1], 2)})"
    if k == "idx":
        return f"idx({term_str(t[1], 2)})"
    if k == "dom":
        return f"D:{t[1]}"
    if k == "phi":
        return "phi(" + " | ".join(f"{term_str(c, 2)} ? {term_str(x, depth - 1)}" for c, x in t[1]) + ")"
    if k == "unk":
        return f"?<{t[1]}>"
    if k == "closure":
        return f"closure#{t[1]}"
    return str(t)[:80]


def seg_str(s, depth):
    if s[0] == "one":
        return term_str(s[1], depth)
    if s[0] == "seg":
        return f"{term_str(s[2], depth)} for {term_str(s[1], 2)}" + (f" if {term_str(s[3], 2)}" if s[3] is not None else "")
    if s[0] == "fill":
        return f"{term_str(s[2], depth)}; {term_str(s[1], 2)}"
    return str(s)


def contains_unk(t):
    if not isinstance(t, tuple):
        return None
    if t and t[0] == "unk":
        return t[1]
    for x in t:
        if isinstance(x, tuple):
            r = contains_unk(x)
            if r:
                return r
    return None


def norm_dom(d):
    """canonical form of a loop domain"""
    if not isinstance(d, tuple):
        return d
    if d[0] == "count":
        n = d[1]
        if isinstance(n, tuple) and n[0] == "len":
            return norm_dom(n[1])
        if isinstance(n, tuple) and n[0] == "cast":
            return norm_dom(("count", n[2]))
        return ("count", n)
    if d[0] == "range":
        lo, hi = d[1], d[2]
        if lo == C(0):
            return norm_dom(("count", hi))
        return d
    if d[0] == "iter":
        v = d[1]
        if isinstance(v, tuple) and v[0] == "vec" and len(v[1]) == 1 and v[1][0][0] in ("seg", "fill"):
            return norm_dom(v[1][0][1] if v[1][0][0] == "seg" else ("count", v[1][0][1]))
        if isinstance(v, tuple) and v[0] == "vec" and len(v[1]) > 1 and all(s_[0] == "seg" for s_ in v[1]):
            doms = {norm_dom(s_[1]) for s_ in v[1]}
            conds = [s_[3] for s_ in v[1]]
            # segments pushed on the complementary branches of one loop iteration: one element per iteration
            if len(doms) == 1 and all(c_ is not None for c_ in conds) and exhaustive_conds(conds):
                return next(iter(doms))
        return d
    return d


def exhaustive_conds(conds):
    """conds of sibling branches: c, ("not", c) / ("else", (...)) chains"""
    base = [c for c in conds if not (isinstance(c, tuple) and c and c[0] in ("else", "not"))]
    rest = [c for c in conds if isinstance(c, tuple) and c and c[0] in ("else", "not")]
    if len(rest) != 1:
        return False
    r = rest[0]
    if r[0] == "not":
        return len(base) == 1 and r[1] == base[0]
    return set(r[1]) == set(base) or set(base) <= set(r[1])


class Interp:
    def __init__(self, prog, prims=None, depth=6, opaque=None):
        self.prog = prog
        self.opaque = opaque or set()     # workspace functions kept as opaque applications (verified elsewhere)
        self.prims = prims or []          # [(compiled regex on callee, handler(interp, node, callee, args_nodes, env))]
        self.depth = depth
        self.events = []
        self.closures = {}
        self.next_read = 0
        self.reads = {}                   # rid -> {"prim":, "n":, "loc":}
        self.loop_stack = []              # domains of the enclosing loops
        self.const_env = [{}]             # const-generic parameter values of the function being inlined
        self.type_env = [{}]              # type parameters of the function being inlined -> the types of this call
        self.break_envs = []              # per enclosing loop: [(cond, env at a `break`)] — merged into the env after the loop
        self.notes = []
        self.cond_stack = []
        self._variant_cache = {}

    # ------------------------------------------------------------------ helpers
    def fresh_read(self, prim, loc, n=None):
        rid = f"r{self.next_read}"
        self.next_read += 1
        self.reads[rid] = {"prim": prim, "n": n, "loc": loc, "loops": tuple(self.loop_stack)}
        return rid

    def emit(self, ev):
        self.events.append(ev)

    def sub_events(self, fnc):
        """run fnc() collecting its events separately; returns (result, events, exit)"""
        saved = self.events
        self.events = []
        ex = None
        res = None
        try:
            res = fnc()
        except Exit as e:
            ex = e
        evs = self.events
        self.events = saved
        return res, evs, ex

    # ------------------------------------------------------------------ patterns
    def bind(self, pat, t, env):
        """irrefutable binding"""
        k = pat.get("k")
        if k == "Binding":
            env[pat["lid"]] = t
            if "sub" in pat:
                self.bind(pat["sub"], t, env)
        elif k in ("Wild", "Missing"):
            pass
        elif k in ("Ref", "Deref", "Box"):
            self.bind(pat["p"], t, env)
        elif k == "Tuple":
            for i, q in enumerate(pat["pats"]):
                self.bind(q, fld(t, str(i)), env)
        elif k == "TupleStruct":
            path = pat.get("def")
            for i, q in enumerate(pat["pats"]):
                self.bind(q, payload(t, path, i), env)
        elif k == "Struct":
            path = pat.get("def")
            adt = self.prog.adts.get(path)
            for f in pat["fields"]:
                if adt is not None and adt["kind"] == "Struct":
                    self.bind(f["p"], fld(t, f["f"]), env)
                else:
                    # enum struct-variant: payload by field name
                    self.bind(f["p"], ("payload", t, path, f["f"]) if t[0] != "varn" else dict(t[2]).get(f["f"], ("unk", "field")), env)
        elif k == "Expr":
            pass
        elif k == "Slice":
            if pat.get("mid") is not None or "rest" in pat:
                raise Unsupported("slice pattern with a rest element")
            subs = (pat.get("pats") or []) + (pat.get("pre") or []) + (pat.get("post") or [])
            for i, q in enumerate(subs):
                if t[0] == "vec" and all(sg[0] == "one" for sg in t[1]) and i < len(t[1]):
                    self.bind(q, t[1][i][1], env)
                else:
                    self.bind(q, ("app", "index", (t, C(i))), env)
        elif k == "Or":
            # alternatives without bindings need nothing bound
            def has_binding(p):
                if isinstance(p, dict):
                    return p.get("k") == "Binding" or any(has_binding(v) for v in p.values() if isinstance(v, (dict, list)))
                if isinstance(p, list):
                    return any(has_binding(v) for v in p)
                return False
            if has_binding(pat):
                # each alternative binds the same names: the bound value is the alternative's, selected by its own test
                envs = []
                for q in pat["pats"]:
                    r = self.test(q, t)
                    if r is False:
                        continue
                    e2 = {}
                    self.bind(q, t, e2)
                    envs.append((r, e2))
                lids = set()
                for _r, e2 in envs:
                    lids |= set(e2)
                for lid in lids:
                    alts = tuple((r, e2[lid]) for r, e2 in envs if lid in e2)
                    if len(alts) == 1 or all(a[1] == alts[0][1] for a in alts):
                        env[lid] = alts[0][1]
                    else:
                        env[lid] = ("phi", alts)
        else:
            raise Unsupported(f"pattern {k}")

    def test(self, pat, t):
        """refutable match: (True|False|cond term, needs_binding)"""
        k = pat.get("k")
        if k in ("Wild", "Binding", "Missing"):
            if k == "Binding" and "sub" in pat:
                return self.test(pat["sub"], t)
            return True
        if k in ("Ref", "Deref", "Box"):
            return self.test(pat["p"], t)
        if k == "Expr":
            e = pat["e"]
            if e["k"] == "Lit":
                v = e["lit"].get("v")
                if t[0] == "c":
                    return t[1] == v
                return ("op", "==", t, C(v))
            path = e.get("def")
            consts = getattr(self.prog, "inlined_consts", None) or {}
            if path in consts and str(e.get("res", "")).startswith("Const"):
                # a named constant used as a pattern is the literal it stands for
                v = consts[path]
                if t[0] == "c":
                    return t[1] == v
                return ("op", "==", t, C(v))
            if t[0] == "var":
                return t[1] == path
            return ("is", t, path)
        if k == "TupleStruct" or (k == "Struct" and self.prog.adts.get(pat.get("def")) is None) or (k == "Struct" and self.prog.adts.get(pat.get("def"), {}).get("kind") != "Struct"):
            path = pat.get("def")
            if t[0] == "varn":
                if t[1] != path:
                    return False
                conds = []
                fl = dict(t[2])
                for f in pat.get("fields") or []:
                    r = self.test(f["p"], fl.get(f["f"], ("unk", "field")))
                    if r is False:
                        return False
                    if r is not True:
                        conds.append(r)
                return True if not conds else ("and", tuple(conds))
            if t[0] == "var":
                if t[1] != path:
                    return False
                conds = []
                subs = pat.get("pats") or []
                for i, q in enumerate(subs):
                    r = self.test(q, payload(t, path, i))
                    if r is False:
                        return False
                    if r is not True:
                        conds.append(r)
                for f in (pat.get("fields") or []) if k == "Struct" else []:
                    r = self.test(f["p"], ("payload", t, path, f["f"]))
                    if r is False:
                        return False
                    if r is not True:
                        conds.append(r)
                return True if not conds else ("and", tuple(conds))
            conds = [("is", t, path)]
            for i, q in enumerate(pat.get("pats") or []):
                r = self.test(q, payload(t, path, i))
                if r is False:
                    return False
                if r is not True:
                    conds.append(r)
            # struct-like variant (`Kind::Canonical { serialization: Serialization::DoesNotSerialize }`): the named
            # fields' sub-patterns are tests too (payload by field name, as `bind` addresses them)
            for f in (pat.get("fields") or []) if k == "Struct" else []:
                r = self.test(f["p"], ("payload", t, path, f["f"]))
                if r is False:
                    return False
                if r is not True:
                    conds.append(r)
            return conds[0] if len(conds) == 1 else ("and", tuple(conds))
        if k == "Struct":
            conds = []
            for f in pat["fields"]:
                r = self.test(f["p"], fld(t, f["f"]))
                if r is False:
                    return False
                if r is not True:
                    conds.append(r)
            return True if not conds else ("and", tuple(conds))
        if k == "Tuple":
            conds = []
            for i, q in enumerate(pat["pats"]):
                r = self.test(q, fld(t, str(i)))
                if r is False:
                    return False
                if r is not True:
                    conds.append(r)
            return True if not conds else (conds[0] if len(conds) == 1 else ("and", tuple(conds)))
        if k == "Or":
            rs = [self.test(q, t) for q in pat["pats"]]
            if any(r is True for r in rs):
                return True
            rs = [r for r in rs if r is not False]
            if not rs:
                return False
            return rs[0] if len(rs) == 1 else ("or", tuple(rs))
        if k == "Range":
            return ("inrange", t, str(pat.get("lo")), str(pat.get("hi")))
        raise Unsupported(f"refutable pattern {k}")

    # ------------------------------------------------------------------ branching
    def branches(self, alts, env, loc):
        """alts: [(cond (True|term), thunk(env_copy) -> term)].  Evaluates each on a copy of env; merges.
        Returns the merged value.  Raises Exit if every branch exits."""
        results = []
        prevs = []
        for cond, thunk in alts:
            if cond is True and prevs:
                cond = ("else", tuple(prevs))
            elif cond is not True:
                prevs.append(cond)
            e2 = dict(env)
            self.cond_stack.append(cond)
            val, evs, ex = self.sub_events(lambda: thunk(e2))
            self.cond_stack.pop()
            results.append((cond, val, evs, ex, e2))
            if ex is not None and ex.kind == "break" and self.break_envs:
                self.break_envs[-1].append((cond, e2))
            if cond is True or (isinstance(cond, tuple) and cond and cond[0] == "else"):
                break
        if len(results) == 1 and results[0][0] is True:
            cond, val, evs, ex, e2 = results[0]
            self.events.extend(evs)
            env.clear()
            env.update(e2)
            if ex:
                raise ex
            return val
        if any(evs or ex for _, _, evs, ex, _ in results):
            self.emit(("alt", [(cond, evs, (ex.kind if ex else None), (ex.value if ex else None)) for cond, val, evs, ex, _ in results], loc))
        live = [(cond, val, e2) for cond, val, evs, ex, e2 in results if ex is None]
        if not live:
            # all branches exit: propagate the first non-error exit kind
            kinds = [r[3] for r in results]
            raise Exit(kinds[0].kind, None)
        # merge envs
        keys = set()
        for _, _, e2 in live:
            keys |= set(e2)
        for k in keys:
            vals = [(cond, e2.get(k, env.get(k))) for cond, _, e2 in live]
            first = vals[0][1]
            if all(v == first for _, v in vals):
                if first is not None:
                    env[k] = first
            else:
                env[k] = self.merge_vals(env.get(k), vals)
        vs = [(cond, val) for cond, val, _ in live]
        if all(v == vs[0][1] for _, v in vs):
            return vs[0][1]
        return ("phi", tuple(vs))

    def merge_vals(self, old, vals):
        # vectors that were extended differently in the branches: keep conditional segments
        if old is not None and old[0] == "vec" and all(v is not None and v[0] == "vec" and v[1][:len(old[1])] == old[1] for _, v in vals):
            segs = list(old[1])
            for cond, v in vals:
                for s in v[1][len(old[1]):]:
                    if s[0] == "seg":
                        segs.append(("seg", s[1], s[2], cond if s[3] is None else ("and", (cond, s[3]))))
                    elif s[0] == "one":
                        segs.append(("condone", cond, s[1]))
                    else:
                        segs.append(s)
            return ("vec", tuple(segs))
        return ("phi", tuple(vals))

    # ------------------------------------------------------------------ evaluation
    def eval_block(self, b, env):
        val = UNIT
        for st in b["stmts"]:
            if st["k"] == "Let":
                t = self.eval(st["init"], env) if "init" in st else ("unk", "uninit")
                if "els" in st:
                    r = self.test(st["pat"], t)
                    if r is True:
                        self.bind(st["pat"], t, env)
                    elif r is False:
                        self.eval_block(st["els"], env)
                    else:
                        def then(e2, st=st, t=t):
                            self.bind(st["pat"], t, e2)
                            return UNIT

                        def els(e2, st=st):
                            self.eval_block(st["els"], e2)
                            return UNIT
                        self.branches([(r, then), (("not", r), els)], env, st.get("sp", ""))
                else:
                    self.bind(st["pat"], t, env)
            else:
                self.eval(st["e"], env)
        if "expr" in b:
            val = self.eval(b["expr"], env)
        return val

    def eval(self, n, env):
        k = n.get("k")
        m = getattr(self, "e_" + k, None)
        if m is None:
            raise Unsupported(f"expression kind {k}")
        return m(n, env)

    def e_DropTemps(self, n, env):
        return self.eval(n["e"], env)

    e_Use = e_DropTemps
    e_Type = e_DropTemps

    def e_AddrOf(self, n, env):
        return self.eval(n["e"], env)

    def e_Lit(self, n, env):
        v = n["lit"].get("v")
        if n["lit"]["lk"] == "bytes":
            v = tuple(v)
        return C(v)

    def e_Path(self, n, env):
        if n.get("res") == "local":
            if n["lid"] in env:
                return env[n["lid"]]
            return ("in", n["name"])
        res = n.get("res", "")
        d = n.get("inst") or n.get("def")
        if res.startswith("Ctor"):
            if "Const" in res:
                return var(d)
            return ("ctor", d)
        if res.startswith(("Const", "AssocConst", "Static")):
            f = self.prog.fns.get(d)
            if f is not None and f.body is not None:
                try:
                    return self.eval(f.body, {})
                except (Unsupported, Exit):
                    pass
            return ("app", "const:" + str(d), ())
        if res in ("Fn", "AssocFn"):
            return ("fnref", d, n.get("def"))
        if res == "ConstParam":
            nm = str(d).rsplit("::", 1)[-1]
            if nm in self.const_env[-1]:
                return C(self.const_env[-1][nm])
            return ("in", "const:" + nm)
        return ("app", "path:" + str(d), ())

    def e_Tup(self, n, env):
        return ("tup", tuple(self.eval(a, env) for a in n["args"]))

    def e_Array(self, n, env):
        return ("vec", tuple(("one", self.eval(a, env)) for a in n["args"]))

    def e_Repeat(self, n, env):
        v = self.eval(n["e"], env)
        m = re.search(r";\s*(\d+)\]", n.get("ty", ""))
        return ("vec", (("fill", C(int(m.group(1))) if m else ("unk", "repeat length"), v),))

    def e_Cast(self, n, env):
        v = self.eval(n["e"], env)
        return ("cast", n.get("ty"), v)

    def e_Unary(self, n, env):
        v = self.eval(n["e"], env)
        if n["op"] == "*":
            if v[0] == "slot":
                cur = env.get(v[1])
                if cur and cur[0] == "vec" and v[2] < len(cur[1]) and cur[1][v[2]][0] == "one":
                    return cur[1][v[2]][1]
                return ("unk", "slot read")
            return v
        if v[0] == "c" and n["op"] == "-" and isinstance(v[1], (int, float)):
            return C(-v[1])
        if v[0] == "c" and n["op"] == "-" and isinstance(v[1], str):
            return C("-" + v[1])
        return ("un", n["op"], v)

    def e_Binary(self, n, env):
        a = self.eval(n["l"], env)
        op = n["op"]
        if op in ("&&", "||"):
            b = self.eval(n["r"], env)
            return ("op", op, a, b)
        b = self.eval(n["r"], env)
        if a[0] == "c" and b[0] == "c" and isinstance(a[1], int) and isinstance(b[1], int) and not isinstance(a[1], bool):
            try:
                return C({"+": a[1] + b[1], "-": a[1] - b[1], "*": a[1] * b[1], "==": a[1] == b[1], "!=": a[1] != b[1], "<": a[1] < b[1], ">": a[1] > b[1]}[op])
            except KeyError:
                pass
        return ("op", op, a, b)

    def e_Field(self, n, env):
        return fld(self.eval(n["e"], env), n["f"])

    def e_Index(self, n, env):
        a = self.eval(n["l"], env)
        i = self.eval(n["r"], env)
        # element of a single-segment column at the running index of its own domain
        if a[0] == "vec" and len(a[1]) == 1 and a[1][0][0] == "seg" and i[0] == "idx" and norm_dom(i[1]) == norm_dom(a[1][0][1]):
            return a[1][0][2]
        if a[0] == "vec" and i[0] == "c" and isinstance(i[1], int) and all(s[0] == "one" for s in a[1]) and i[1] < len(a[1]):
            return a[1][i[1]][1]
        return ("app", "index", (a, i))

    def e_Struct(self, n, env):
        path = n.get("def")
        fields = tuple((f["f"], self.eval(f["e"], env)) for f in n["fields"])
        base = self.eval(n["base"], env) if "base" in n else None
        res = n.get("res", "")
        adt = self.prog.adts.get(path)
        if adt is None:
            ty = re.sub(r"<.*$", "", n.get("ty", ""))
            if ty in self.prog.adts and res in ("SelfTyAlias", "SelfCtor", "Struct"):
                path = ty
                adt = self.prog.adts[ty]
        if adt is not None and adt["kind"] == "Struct":
            names = [f["name"] for f in adt["variants"][0]["fields"]]
            d = dict(fields)
            if base is not None:
                for nm in names:
                    d.setdefault(nm, fld(base, nm))
            return ("st", path, tuple((nm, d[nm]) for nm in names if nm in d))
        if res == "Variant" or (adt is None and "::" in str(path)):
            # enum struct-variant or external struct
            return ("varn", path, fields) if res == "Variant" else ("st", path, fields)
        return ("st", path, fields)

    def e_Block(self, n, env):
        if "label" in n:
            try:
                return self.eval_block(n["b"], env)
            except Exit as e:
                if e.kind == "break":
                    return e.value or UNIT
                raise
        return self.eval_block(n["b"], env)

    def e_Ret(self, n, env):
        v = self.eval(n["e"], env) if "e" in n else UNIT
        raise Exit("return", v)

    def e_Break(self, n, env):
        raise Exit("break", self.eval(n["e"], env) if "e" in n else None)

    def e_Continue(self, n, env):
        raise Exit("continue")

    def e_Assign(self, n, env):
        v = self.eval(n["r"], env)
        self.assign(n["l"], v, env)
        return UNIT

    def e_AssignOp(self, n, env):
        cur = self.eval(n["l"], env)
        v = self.eval(n["r"], env)
        self.assign(n["l"], ("op", n["op"][:-1], cur, v), env)
        return UNIT

    def assign(self, place, v, env):
        p = core.strip(place)
        if p.get("k") == "Path" and p.get("res") == "local":
            tgt = env.get(p["lid"])
            if isinstance(tgt, tuple) and tgt and tgt[0] == "slot":
                # `*slot = v` (core.strip sees through the deref): write through to the array element
                cur = env.get(tgt[1])
                if cur and cur[0] == "vec" and tgt[2] < len(cur[1]):
                    segs = list(cur[1])
                    segs[tgt[2]] = ("one", v)
                    env[tgt[1]] = ("vec", tuple(segs))
                    return
            env[p["lid"]] = v
            return
        if p.get("k") == "Field":
            base = core.strip(p["e"])
            cur = self.eval(base, env)
            if cur[0] == "st":
                new = ("st", cur[1], tuple((f, (v if f == p["f"] else x)) for f, x in cur[2]))
                self.assign(base, new, env)
                return
        if p.get("k") == "Unary" and p.get("op") == "*":
            tgt = self.eval(p["e"], env)
            if tgt[0] == "slot":
                cur = env.get(tgt[1])
                if cur and cur[0] == "vec" and tgt[2] < len(cur[1]):
                    segs = list(cur[1])
                    segs[tgt[2]] = ("one", v)
                    env[tgt[1]] = ("vec", tuple(segs))
                    return
        if p.get("k") == "Index":
            base = core.strip(p["l"])
            # slice assignment blob[a..b] = ... handled by copy_from_slice prim
        raise Unsupported(f"assignment to {core.fingerprint(place, 3)}")

    def e_If(self, n, env):
        cnd = core.strip(n["c"]) if n["c"].get("k") == "DropTemps" else n["c"]
        if cnd.get("k") == "DropTemps":
            cnd = cnd["e"]
        if cnd.get("k") == "LetExpr":
            t = self.eval(cnd["init"], env)
            r = self.test(cnd["pat"], t)

            def then(e2):
                self.bind(cnd["pat"], t, e2)
                return self.eval(n["t"], e2)
        else:
            r = self.eval(cnd, env)
            if r[0] == "c":
                r = bool(r[1])

            def then(e2):
                return self.eval(n["t"], e2)

        def els(e2):
            return self.eval(n["f"], e2) if "f" in n else UNIT
        if r is True:
            return then(env)
        if r is False:
            return els(env)
        return self.branches([(r, then), (("not", r), els)], env, core.loc(n))

    def e_Match(self, n, env):
        src = n.get("src")
        if src == "TryDesugar":
            inner = core.as_try(n)
            t = self.eval(inner, env)
            return self.try_(t, core.loc(n))
        fl = core.as_for(n)
        if fl is not None:
            return self.for_loop(fl, env, core.loc(n))
        t = self.eval(n["e"], env)
        alts = []
        for arm in n["arms"]:
            r = self.test(arm["pat"], t)
            if r is False:
                continue
            if "guard" in arm:
                # a guard is a pure test over the arm's bindings: the arm applies when the pattern matches AND it holds
                e_g = dict(env)
                self.bind(arm["pat"], t, e_g)
                g = self.eval(arm["guard"], e_g)
                if g[0] == "c":
                    g = bool(g[1])
                if g is False:
                    continue
                if g is not True:
                    r = g if r is True else ("and", (r, g))

            def thunk(e2, arm=arm):
                self.bind(arm["pat"], t, e2)
                return self.eval(arm["body"], e2)
            alts.append((r, thunk))
            if r is True:
                break
        if not alts:
            raise Unsupported("no feasible match arm")
        return self.branches(alts, env, core.loc(n))

    def try_(self, t, loc):
        """value of `t?`"""
        if is_var(t, OK) or is_var(t, SOME):
            return t[2][0]
        if is_var(t, ERR) or is_var(t, NONE):
            self.emit(("alt", [(True, [], "err", None)], loc))
            raise Exit("return", t)
        if t[0] == "phi":
            oks = []
            bad = []
            for c, x in t[1]:
                if is_var(x, OK) or is_var(x, SOME):
                    oks.append((c, x[2][0]))
                elif is_var(x, ERR) or is_var(x, NONE):
                    bad.append(c)
                else:
                    oks.append((c, ("try", x)))
            if bad:
                # the failing alternatives leave through the error exit (a non-accepting path)
                self.emit(("alt", [(("or", tuple(bad)) if len(bad) > 1 else bad[0], [], "err", None), (True, [], None, None)], loc))
            if not oks:
                raise Exit("return", var(ERR, ("unk", "err")))
            return ("phi", tuple(oks)) if len(oks) > 1 else oks[0][1]
        if t[0] == "optmap":
            return t[2]
        # symbolic: the success payload; the error exit is a non-accepting path (made an explicit path on request)
        sp = getattr(self, "split_try", None)
        if sp is not None and sp(t):
            self.emit(("alt", [(("is", t, ERR), [], "err", None), (("is", t, OK), [], None, None)], loc))
        return ("try", t)

    def e_LetExpr(self, n, env):
        raise Unsupported("let expression outside if")

    def merge_breaks(self, env, breaks):
        """locals assigned on a path that left the loop through `break` may hold that value after the loop"""
        for cond, e2 in breaks:
            for k2, v2 in e2.items():
                if k2 in env and env[k2] != v2:
                    env[k2] = ("phi", ((cond, v2), (("else", (cond,)), env[k2])))

    def e_Loop(self, n, env):
        # generic loop: body interpreted once inside an unknown domain
        dom = ("dom", "loop@" + core.loc(n))
        self.loop_stack.append(dom)
        self.break_envs.append([])
        e2 = env
        res, evs, ex = self.sub_events(lambda: self.eval_block(n["b"], e2))
        self.loop_stack.pop()
        self.merge_breaks(env, self.break_envs.pop())
        if evs:
            self.emit(("rep", dom, evs, core.loc(n)))
        if ex and ex.kind == "return":
            raise ex
        return UNIT

    def e_Closure(self, n, env):
        cid = len(self.closures)
        self.closures[cid] = (n, env)     # by-reference capture of the defining environment
        return ("closure", cid)

    def call_closure(self, c, args):
        n, cenv = self.closures[c[1]]
        e2 = dict(cenv)
        for p, a in zip(n["params"], args):
            self.bind(p, a, e2)
        try:
            v = self.eval(n["body"], e2)
        except Exit as e:
            if e.kind == "return":
                v = e.value
            else:
                raise
        # propagate mutations of captured locals
        for k2 in cenv:
            if k2 in e2 and e2[k2] != cenv[k2]:
                cenv[k2] = e2[k2]
        return v

    # ------------------------------------------------------------------ loops / streams
    def to_stream(self, t):
        if t[0] == "stream":
            return t
        if t[0] == "vec":
            segs = t[1]
            if len(segs) == 1 and segs[0][0] == "seg" and segs[0][3] is None:
                return ("stream", segs[0][1], segs[0][2], ())
            if len(segs) == 1 and segs[0][0] == "fill":
                return ("stream", ("count", segs[0][1]), segs[0][2], ())
            if all(s[0] == "one" for s in segs):
                return ("stream", ("lit", len(segs)), ("oneof", tuple(s[1] for s in segs)), ())
            return ("stream", ("iter", t), ("elem", t), ())
        if t[0] == "range":
            return ("stream", t, ("idx", t), ())
        if t[0] in ("in", "fld", "payload", "app", "try", "rd"):
            return ("stream", ("iter", t), ("elem", t), ())
        if t[0] == "st" and t[1].startswith("core::ops::range::Range"):
            d = dict(t[2])
            r = ("range", d.get("start"), d.get("end"))
            return ("stream", r, ("idx", r), ())
        if t[0] == "phi":
            raise Unsupported("iteration over a phi value")
        raise Unsupported(f"iteration over {term_str(t, 3)}")

    def stream_elem(self, s):
        """materialise the element of a stream at the current loop position (adaptor closures run here)"""
        elem = s[2]
        for ad in s[3]:
            if ad[0] == "map":
                f = ad[1]
                if f[0] == "closure":
                    elem = self.call_closure(f, [elem])
                elif f[0] == "ctor":
                    elem = var(f[1], elem)
                elif f[0] == "fnref":
                    elem = self.call_path(f[1], [elem], f[2])
                else:
                    elem = ("app", "map", (f, elem))
            elif ad[0] == "enumerate":
                elem = ("tup", (("idx", s[1]), elem))
            elif ad[0] == "zip":
                other = ad[1]
                elem = ("tup", (elem, self.stream_elem(other)))
            else:
                raise Unsupported(f"adaptor {ad[0]}")
        return elem

    def for_loop(self, fl, env, loc, try_body=False):
        pat, it, body, _ = fl
        if try_body:
            plain_eval = self.eval

            def eval_body(b, e):
                v = plain_eval(b, e)
                return self.try_(v, loc)
        else:
            eval_body = self.eval
        s = self.to_stream(self.eval(it, env))
        dom = s[1]
        if s[2][0] == "oneof" and not s[3]:
            # a loop over a literal array: unroll
            for el in s[2][1]:
                self.bind(pat, el, env)
                try:
                    eval_body(body, env)
                except Exit as e:
                    if e.kind == "continue":
                        continue
                    if e.kind == "break":
                        break
                    raise
            return UNIT
        self.loop_stack.append(dom)
        self.break_envs.append([])

        def run():
            elem = self.stream_elem(s)
            self.bind(pat, elem, env)
            try:
                eval_body(body, env)
            except Exit as e:
                if e.kind == "continue":
                    return
                raise
        _, evs, ex = self.sub_events(run)
        self.loop_stack.pop()
        self.merge_breaks(env, self.break_envs.pop())
        if evs:
            self.emit(("rep", dom, evs, loc))
        if ex is not None and ex.kind == "return":
            # a return on some path inside the loop body was recorded as an alt exit; an unconditional return is odd
            raise ex
        return UNIT

    # ------------------------------------------------------------------ calls
    def e_Call(self, n, env):
        f = n["f"]
        if f.get("k") == "Path":
            res = f.get("res", "")
            path = f.get("inst") or f.get("def")
            if res.startswith("Ctor"):
                args = [self.eval(a, env) for a in n["args"]]
                if path in ("alloc::borrow::Cow::Borrowed", "alloc::borrow::Cow::Owned") and len(args) == 1:
                    return args[0]
                if f.get("ctor_of") == "Struct" or self.prog.adts.get(path, {}).get("kind") == "Struct":
                    adt = self.prog.adts.get(path)
                    if adt:
                        names = [x["name"] for x in adt["variants"][0]["fields"]]
                        return ("st", path, tuple(zip(names, args)))
                    return ("st", path, tuple((str(i), a) for i, a in enumerate(args)))
                return var(path, *args)
            if res == "local":
                fv = self.eval(f, env)
                args = [self.eval(a, env) for a in n["args"]]
                if fv[0] == "closure":
                    return self.call_closure(fv, args)
                return ("app", "callvalue", (fv,) + tuple(args))
            return self.call(n, path, f.get("def"), n["args"], env)
        fv = self.eval(f, env)
        args = [self.eval(a, env) for a in n["args"]]
        if fv[0] == "closure":
            return self.call_closure(fv, args)
        return ("app", "callvalue", (fv,) + tuple(args))

    def e_MethodCall(self, n, env):
        path = n.get("inst") or n.get("def")
        if n.get("m") in ("for_each", "try_for_each"):
            # `xs.iter().for_each(|x| body)` / `.try_for_each(|x| body)` is the loop `for x in xs.iter() { body }` /
            # `{ body? }` (the Err a `try_for_each` hands back is what `?` would have returned)
            fl = core.as_for(n)
            if fl is not None and not any(rx.search(path or "") for rx, _h in self.prims):
                self.for_loop(fl, env, core.loc(n), try_body=(n["m"] == "try_for_each"))
                return var(OK, UNIT) if n["m"] == "try_for_each" else UNIT
        return self.call(n, path, n.get("def"), [n["recv"]] + n["args"], env)

    def call(self, n, path, generic, arg_nodes, env):
        for rx, h in self.prims:
            if path and rx.search(path) or generic and rx.search(generic):
                return h(self, n, path, arg_nodes, env)
        r = self.std(n, path or "", generic or "", arg_nodes, env)
        if r is not NotImplemented:
            return r
        args = [self.eval(a, env) for a in arg_nodes]
        # `&mut` arguments that name a local struct / vector value: what the callee leaves in the parameter is written back
        wb = []
        for i, a in enumerate(arg_nodes):
            base = core.strip(a)
            while base.get("k") in ("AddrOf", "Unary") and base.get("k") != "Unary" or (base.get("k") == "AddrOf"):
                base = core.strip(base["e"])
            if base.get("k") in ("Path", "Field") and (base.get("res") == "local" or base.get("k") == "Field") and isinstance(args[i], tuple) and args[i] and args[i][0] in ("st", "vec"):
                wb.append((i, base, env))
        return self.call_path(path, args, generic, n, writeback=wb)

    def call_path(self, path, args, generic=None, n=None, writeback=()):
        fn = self.prog.fns.get(path)
        if fn is None and generic:
            fn = self.prog.fns.get(generic)
        if (path in self.opaque) or (generic in self.opaque):
            return ("app", path or generic, tuple(args))
        if fn is not None and fn.body is not None and fn.crate in core.LIB_CRATES and self.depth > 0:
            e2 = {}
            for p, a in zip(fn.params, args):
                self.bind(p, a, e2)
            self.depth -= 1
            self.const_env.append(const_args(fn, n))
            self.type_env.append(type_args(fn, n, self.type_env[-1]))
            def write_back():
                for i, place, cenv in writeback:
                    if i < len(fn.params) and (fn.params[i].get("ty") or "").startswith("&mut ") and fn.params[i].get("k") == "Binding":
                        v = e2.get(fn.params[i]["lid"])
                        if v is not None and v != args[i]:
                            try:
                                self.assign(place, v, cenv)
                            except Unsupported:
                                pass
            try:
                r = self.eval(fn.body, e2)
                write_back()
                return r
            except Exit as e:
                if e.kind == "return":
                    write_back()
                    return e.value
                raise
            finally:
                self.const_env.pop()
                self.type_env.pop()
                self.depth += 1
        return ("app", path or generic or "?", tuple(args))

    # -- models of std functions that matter for shapes
    def std(self, n, path, generic, arg_nodes, env):
        name = (generic or path).rsplit("::", 1)[-1]
        g = generic or path
        ev = lambda i: self.eval(arg_nodes[i], env)   # noqa: E731
        if g.startswith("core::ops::try_trait::Try::branch"):
            return ev(0)
        if g.startswith("core::ops::try_trait::FromResidual::from_residual"):
            return ev(0)
        if re.search(r"(core::clone::Clone::clone|core::borrow::Borrow::borrow|core::borrow::BorrowMut::borrow_mut|core::convert::AsRef::as_ref|core::convert::AsMut::as_mut|core::ops::deref::Deref::deref|core::ops::deref::DerefMut::deref_mut|alloc::borrow::ToOwned::to_owned|alloc::borrow::Cow::<'_, B>::into_owned|Cow::<'_, B>::to_mut)$", g):
            return ev(0)
        if re.search(r"(::as_slice|::as_mut_slice|::as_str|::as_bytes|::to_vec|::into_bytes|::into_boxed_slice|::as_deref|::as_deref_mut|Option::<T>::as_ref|Option::<T>::as_mut|::copied|::cloned|::make_contiguous|::iter_mut|String::from_utf8_lossy)$", g) and len(arg_nodes) == 1:
            v = ev(0)
            if name == "iter_mut" and v[0] == "vec":
                # a small local array iterated mutably: hand out one *slot* per element so that `*slot = e` in an
                # unrolled loop updates the array (`for (slot, tag) in arr.iter_mut().zip(&TAGS) { *slot = read(tag)? }`)
                base = core.strip(arg_nodes[0])
                while base.get("k") in ("AddrOf", "Unary"):
                    base = core.strip(base["e"])
                n_el = None
                if len(v[1]) == 1 and v[1][0][0] == "fill" and v[1][0][1][0] == "c" and isinstance(v[1][0][1][1], int) and v[1][0][1][1] <= 64:
                    n_el = v[1][0][1][1]
                    v = ("vec", tuple(("one", v[1][0][2]) for _ in range(n_el)))
                elif v[1] and all(sg[0] == "one" for sg in v[1]) and len(v[1]) <= 64:
                    n_el = len(v[1])
                if n_el is not None and base.get("k") == "Path" and base.get("res") == "local":
                    env[base["lid"]] = v
                    return ("stream", ("lit", n_el), ("oneof", tuple(("slot", base["lid"], i) for i in range(n_el))), ())
            if name in ("copied", "cloned", "iter_mut") and v[0] in ("vec", "stream"):
                return self.to_stream(v) if name == "iter_mut" else v
            return v
        if name == "chars" and g.endswith("str::<impl str>::chars"):
            v = ev(0)
            return ("stream", ("chars", v), ("elem", ("chars", v)), ())
        if name in ("iter", "into_iter", "drain", "bytes") and len(arg_nodes) >= 1 and re.search(r"(slice|vec|Vec|IntoIterator|VecDeque|Iterator|array|Option)", g):
            v = ev(0)
            if v[0] == "stream":
                return v
            try:
                return self.to_stream(v)
            except Unsupported:
                return ("stream", ("iter", v), ("elem", v), ())
        if g.endswith("iterator::Iterator::map") or g.endswith("Option::<T>::map") or g.endswith("Result::<T, E>::map"):
            recv, f = ev(0), ev(1)
            if recv[0] == "stream":
                return ("stream", recv[1], recv[2], recv[3] + (("map", f),))
            if is_var(recv, SOME) or is_var(recv, OK):
                inner = recv[2][0]
                if f[0] == "closure":
                    out = self.call_closure(f, [inner])
                elif f[0] == "ctor":
                    out = var(f[1], inner)
                elif f[0] == "fnref":
                    out = self.call_path(f[1], [inner], f[2])
                else:
                    out = ("app", "map", (f, inner))
                return var(recv[1], out)
            if is_var(recv, NONE):
                return recv
            if f[0] == "closure":
                inner = ("try", recv) if not g.endswith("iterator::Iterator::map") else recv
                return ("optmap", recv, self.call_closure(f, [("some_payload", recv)]))
            if f[0] == "ctor":
                return ("optmap", recv, var(f[1], ("some_payload", recv)))
            if f[0] == "fnref" and not g.endswith("iterator::Iterator::map"):
                return ("optmap", recv, self.call_path(f[1], [("some_payload", recv)], f[2]))
            return ("app", g, (recv, f))
        if g.endswith("iterator::Iterator::find_map") or g.endswith("iterator::Iterator::find") or g.endswith("iterator::Iterator::any") or g.endswith("iterator::Iterator::position"):
            # search over a stream: the (first) element for which the closure answers; kept as an opaque application
            # of the closure's result at the running element: ("app", "search:<kind>", (domain, result term, element))
            s = self.to_stream(ev(0))
            f = ev(1)
            dom = s[1]
            self.loop_stack.append(dom)
            try:
                elem = self.stream_elem(s)
                r = self.call_closure(f, [elem]) if f[0] == "closure" else ("app", "callvalue", (f, elem))
            finally:
                self.loop_stack.pop()
            return ("app", "search:" + g.rsplit("::", 1)[-1], (dom, r, elem))
        if g.endswith("iterator::Iterator::enumerate"):
            s = self.to_stream(ev(0))
            return ("stream", s[1], s[2], s[3] + (("enumerate",),))
        if g.endswith("iterator::Iterator::zip"):
            a = self.to_stream(ev(0))
            b = self.to_stream(ev(1))
            if a[2][0] == "oneof" and b[2][0] == "oneof" and not a[3] and not b[3] and len(a[2][1]) == len(b[2][1]):
                # two literal sequences of equal length: zip element-wise (the loop over it is unrolled)
                return ("stream", a[1], ("oneof", tuple(("tup", (x, y)) for x, y in zip(a[2][1], b[2][1]))), ())
            da, db = norm_dom(a[1]), norm_dom(b[1])
            if da != db:
                self.notes.append(f"zip of different domains {term_str(da, 3)} / {term_str(db, 3)} at {core.loc(n)}")
            return ("stream", a[1], a[2], a[3] + (("zip", b),))
        if g.endswith("iterator::Iterator::rev"):
            s = self.to_stream(ev(0))
            return ("stream", ("rev", s[1]), s[2], s[3])
        if g.endswith("iterator::Iterator::collect"):
            s = self.to_stream(ev(0))
            dom = s[1]
            self.loop_stack.append(dom)
            elem, evs, ex = self.sub_events(lambda: self.stream_elem(s))
            self.loop_stack.pop()
            if evs:
                self.emit(("rep", dom, evs, core.loc(n)))
            ty = n.get("ty", "")
            if ty.startswith("core::result::Result<"):
                return var(OK, ("vec", (("seg", dom, self.try_quiet(elem), None),)))
            return ("vec", (("seg", dom, elem, None),))
        if re.search(r"(Vec::<T>::new|Vec::<T>::with_capacity|VecDeque::<T>::new|VecDeque::<T>::with_capacity|String::new|Vec::<T, A>::with_capacity_in)$", g):
            for i in range(len(arg_nodes)):
                ev(i)
            return ("vec", ())
        if g == "alloc::vec::from_elem":
            return ("vec", (("fill", ev(1), ev(0)),))
        if re.search(r"(Vec::<T, A>::push|VecDeque::<T, A>::push_back)$", g):
            v = ev(1)
            self.push(arg_nodes[0], v, env, front=False)
            return UNIT
        if re.search(r"(Vec::<T, A>::extend_from_slice|<alloc::vec::Vec<T, A> as core::iter::traits::collect::Extend<.*>>::extend|core::iter::traits::collect::Extend::extend)$", g) and len(arg_nodes) == 2 \
                and "alloc::vec::Vec<" in ((core.strip(arg_nodes[0]).get("ty") or "") + (arg_nodes[0].get("aty") or "")):
            tgt = core.strip(arg_nodes[0])
            while tgt.get("k") in ("AddrOf", "Unary"):
                tgt = core.strip(tgt["e"])
            if tgt.get("k") == "Field" or (tgt.get("k") == "Path" and tgt.get("res") == "local" and isinstance(env.get(tgt.get("lid")), tuple) and env[tgt["lid"]][0] == "vec"):
                v = ev(1)
                try:
                    self.push(arg_nodes[0], v, env, front=False, whole=True)
                    return UNIT
                except Unsupported:
                    pass
        if re.search(r"(Hash|BTree|AHash|Index)Map<.*> as core::iter::traits::collect::Extend<.*>>::extend$|core::iter::traits::collect::Extend::extend$", g) and len(arg_nodes) == 2 \
                and re.search(r"(Hash|BTree|AHash|Index)Map<", (core.strip(arg_nodes[0]).get("ty") or "") + (arg_nodes[0].get("aty") or "")):
            # `map.extend(pairs)` is `for (k, v) in pairs { map.insert(k, v); }`: one insert sink per element, so that a
            # rule that watches the map's inserts sees the same thing in either spelling
            m = ev(0)
            st = self.to_stream(ev(1))
            dom = st[1]
            self.loop_stack.append(dom)

            def one():
                el = self.stream_elem(st)
                if isinstance(el, tuple) and el and el[0] == "tup" and len(el[1]) == 2:
                    self.emit(("sink", "insert", ("tup", (m, el[1][0], el[1][1])), core.loc(n)))
                else:
                    self.emit(("sink", "insert", ("tup", (m, ("app", "pair.0", (el,)), ("app", "pair.1", (el,)))), core.loc(n)))
            _, evs, ex = self.sub_events(one)
            self.loop_stack.pop()
            if evs:
                self.emit(("rep", dom, evs, core.loc(n)))
            return UNIT
        if g.endswith("VecDeque::<T, A>::push_front"):
            v = ev(1)
            self.push(arg_nodes[0], v, env, front=True)
            return UNIT
        mre = re.search(r"(?:slice::<impl \[T\]>|Vec::<T, A>|VecDeque::<T, A>)::(sort|sort_by|sort_by_key|sort_by_cached_key|sort_unstable|sort_unstable_by|sort_unstable_by_key|reverse|rotate_left|rotate_right|dedup|dedup_by|dedup_by_key|retain|retain_mut|swap|swap_remove|truncate)$", g)
        if mre and arg_nodes:
            # in-place reordering / thinning of a sequence: what is iterated afterwards is no longer the sequence that
            # was built — the place now holds `reordered:<how>(old)`, so that a loop over it does not pass for a loop
            # over the original
            tgt = core.strip(arg_nodes[0])
            while tgt.get("k") in ("AddrOf", "Unary") or (tgt.get("k") == "MethodCall" and tgt["m"] in ("as_mut_slice", "as_mut", "deref_mut", "make_contiguous") and not tgt["args"]):
                tgt = core.strip(tgt["e"] if "e" in tgt else tgt["recv"])
            if tgt.get("k") in ("Field",) or (tgt.get("k") == "Path" and tgt.get("res") == "local"):
                try:
                    old = self.eval(tgt, env)
                    for i in range(1, len(arg_nodes)):
                        if core.strip(arg_nodes[i]).get("k") != "Closure":
                            ev(i)
                    self.assign(tgt, ("app", "reordered:" + mre.group(1), (old,)), env)
                    return UNIT
                except Unsupported:
                    pass
        if re.search(r"(::len|::count)$", g) and len(arg_nodes) == 1:
            v = ev(0)
            if v[0] == "stream":
                return ("len", norm_dom(v[1]))
            if v[0] == "vec":
                segs = v[1]
                if len(segs) == 1 and segs[0][0] == "seg" and segs[0][3] is None:
                    return ("len", norm_dom(segs[0][1]))
                if len(segs) == 1 and segs[0][0] == "fill":
                    return segs[0][1]
                if all(s[0] == "one" for s in segs):
                    return C(len(segs))
                return ("len", ("iter", v))
            return ("len", ("iter", v))
        if g.endswith("Option::<T>::and_then") and len(arg_nodes) == 2 and not (core.strip(arg_nodes[0]).get("k") == "MethodCall" and core.strip(arg_nodes[0]).get("m") == "ok"):
            # (an Option that is `result.ok()` keeps its Result variants in this model: left to the generic application)
            # `a.and_then(|x| f(x))`: `match a { Some(x) => f(x), None => None }`
            v = ev(0)
            f = ev(1)

            def hit(e2):
                inner = v[2][0] if (is_var(v, SOME) or is_var(v, OK)) else payload(v, SOME, 0)
                if f[0] == "closure":
                    return self.call_closure(f, [inner])
                if f[0] == "fnref":
                    return self.call_path(f[1], [inner], f[2])
                if f[0] == "ctor":
                    return var(f[1], inner)
                return ("app", "callvalue", (f, inner))
            if is_var(v, SOME) or is_var(v, OK):       # (`.ok()` leaves the Ok variant in place in this model)
                return hit(env)
            if is_var(v, NONE) or is_var(v, ERR):
                return var(NONE)
            if not (isinstance(v, tuple) and v and v[0] in ("app", "fld", "in", "phi", "payload", "optmap", "try")):
                return NotImplemented
            c_some = ("is", v, SOME)
            return self.branches([(c_some, hit), (("not", c_some), lambda e2: var(NONE))], env, core.loc(n))
        if re.search(r"bool>?::(then|then_some)$", g) and len(arg_nodes) == 2:
            # `cond.then(|| x)` / `cond.then_some(x)`: `if cond { Some(x) } else { None }`
            b = ev(0)

            def yes(e2):
                if g.endswith("then_some"):
                    return var(SOME, self.eval(arg_nodes[1], e2))
                f = self.eval(arg_nodes[1], e2)
                if f[0] == "closure":
                    return var(SOME, self.call_closure(f, []))
                if f[0] == "fnref":
                    return var(SOME, self.call_path(f[1], [], f[2]))
                return var(SOME, ("app", "callvalue", (f,)))
            if b == C(True) or b is True:
                return yes(env)
            if b == C(False) or b is False:
                return var(NONE)
            return self.branches([(b, yes), (("not", b), lambda e2: var(NONE))], env, core.loc(n))
        if re.search(r"Option::<.*>::flatten$", g) and len(arg_nodes) == 1:
            v = ev(0)
            if is_var(v, SOME):
                return v[2][0]
            if is_var(v, NONE):
                return v
            if isinstance(v, tuple) and v and v[0] == "phi":
                alts = []
                for cnd, x in v[1]:
                    if is_var(x, SOME):
                        alts.append((cnd, x[2][0]))
                    elif is_var(x, NONE):
                        alts.append((cnd, x))
                    else:
                        alts = None
                        break
                if alts:
                    return ("phi", tuple(alts))
            return ("app", g, (v,))
        if re.search(r"Option::<T>::(or_else|unwrap_or_else|or)$", g) and len(arg_nodes) == 2:
            # `a.or_else(|| b)` / `a.unwrap_or_else(|| d)` / `a.or(b)`: the same two-way decision as
            # `match a { Some(x) => .., None => .. }`, so that the paths (and the order of the lookups) are visible
            v = ev(0)
            unwrap = g.endswith("unwrap_or_else")
            if is_var(v, SOME):
                return v[2][0] if unwrap else v
            kind = g.rsplit("::", 1)[-1]

            def hit(e2):
                return payload(v, SOME, 0) if unwrap else v

            def miss(e2):
                if kind == "or":
                    return self.eval(arg_nodes[1], e2)
                f = self.eval(arg_nodes[1], e2)
                if f[0] == "closure":
                    return self.call_closure(f, [])
                if f[0] == "fnref":
                    return self.call_path(f[1], [], f[2])
                return ("app", "callvalue", (f,))
            if is_var(v, NONE):
                return miss(env)
            c_some = ("is", v, SOME)
            return self.branches([(c_some, hit), (("not", c_some), miss)], env, core.loc(n))
        if re.search(r"(Option::<T>::unwrap_or_default|Option::<T>::unwrap_or|Result::<T, E>::unwrap_or_default)$", g):
            v = ev(0)
            if is_var(v, SOME) or is_var(v, OK):
                return v[2][0]
            if is_var(v, NONE) or is_var(v, ERR):
                return ev(1) if len(arg_nodes) > 1 else ("default", n.get("ty", ""))
            look = v
            while isinstance(look, tuple) and look and look[0] == "app" and isinstance(look[1], str) and look[1].endswith(("::copied", "::cloned")) and len(look[2]) == 1:
                look = look[2][0]
            if len(arg_nodes) > 1 and isinstance(look, tuple) and look and look[0] == "app" and isinstance(look[1], str) and re.search(r"Map<.*>::get$|Map::<K, V(, S)?(, A)?>::get$", look[1]):
                # `map.get(k).copied().unwrap_or(d)` is `if let Some(x) = map.get(k) { *x } else { d }`: the same two-way
                # decision on the lookup, so that both spellings give the same paths
                c_some = ("is", look, SOME)
                return self.branches([(c_some, lambda e2: payload(look, SOME, 0)), (("not", c_some), lambda e2: self.eval(arg_nodes[1], e2))], env, core.loc(n))
            d = ev(1) if len(arg_nodes) > 1 else ("default", n.get("ty", ""))
            return ("unwrap_or", v, d)
        if re.search(r"(Option::<T>::unwrap|Option::<T>::expect|Result::<T, E>::unwrap|Result::<T, E>::expect)$", g):
            v = ev(0)
            if is_var(v, SOME) or is_var(v, OK):
                return v[2][0]
            return ("try", v)
        if re.search(r"(Option::<T>::ok_or|Option::<T>::ok_or_else|Result::<T, E>::map_err|Result::<T, E>::ok|Option::<T>::ok)$", g):
            v = ev(0)
            if is_var(v, SOME):
                return var(OK, v[2][0])
            return v
        if g.endswith("core::convert::Into::into") or g.endswith("core::convert::From::from"):
            v = ev(0)
            tgt = n.get("ty", "")
            return self.convert(v, core.strip(arg_nodes[0]).get("ty", "") if g.endswith("Into::into") else arg_nodes[0].get("ty", ""), tgt, path, n)
        if g.startswith("core::panicking::") or g.startswith("std::rt::begin_panic") or g.startswith("core::option::unwrap_failed") or g.startswith("core::result::unwrap_failed"):
            self.emit(("alt", [(True, [], "err", None)], core.loc(n)))
            raise Exit("return", var(ERR, C("panic")))
        if g.startswith("core::fmt::") or g.startswith("log::") or g.startswith("alloc::fmt::") or "::fmt::" in g:
            return ("app", "fmt", ())
        return NotImplemented

    def try_quiet(self, t):
        if is_var(t, OK) or is_var(t, SOME):
            return t[2][0]
        return ("try", t)

    def convert(self, v, src_ty, tgt_ty, path, n):
        src_ty = (src_ty or "").lstrip("&").strip()
        src_ty = self.type_env[-1].get(src_ty, src_ty)
        tgt_ty = self.type_env[-1].get(tgt_ty, tgt_ty)
        if tgt_ty == src_ty:
            return v
        # From between primitive scalars is the lossless `as` cast
        PRIM = {"u8", "u16", "u32", "u64", "u128", "usize", "i8", "i16", "i32", "i64", "i128", "isize", "f32", "f64", "bool", "char"}
        if tgt_ty in PRIM and src_ty in PRIM:
            return ("cast", tgt_ty, v)
        # Into<Variant>: wrap in the variant whose payload type is the source type
        adt = self.prog.adts.get(tgt_ty)
        if adt is not None and adt["kind"] == "Enum":
            cands = [vv for vv in adt["variants"] if len(vv["fields"]) == 1 and vv["fields"][0]["ty"] == src_ty]
            if len(cands) == 1:
                return var(f"{tgt_ty}::{cands[0]['name']}", v)
        # workspace From impl: inline
        if path and path in self.prog.fns and self.prog.fns[path].crate in core.LIB_CRATES:
            return self.call_path(path, [v])
        for st_ in (src_ty, "&" + src_ty, "&'a " + src_ty, src_ty.replace("&", "")):
            imp = self.prog.fns.get(f"<{tgt_ty} as core::convert::From<{st_}>>::from")
            if imp is not None:
                return self.call_path(imp.path, [v])
        if v[0] == "var" and v[1] in ("alloc::borrow::Cow::Borrowed", "alloc::borrow::Cow::Owned") and len(v[2]) == 1:
            return self.convert(v[2][0], src_ty, tgt_ty, path, n)
        if tgt_ty.startswith("alloc::string::String") or tgt_ty in ("alloc::vec::Vec<u8>", "ustr::Ustr", "alloc::borrow::Cow<'_, str>"):
            return v
        return ("app", f"into<{core.short(tgt_ty)}>", (v,))

    def push(self, place, v, env, front, whole=False):
        """append `v` (an element; with whole=True a collection whose elements are appended) to the vector at `place`"""
        p = core.strip(place)
        while p.get("k") in ("AddrOf", "Unary"):
            p = core.strip(p["e"])
        if p.get("k") == "Field":
            # a vector-typed field of a struct value held in a local
            cur = self.eval(p, env)
            if cur[0] in ("in", "fld", "app"):
                self.notes.append(f"push onto opaque collection {term_str(cur, 2)} at {core.loc(place)}")
                return
            if cur[0] != "vec":
                raise Unsupported("push on a non-vector value")
            self.assign(p, ("vec", cur[1] + self._segs(v, front, whole)), env)
            return
        if not (p.get("k") == "Path" and p.get("res") == "local"):
            raise Unsupported(f"push on {core.fingerprint(place, 3)}")
        cur = env.get(p["lid"], ("vec", ()))
        if whole:
            if cur[0] in ("in", "fld", "app"):
                self.notes.append(f"extend of opaque collection {term_str(cur, 2)} at {core.loc(place)}")
                return
            if cur[0] != "vec":
                raise Unsupported("extend on a non-vector value")
            env[p["lid"]] = ("vec", cur[1] + self._segs(v, front, whole))
            return
        if cur[0] in ("in", "fld", "app"):
            # an opaque collection (a parameter, a field): it absorbs the element; iterating it later yields its
            # generic element.  Recorded so that a rule that depends on the contents can refuse.
            self.notes.append(f"push onto opaque collection {term_str(cur, 2)} at {core.loc(place)}")
            return
        if cur[0] != "vec":
            raise Unsupported("push on a non-vector value")
        if self.loop_stack:
            seg = ("seg", self.loop_stack[-1], v, None)
        else:
            seg = ("one", v)
        if front and self.loop_stack:
            seg = ("seg", ("rev", self.loop_stack[-1]), v, None)
        env[p["lid"]] = ("vec", (seg,) + cur[1]) if front else ("vec", cur[1] + (seg,))


    def _segs(self, v, front, whole):
        if whole:
            if isinstance(v, tuple) and v and v[0] == "vec":
                return v[1]
            return (("seg", ("iter", v), ("elem", v), None),)
        if self.loop_stack:
            return (("seg", ("rev", self.loop_stack[-1]) if front else self.loop_stack[-1], v, None),)
        return (("one", v),)


# ---------------------------------------------------------------------------- path enumeration over events

def split_generic_args(s):
    """top-level comma split of `A, B<C, D>, fn(E) -> F`"""
    out, depth, cur = [], 0, ""
    for i, ch in enumerate(s):
        if ch in "<([{":
            depth += 1
        elif ch in ">)]}" and not (ch == ">" and i > 0 and s[i - 1] == "-"):
            depth -= 1
        if ch == "," and depth == 0:
            out.append(cur.strip())
            cur = ""
        else:
            cur += ch
    if cur.strip():
        out.append(cur.strip())
    return out


def type_args(fn, call_node, outer=None):
    """{type parameter name: concrete type} for an inlined call of a generic function, from the callee's generic
    parameter names (fact `generics`) and the instantiation recorded at the call (`path::<A, B>`)"""
    names = fn.d.get("generics") or []
    if call_node is None or not names:
        return {}
    f = call_node.get("f") if call_node.get("k") == "Call" else None
    da = (f or {}).get("defargs") or call_node.get("defargs") or ""
    i = da.rfind("::<")
    if i < 0 or not da.endswith(">"):
        return {}
    args = [a for a in split_generic_args(da[i + 3:-1]) if not a.startswith("'")]
    if len(args) != len(names):
        return {}
    out = dict(zip(names, args))
    # arguments that are themselves parameters of the caller resolve through the caller's environment
    if outer:
        out = {k: outer.get(v, v) for k, v in out.items()}
    return out


def const_args(fn, call_node):
    """{const generic name: value} for an inlined call, read off by unifying the callee's declared return type with the
    type of the call expression (`Result<[u8; N], E>` vs `Result<[u8; 4], E>`)"""
    if call_node is None:
        return {}
    sig = fn.d.get("sig") or ""
    ret = sig.rsplit(" -> ", 1)[-1] if " -> " in sig else ""
    got = call_node.get("ty") or ""
    names = re.findall(r"; (\w+)\]", ret)
    vals = re.findall(r"; (\w+)\]", got)
    out = {}
    if len(names) == len(vals):
        for a, b in zip(names, vals):
            if not a.isdigit() and b.isdigit():
                out[a] = int(b)
    return out


def subst_const_type(ty, cenv):
    """`[u8; N]` -> `[u8; 4]` under the current const-generic environment"""
    if not ty or not cenv:
        return ty
    return re.sub(r"; (\w+)\]", lambda m: f"; {cenv[m.group(1)]}]" if m.group(1) in cenv else m.group(0), ty)


def negate(cond):
    if isinstance(cond, tuple) and cond and cond[0] == "not":
        return cond[1]
    return ("not", cond)


def expand_else(cond):
    """('else', prevs) -> tuple of negated previous conditions; other conditions -> (cond,)"""
    if isinstance(cond, tuple) and cond and cond[0] == "else":
        return tuple(negate(p) for p in cond[1])
    if cond is True:
        return ()
    return (cond,)


def resolve(t, conds):
    """select the alternative of every phi in term t that is consistent with the path conditions"""
    if not isinstance(t, tuple) or not t:
        return t
    if t[0] == "phi":
        cs = set(conds)
        for cond, x in t[1]:
            need = expand_else(cond)
            if all(c in cs for c in need):
                return resolve(x, conds)
        return tuple(resolve(x, conds) if isinstance(x, tuple) else x for x in t)
    return tuple(resolve(x, conds) if isinstance(x, tuple) else x for x in t)


def event_paths(events, limit=512):
    """[(conds tuple, [flat events], exit kind | None, exit value)] — every way through an event list
    (alt = choice, rep kept as one event).  Error exits are included with their kind."""
    paths = [((), [], None, None)]
    for e in events:
        if e[0] != "alt":
            paths = [(c, evs + [e], x, v) if x is None else (c, evs, x, v) for c, evs, x, v in paths]
            continue
        new = []
        for c, evs, x, v in paths:
            if x is not None:
                new.append((c, evs, x, v))
                continue
            covered = False
            for alt in e[1]:
                cond, sub, xk = alt[0], alt[1], alt[2]
                xv = alt[3] if len(alt) > 3 else None
                if cond is True or (isinstance(cond, tuple) and cond and cond[0] == "else"):
                    covered = True
                for sc, sevs, sx, sv in event_paths(sub, limit):
                    new.append((c + expand_else(cond) + sc, evs + sevs, sx if sx is not None else xk, sv if sx is not None else xv))
            if not covered:
                # no alternative taken: the conditions of all alternatives are false
                new.append((c + tuple(negate(alt[0]) for alt in e[1] if alt[0] is not True), evs, None, None))
        paths = [pp for pp in new if consistent(pp[0])]
        if len(paths) > limit:
            raise Unsupported("too many paths")
    return paths


def consistent(conds):
    cs = set(conds)
    return not any(negate(c) in cs for c in cs)


def value_alternatives(t):
    """[(conds, value)] — top-level phi alternatives of a value, flattened"""
    if isinstance(t, tuple) and t and t[0] == "phi":
        out = []
        for cond, x in t[1]:
            for cs, v in value_alternatives(x):
                out.append((expand_else(cond) + cs, v))
        return out
    return [((), t)]


def find_phi(t):
    if isinstance(t, tuple) and t:
        if t[0] == "phi":
            return t
        for x in t:
            r = find_phi(x)
            if r is not None:
                return r
    return None


def replace_term(t, old, new):
    if t == old:
        return new
    if isinstance(t, tuple):
        return tuple(replace_term(x, old, new) for x in t)
    return t


def split_phis(t, conds=(), limit=2048):
    """[(conds, t')] — every phi inside t expanded into its alternatives (consistent with conds), t' phi-free"""
    out = []
    work = [(tuple(conds), t)]
    while work:
        cs, cur = work.pop()
        cur = resolve(cur, cs)
        ph = find_phi(cur)
        if ph is None:
            out.append((cs, cur))
            continue
        for cond, x in ph[1]:
            c2 = cs + expand_else(cond)
            if consistent(c2):
                work.append((c2, replace_term(cur, ph, x)))
        if len(out) + len(work) > limit:
            raise Unsupported("too many phi alternatives")
    return out


def value_points(events, final_val, conds=(), loops=()):
    """every way a region produces its value: [(conds, value, enclosing loop domains)] — `return v` exits at any depth
    (inside loops too) in program order, then the alternatives of the fall-through value"""
    out = []
    cur = tuple(conds)

    def walk(evs, cs, lp):
        for e in evs:
            if e[0] == "rep":
                walk(e[2], cs, lp + (e[1],))
            elif e[0] == "alt":
                taken_none = []
                for alt in e[1]:
                    cond, sub, xk = alt[0], alt[1], alt[2]
                    xv = alt[3] if len(alt) > 3 else None
                    c2 = cs + expand_else(cond)
                    if xk == "return":
                        walk(sub, c2, lp)
                        out.append((c2, xv, lp))
                    elif xk is None:
                        walk(sub, c2, lp)
                    if cond is not True:
                        taken_none.append(negate(cond))
                # continuing past the alt: alternatives that exited contribute their negation
                exits = [alt for alt in e[1] if alt[2] is not None]
                for alt in exits:
                    if alt[0] is not True and not (isinstance(alt[0], tuple) and alt[0] and alt[0][0] == "else"):
                        cs = cs + (negate(alt[0]),)
        return cs
    cs = walk(events, cur, tuple(loops))
    if final_val is not None:
        for c2, v in split_phis(final_val, cs):
            out.append((c2, v, tuple(loops)))
    return out


# ---------------------------------------------------------------------------- finite valuation of conditions

class Undetermined(Exception):
    pass


def eval_bool(t, oracle):
    """truth value of a condition term under `oracle(leaf term) -> bool | None` (None = not a leaf it knows);
    understands not / ! / and / or / && / || / else / phi / constants / Option::map_or over a known-or-unknown Option"""
    if t is True:
        return True
    if not isinstance(t, tuple) or not t:
        raise Undetermined(repr(t))
    r = oracle(t)
    if r is not None:
        return r
    k = t[0]
    if k == "c" and isinstance(t[1], bool):
        return t[1]
    if k == "not":
        return not eval_bool(t[1], oracle)
    if k == "un" and t[1] == "!":
        return not eval_bool(t[2], oracle)
    if k == "and":
        return all(eval_bool(x, oracle) for x in t[1])
    if k == "or":
        return any(eval_bool(x, oracle) for x in t[1])
    if k == "else":
        return not any(eval_bool(x, oracle) for x in t[1])
    if k == "op" and t[1] in ("||", "&&"):
        a = eval_bool(t[2], oracle)
        if t[1] == "||":
            return a or eval_bool(t[3], oracle)
        return a and eval_bool(t[3], oracle)
    if k == "op" and t[1] in ("==", "!=") and t[3][0] == "c" and isinstance(t[3][1], bool):
        a = eval_bool(t[2], oracle)
        return (a == t[3][1]) if t[1] == "==" else (a != t[3][1])
    if k == "phi":
        for cond, x in t[1]:
            if eval_bool(cond, oracle):
                return eval_bool(x, oracle)
        raise Undetermined("phi without a true alternative")
    if k == "app" and t[1].endswith("::map_or") and len(t[2]) == 3:
        recv, dflt, f = t[2]
        if eval_bool(("is", recv, SOME), oracle):
            if f[0] == "fnref":
                return eval_bool(("app", f[1], (payload(recv, SOME, 0),)), oracle)
            raise Undetermined("map_or with a non-function-item closure")
        return eval_bool(dflt, oracle)
    if k == "app" and t[1].endswith(("::is_some_and",)) and len(t[2]) == 2:
        recv, f = t[2]
        if eval_bool(("is", recv, SOME), oracle):
            if f[0] == "fnref":
                return eval_bool(("app", f[1], (payload(recv, SOME, 0),)), oracle)
            raise Undetermined("is_some_and with a closure")
        return False
    if k == "is" and t[2] == NONE:
        return not eval_bool(("is", t[1], SOME), oracle)
    raise Undetermined(term_str(t, 4))


def taken_path(events, oracle, val=None):
    """flat list of the non-alt events executed under the oracle (alternatives chosen by eval_bool), the exit taken
    (kind, value) if any, and the resolved value"""
    out = []

    def walk(evs):
        for e in evs:
            if e[0] != "alt":
                out.append(e)
                continue
            for alt in e[1]:
                if eval_bool(alt[0], oracle):
                    x = walk(alt[1])
                    if x is not None:
                        return x
                    if alt[2] is not None:
                        return (alt[2], alt[3] if len(alt) > 3 else None)
                    break
        return None
    ex = walk(events)
    return out, ex
