"""sa.discipline — who-may-write / who-may-call tables from MIR (field places, &mut borrows, aggregates),
ordered-container API discipline, simple must-pass-through on the MIR CFG."""
import re

from . import core


def place_fields(place):
    """named field projections of a MIR place: ['rbx_dom_weak::instance::Instance.children', ...]"""
    return [p for p in (place.get("proj") or []) if isinstance(p, str) and "." in p and not p.startswith("as ") and not p[0].isdigit()]


def last_field(place):
    f = place_fields(place)
    return f[-1] if f else None


FORWARDERS = re.compile(r"(::DerefMut>::deref_mut$|::deref_mut$|::as_mut$|::as_mut_slice$|::borrow_mut$)")


def field_mutations(fn):
    """All MIR-level mutations of named ADT fields in fn:
       {'field': 'Adt.field', 'how': 'assign' | 'call:<callee>' | 'borrow_mut', 'sp': ..., 'whole': bool}
    `whole` is True when the assigned/borrowed place ends exactly at the field (not a sub-place of it).
    &mut borrows are followed function-wide through moves, reborrows and deref_mut-style forwarders to the
    call that finally receives them."""
    out = []
    if not fn.mir:
        return out
    blocks = fn.mir["blocks"]
    borrows = {}   # local -> (field, whole, sp, x)
    used = set()
    for _pass in range(3):
        for bb in blocks:
            for st in bb["stmts"]:
                if st["k"] != "assign":
                    continue
                lhs = st["lhs"]
                if lhs.get("proj"):
                    continue
                rk = st.get("rk")
                ops = st.get("ops") or []
                if rk == "ref:mut" and ops:
                    src = ops[0]
                    sf = place_fields(src)
                    if sf:
                        proj = src.get("proj") or []
                        borrows.setdefault(lhs["l"], (sf[-1], proj[-1] == sf[-1], st.get("sp", ""), st.get("x")))
                    elif src.get("proj") == ["*"] and src["l"] in borrows:
                        borrows.setdefault(lhs["l"], borrows[src["l"]])
                        used.add(src["l"])
                elif rk and (rk == "use" or rk.startswith("cast:")) and ops and ops[0].get("k") == "place" and not ops[0].get("proj") and ops[0]["l"] in borrows:
                    borrows.setdefault(lhs["l"], borrows[ops[0]["l"]])
                    used.add(ops[0]["l"])
            t = bb["term"]
            if t["k"] == "call":
                callee = t.get("inst") or t.get("fn") or "?"
                if FORWARDERS.search(callee):
                    for a in t.get("args", []):
                        if a.get("k") == "place" and not a.get("proj") and a["l"] in borrows and not t["dest"].get("proj"):
                            borrows.setdefault(t["dest"]["l"], borrows[a["l"]])
                            used.add(a["l"])
    for bb in blocks:
        for st in bb["stmts"]:
            if st["k"] != "assign":
                continue
            lhs = st["lhs"]
            lf = place_fields(lhs)
            if lf:
                proj = lhs.get("proj") or []
                out.append({"field": lf[-1], "how": "assign", "sp": st.get("sp", ""), "whole": bool(proj and proj[-1] == lf[-1]), "x": st.get("x")})
            if st.get("rk") == "ref:mut" and st.get("ops") and lhs.get("proj"):
                sf = place_fields(st["ops"][0])
                if sf:
                    out.append({"field": sf[-1], "how": "borrow_mut", "sp": st.get("sp", ""), "whole": True, "x": st.get("x")})
        t = bb["term"]
        if t["k"] == "call":
            callee = t.get("inst") or t.get("fn") or "?"
            if FORWARDERS.search(callee):
                continue
            for a in t.get("args", []):
                if a.get("k") == "place" and not a.get("proj") and a["l"] in borrows:
                    f, whole, sp, x = borrows[a["l"]]
                    out.append({"field": f, "how": "call:" + callee, "sp": t.get("sp", sp), "whole": whole, "x": x, "generic": t.get("fn")})
                    used.add(a["l"])
    for l, (f, whole, sp, x) in borrows.items():
        if l not in used:
            out.append({"field": f, "how": "borrow_mut", "sp": sp, "whole": whole, "x": x})
    return out


def aggregates(fn, adt_path):
    """MIR aggregate constructions of the given ADT in fn."""
    out = []
    if not fn.mir:
        return out
    for bb in fn.mir["blocks"]:
        for st in bb["stmts"]:
            rk = st.get("rk", "")
            if rk.startswith("agg:" + adt_path + "::"):
                out.append(st)
    return out


def mir_calls(fn):
    """[(block index, callee (resolved), generic callee, term)]"""
    out = []
    if not fn.mir:
        return out
    for i, bb in enumerate(fn.mir["blocks"]):
        t = bb["term"]
        if t["k"] == "call":
            out.append((i, t.get("inst") or t.get("fn"), t.get("fn"), t))
    return out


def mir_calls_carrying(fn, rx):
    """block indices of MIR calls that run a function matching `rx`: direct calls, and calls that are handed a closure
    of this function whose body (transitively through nested closures) calls one — `xs.iter().try_for_each(|x| f(x))?`
    runs `f` where `for x in xs { f(x)? }` does.  The MIR call is matched to its HIR node by span."""
    import re as _re
    from . import core
    rxc = _re.compile(rx)
    out = set()
    carriers = set()
    if fn.body is not None:
        for n in core.walk_fn(fn, into_closures=False):
            if n.get("k") in ("Call", "MethodCall"):
                args = list(n.get("args") or [])
                for a in args:
                    a0 = core.strip(a)
                    if a0.get("k") == "Closure" and any(y.get("k") in ("Call", "MethodCall") and rxc.search(core.callee(y) or "") for y in core.walk(a0["body"])):
                        carriers.add(n.get("sp"))
    for i, cal, g, t in mir_calls(fn):
        if cal and rxc.search(cal):
            out.add(i)
        elif t.get("sp") in carriers:
            out.add(i)
    return out


# ---------------------------------------------------------------------------------- CFG utilities

class CFG:
    def __init__(self, fn, with_unwind=False):
        self.n = len(fn.mir["blocks"])
        self.succ = [[] for _ in range(self.n)]
        self.pred = [[] for _ in range(self.n)]
        self.blocks = fn.mir["blocks"]
        for i, bb in enumerate(self.blocks):
            t = bb["term"]
            tg = list(t.get("targets", []))
            if with_unwind and "unwind" in t:
                tg.append(t["unwind"])
            for j in tg:
                self.succ[i].append(j)
                self.pred[j].append(i)
        self.returns = [i for i, bb in enumerate(self.blocks) if bb["term"]["k"] == "return"]

    def reachable_from(self, start, avoid=()):
        seen = set()
        stack = [start]
        avoid = set(avoid)
        while stack:
            x = stack.pop()
            if x in seen or x in avoid:
                continue
            seen.add(x)
            stack.extend(self.succ[x])
        return seen

    def dominators(self):
        """dom[i] = set of blocks dominating i (entry 0)."""
        n = self.n
        reach = self.reachable_from(0)
        dom = {i: set(reach) for i in reach}
        dom[0] = {0}
        changed = True
        order = sorted(reach)
        while changed:
            changed = False
            for i in order:
                if i == 0:
                    continue
                ps = [p for p in self.pred[i] if p in reach]
                new = set.intersection(*(dom[p] for p in ps)) if ps else set()
                new = new | {i}
                if new != dom[i]:
                    dom[i] = new
                    changed = True
        return dom

    def postdominators(self):
        """pdom[i] = set of blocks post-dominating i (virtual exit = every block without successors)."""
        nodes = list(range(self.n))
        exits = [i for i in nodes if not self.succ[i]]
        pdom = {i: set(nodes) for i in nodes}
        for e in exits:
            pdom[e] = {e}
        changed = True
        while changed:
            changed = False
            for i in reversed(nodes):
                if i in exits:
                    continue
                new = set.intersection(*(pdom[s] for s in self.succ[i])) | {i}
                if new != pdom[i]:
                    pdom[i] = new
                    changed = True
        return pdom

    def control_deps(self):
        """cd[b] = set of branching blocks s such that b is control-dependent on s (Ferrante et al.):
        b post-dominates some successor of s but does not strictly post-dominate s."""
        pdom = self.postdominators()
        cd = {i: set() for i in range(self.n)}
        for s in range(self.n):
            if len(set(self.succ[s])) < 2:
                continue
            for t in set(self.succ[s]):
                for b in pdom[t]:
                    if b == s or b not in pdom[s]:
                        cd[b].add(s)
        return cd

    def must_pass(self, start, through, ends):
        """True iff every path from `start` to any block in `ends` passes through a block in `through`."""
        seen = self.reachable_from(start, avoid=through)
        return not (seen & set(ends))


def decision_taint(fn, cfg, seed_locals):
    """Locals and blocks whose value / execution depends on the seed locals, explicit (assignments, call arguments
    → destination) and implicit (assignments in blocks control-dependent on a branch over a tainted local) flows.
    Returns (tainted locals, blocks control-dependent (transitively) on a tainted branch)."""
    cd = cfg.control_deps()
    T = set(seed_locals)
    ctl = set()
    changed = True
    while changed:
        changed = False
        tainted_branches = set()
        for i, bb in enumerate(cfg.blocks):
            t = bb["term"]
            if t["k"] == "switch" and t.get("discr", {}).get("k") == "place" and t["discr"]["l"] in T:
                tainted_branches.add(i)
        new_ctl = {b for b in range(cfg.n) if cd[b] & (tainted_branches | ctl_sources(cd, ctl))}
        if new_ctl - ctl:
            ctl |= new_ctl
            changed = True
        for i, bb in enumerate(cfg.blocks):
            for st in bb["stmts"]:
                if st["k"] != "assign":
                    continue
                l = st["lhs"]["l"]
                if l in T:
                    continue
                if i in ctl or any(o.get("k") == "place" and o["l"] in T for o in st.get("ops") or []):
                    T.add(l)
                    changed = True
            t = bb["term"]
            if t["k"] == "call" and t.get("dest"):
                l = t["dest"]["l"]
                if l not in T and (i in ctl or any(a.get("k") == "place" and a["l"] in T for a in t.get("args", []))):
                    T.add(l)
                    changed = True
    return T, ctl


def ctl_sources(cd, ctl):
    """branching blocks that are themselves control-dependent on a tainted branch"""
    return {s for s in ctl if any(s in deps for deps in cd.values())}
