"""sa.bounds — computed discharge of indexing sites (`a[i]` cannot be out of bounds).

Three provers, each a sufficient condition read off the typed HIR:

  CONST    constant index into a fixed-size array `[T; N]`, index < N
  ENUM     `a[i]` where a = vec![_; n] (never resized afterwards) and i is the counter of an enclosing
           `for (i, _) in X.iter().enumerate()` with n == X.len(), or of `for i in 0..m` with m == n
           (expressions compared after unfolding immutable lets)
  NEST     loop-nest polynomial bound (algebra.LoopNest): every index polynomial, maximised over the loop ranges,
           is below the length of the dimension it indexes (slice parameter: its own len(); `[T; N]`: N;
           vec![_; s]: s)

Each returns a reason string or None."""
import re

from . import core, algebra
from .algebra import Poly, NotAffine

RESIZING = {"push", "pop", "truncate", "clear", "resize", "resize_with", "extend", "extend_from_slice", "insert", "remove", "swap_remove", "drain", "retain",
            "retain_mut", "append", "split_off", "dedup", "dedup_by", "dedup_by_key", "set_len", "shrink_to", "shrink_to_fit", "reserve", "splice"}


def imm_lets(fn):
    out = {}
    for st in core.walk_lets(fn.body):
        p = st.get("pat") or {}
        if p.get("k") == "Binding" and "init" in st and "Mut" not in p.get("mode", "").split(",")[-1] and not st.get("els"):
            out[p["lid"]] = st["init"]
    return out


def all_lets(fn):
    out = {}
    for st in core.walk_lets(fn.body):
        p = st.get("pat") or {}
        if p.get("k") == "Binding" and "init" in st:
            out[p["lid"]] = st
    return out


def unfold_fp(n, imm, depth=6):
    """fingerprint of an expression with immutable locals replaced by what they are bound to (bare locals only)"""
    n0 = core.strip(n)
    for _ in range(depth):
        if n0.get("k") == "Cast":
            n0 = core.strip(n0["e"])
            continue
        if n0.get("k") == "Path" and n0.get("res") == "local" and n0.get("lid") in imm:
            n0 = core.strip(imm[n0["lid"]])
            continue
        break
    return core.fingerprint(n0, 8)


def const_index(site):
    n = site["node"]
    ty = (n["l"].get("aty") or n["l"].get("ty") or "").lstrip("&").replace("mut ", "").strip()
    m = re.match(r"^\[.*; (\d+)\]$", ty)
    v = core.lit_value(n["r"])
    if m and isinstance(v, int) and 0 <= v < int(m.group(1)):
        return f"CONST: index {v} into {ty}"
    return None


def vec_never_resized(fn, lid):
    for n in core.walk_fn(fn):
        if n.get("k") == "MethodCall":
            r = core.strip(n["recv"])
            if r.get("k") == "Path" and r.get("lid") == lid and n["m"] in RESIZING:
                return False
        if n.get("k") == "Path" and n.get("lid") == lid:
            aty = n.get("aty") or ""
            if aty.startswith("&mut alloc::vec::Vec<"):
                return False
        if n.get("k") == "AddrOf" and n.get("mut") and core.strip(n["e"]).get("lid") == lid and (n.get("aty") or n.get("ty") or "").startswith("&mut alloc::vec::Vec<"):
            # `&mut v` coerced to a slice has aty &mut [T]; kept as &mut Vec<T> it may be resized by the callee
            if not (n.get("aty") or "").startswith("&mut ["):
                return False
        if n.get("k") in ("Assign",) and core.strip(n["l"]).get("lid") == lid:
            return False
    return True


def enum_index(fn, site):
    n = site["node"]
    base = core.strip(n["l"])
    idx = core.strip(n["r"])
    if base.get("k") != "Path" or base.get("res") != "local" or idx.get("k") != "Path" or idx.get("res") != "local":
        return None
    lets = all_lets(fn)
    imm = imm_lets(fn)
    st = lets.get(base["lid"])
    if st is None:
        return None
    init = core.strip(st["init"])
    if not (init.get("k") == "Call" and init["f"].get("def") == "alloc::vec::from_elem" and len(init["args"]) == 2):
        return None
    size_fp = unfold_fp(init["args"][1], imm)
    if not vec_never_resized(fn, base["lid"]):
        return None
    # the loop that binds the index
    for x in core.walk_fn(fn):
        fl = core.as_for(x)
        if fl is None or x.get("k") == "DropTemps":
            continue
        if not any(y is n for y in core.walk(fl[2])):
            continue
        pat, it = fl[0], core.strip(fl[1])
        if it.get("k") == "MethodCall" and it["m"] == "enumerate" and pat.get("k") == "Tuple" and pat["pats"] and pat["pats"][0].get("lid") == idx["lid"]:
            src = core.strip(it["recv"])
            while src.get("k") == "MethodCall" and src["m"] in ("iter", "iter_mut", "into_iter", "copied", "cloned") and not src["args"]:
                src = core.strip(src["recv"])
            # zip(..) shortens: the first component still bounds the counter
            while src.get("k") == "MethodCall" and src["m"] == "zip":
                src = core.strip(src["recv"])
                while src.get("k") == "MethodCall" and src["m"] in ("iter", "iter_mut", "into_iter", "copied", "cloned") and not src["args"]:
                    src = core.strip(src["recv"])
            bound_fp = unfold_fp(src, imm) + ".len()"
            if bound_fp == size_fp:
                return f"ENUM: `{core.fingerprint(base, 2)}` = vec![_; {size_fp}] (never resized) and the index is the enumerate() counter over `{unfold_fp(src, imm)}`"
        if it.get("k") == "Struct" and it.get("def") == "core::ops::range::Range" and pat.get("k") == "Binding" and pat.get("lid") == idx["lid"]:
            f = {q["f"]: q["e"] for q in it["fields"]}
            if core.lit_value(f["start"]) == 0 and unfold_fp(f["end"], imm) == size_fp:
                return f"ENUM: `{core.fingerprint(base, 2)}` = vec![_; {size_fp}] (never resized) and the index ranges over 0..{size_fp}"
    return None


def _subst(p, sym_, q):
    """p with symbol sym_ replaced by polynomial q"""
    out = Poly()
    for mono, coef in p.d.items():
        term = Poly.const(coef)
        for s in mono:
            term = term * (q if s == sym_ else Poly.sym(s))
        out = out + term
    return out


def _nonneg(p):
    return all(v >= 0 for v in p.d.values())


def nest_bounds(fn, param_dims):
    """Loop-nest prover for a whole function: {id(Index node): reason} for every Index node whose index stays below
    the indexed dimension's length.  param_dims(root lid, depth) -> Poly length of that dimension or None."""
    out = {}
    try:
        def symfn(n):
            if n.get("k") == "MethodCall" and n["m"] == "len" and not n["args"]:
                lid, path = core.place_root_lid(n["recv"])
                if lid is not None and not [p for p in path if not p.startswith(".")]:
                    return Poly.sym(f"len{lid}")
            if n.get("k") == "Path" and n.get("res") == "ConstParam":
                return Poly.sym("N:" + (n.get("def") or "").rsplit("::", 1)[-1])
            return None
        ln = algebra.LoopNest(fn, symfn)
        ln.run(fn.body)
    except NotAffine:
        return out
    # vec![_; s] locals
    vec_len = {}
    for lid, st in all_lets(fn).items():
        init = core.strip(st["init"])
        if init.get("k") == "Call" and init["f"].get("def") == "alloc::vec::from_elem" and len(init["args"]) == 2 and vec_never_resized(fn, lid):
            try:
                vec_len[lid] = algebra.poly_eval(init["args"][1], ln.env, symfn)
            except NotAffine:
                pass

    def dim_len(root, depth):
        if depth == 0 and root in vec_len:
            return vec_len[root]
        return param_dims(root, depth)

    def hi_of(s):
        lo, hi = ln.ranges[s]
        if isinstance(hi, tuple):
            hi = dim_len(hi[1], hi[2])
        return lo, hi

    def check(root, idxs):
        for depth, ix in enumerate(idxs):
            L = dim_len(root, depth)
            if L is None:
                return False
            q = ix
            if not _nonneg(q):
                return False
            for s in list(ln.ranges):
                lo, hi = hi_of(s)
                if hi is None or lo != Poly.const(0):
                    if any(s in mono for mono in q.d):
                        return False
                    continue
                q = _subst(q, s, hi - Poly.const(1))
            # q is now the maximum of the index; need q <= L - 1, i.e. L - 1 - q has only non-negative coefficients
            if not _nonneg(L - Poly.const(1) - q):
                return False
        return True
    for dst, src, node in ln.moves:
        ok = check(*dst) and check(*src)
        if ok:
            for x in core.walk(node):
                if x.get("k") == "Index":
                    out[id(x)] = "NEST: every index polynomial of the loop nest, maximised over the loop ranges, stays below the indexed dimension's length"
    return out



PROG = None      # set by the rule module (bounds.PROG = prog) so that named constants can be evaluated


def const_int(node):
    """integer value of a literal or of a constant expression (named consts, arithmetic on them, `ARRAY.len()`)"""
    v = core.lit_value(node)
    if isinstance(v, int) and not isinstance(v, bool):
        return v
    if PROG is None:
        return None
    from . import sym, wire
    n0 = core.strip(node)
    # only expressions without locals can be constant
    if any(x.get("k") == "Path" and x.get("res") == "local" for x in core.walk(n0)):
        return None
    try:
        t = wire.WireInterp(PROG, prims=[], depth=4).eval(n0, {})
    except Exception:
        return None

    def fold(t):
        if not isinstance(t, tuple) or not t:
            return t
        t = tuple(fold(x) if isinstance(x, tuple) else x for x in t)
        if t[0] == "cast" and isinstance(t[2], tuple) and t[2][0] == "c" and isinstance(t[2][1], int):
            return t[2]
        if t[0] == "op" and t[2][0] == "c" and t[3][0] == "c" and isinstance(t[2][1], int) and isinstance(t[3][1], int):
            a, b = t[2][1], t[3][1]
            try:
                return ("c", {"+": a + b, "-": a - b, "*": a * b, "/": a // b if b else None, "%": a % b if b else None, "<<": a << b, ">>": a >> b}[t[1]])
            except (KeyError, TypeError, ValueError):
                return t
        return t
    t = fold(t)
    if t[0] == "c" and isinstance(t[1], int) and not isinstance(t[1], bool):
        return t[1]
    return None

def exact_len_guard(fn, lid):
    """K when the function starts by leaving unless `<lid>.len() == K`: `if x.len() != K { return .. }`"""
    for n in core.walk_fn(fn, into_closures=False):
        if n.get("k") != "If" or "f" in n:
            continue
        cnd = core.strip(n["c"])
        if cnd.get("k") == "Binary" and cnd["op"] == "!=":
            for a, b in ((cnd["l"], cnd["r"]), (cnd["r"], cnd["l"])):
                a0 = core.strip(a)
                k = const_int(b)
                if a0.get("k") == "MethodCall" and a0["m"] == "len" and not a0["args"] and core.strip(a0["recv"]).get("lid") == lid and isinstance(k, int):
                    # the then-branch must diverge
                    t = core.strip(n["t"])
                    if any(x.get("k") == "Ret" for x in core.walk(t)) or any((x.get("x") or "").find("panic") >= 0 for x in core.walk(t)):
                        return k, n
    return None, None


def guarded_index(fn, site):
    """GUARD: `buf[p]` where the function has already returned unless buf.len() == K, and p is a polynomial in
    counters of enclosing loops over constant-length arrays / literal ranges (lets unfolded) whose maximum is < K"""
    n = site["node"]
    base = core.strip(n["l"])
    if base.get("k") != "Path" or base.get("res") != "local":
        return None
    K, guard = exact_len_guard(fn, base["lid"])
    if K is None:
        return None
    # the guard precedes the index in source order (same function body, straight-line prefix)
    if core.loc(guard) > core.loc(n) and guard.get("sp", "").split(":")[0] == n.get("sp", "").split(":")[0]:
        try:
            if int(guard["sp"].split(":")[1]) > int(n["sp"].split(":")[1]):
                return None
        except (ValueError, IndexError):
            return None
    lets = imm_lets(fn)
    env = {}
    ranges = {}
    for x in core.walk_fn(fn):
        fl = core.as_for(x)
        if fl is None or x.get("k") == "DropTemps" or not any(y is n for y in core.walk(fl[2])):
            continue
        pat, it = fl[0], core.strip(fl[1])
        if it.get("k") == "MethodCall" and it["m"] == "enumerate" and pat.get("k") == "Tuple" and pat["pats"] and pat["pats"][0].get("k") == "Binding":
            src = core.strip(it["recv"])
            while src.get("k") == "MethodCall" and src["m"] in ("iter", "iter_mut", "into_iter", "copied", "cloned") and not src["args"]:
                src = core.strip(src["recv"])
            ty = (src.get("ty") or "").lstrip("&").replace("mut ", "").strip()
            m = re.match(r"^\[.*; (\d+)\]$", ty)
            if m:
                sname = f"k{pat['pats'][0]['lid']}"
                env[pat["pats"][0]["lid"]] = Poly.sym(sname)
                ranges[sname] = int(m.group(1))
        if it.get("k") == "Struct" and it.get("def") == "core::ops::range::Range" and pat.get("k") == "Binding":
            f = {q["f"]: q["e"] for q in it["fields"]}
            lo, hi = core.lit_value(f["start"]), core.lit_value(f["end"])
            if lo == 0 and isinstance(hi, int):
                sname = f"k{pat['lid']}"
                env[pat["lid"]] = Poly.sym(sname)
                ranges[sname] = hi

    def ev(e, depth=0):
        e0 = core.strip(e)
        if e0.get("k") == "Path" and e0.get("res") == "local" and e0["lid"] not in env and e0["lid"] in lets and depth < 6:
            env[e0["lid"]] = ev(lets[e0["lid"]], depth + 1)
        for y in core.walk(e0):
            if y.get("k") == "Path" and y.get("res") == "local" and y["lid"] not in env and y["lid"] in lets and depth < 6:
                env[y["lid"]] = ev(lets[y["lid"]], depth + 1)
        return algebra.poly_eval(e0, env)
    try:
        p = ev(n["r"])
    except NotAffine:
        return None
    if not _nonneg(p):
        return None
    q = p
    for sname, hi in ranges.items():
        q = _subst(q, sname, Poly.const(hi - 1))
    if any(mono for mono in q.d if mono):
        return None
    mx = q.d.get((), 0)
    if mx < K:
        return f"GUARD: the function returns unless the slice has exactly {K} bytes, and the index `{p}` is at most {mx} over the enclosing constant-length loops"
    return None


def chunk_index(fn, site):
    """CHUNK: constant index k into an element of `buf.chunks(N)` where the function returns unless buf.len() == K,
    K % N == 0 (every chunk is full) and k < N"""
    n = site["node"]
    base = core.strip(n["l"])
    k = const_int(n["r"])
    if base.get("k") != "Path" or base.get("res") != "local" or not isinstance(k, int):
        return None
    origins = core.binding_origins(fn)
    for x in core.walk_fn(fn):
        fl = core.as_for(x)
        if fl is None and x.get("k") == "MethodCall" and x["m"] in ("map", "for_each", "try_for_each", "filter_map", "flat_map", "filter", "any", "all", "find_map", "fold", "try_fold") and x["args"]:
            # the element of an iterator chain handed to a closure: `..chunks(3)..map(|(m, color)| .. color[0] ..)`
            cl = core.strip(x["args"][-1])
            if cl.get("k") == "Closure" and cl.get("params"):
                fl = (cl["params"], x["recv"], cl["body"], None)
        if fl is None or x.get("k") == "DropTemps":
            continue
        lids = []
        stack = [fl[0]]
        while stack:
            y = stack.pop()
            if isinstance(y, dict):
                if y.get("k") == "Binding":
                    lids.append(y["lid"])
                stack.extend(v for v in y.values() if isinstance(v, (dict, list)))
            elif isinstance(y, list):
                stack.extend(y)
        if base["lid"] not in lids:
            continue
        for c in core.walk(fl[1]):
            if c.get("k") == "MethodCall" and c["m"] in ("chunks", "chunks_exact") and c["args"]:
                N = const_int(c["args"][0])
                src = core.strip(c["recv"])
                if isinstance(N, int) and src.get("k") == "Path" and src.get("res") == "local":
                    K, _g = exact_len_guard(fn, src["lid"])
                    if K is not None and K % N == 0 and 0 <= k < N:
                        return f"CHUNK: element of chunks({N}) of a slice of exactly {K} bytes ({K} % {N} == 0), index {k} < {N}"
    return None


def str_slice_guarded(fn, site):
    """STR: `s[a..b]` with constant a <= b on a `str`, inside the taken branch of a test that establishes
    `s.len() == K` (b <= K) and `s.is_ascii()` — every byte offset of an ASCII string is a character boundary"""
    n = site["node"]
    base = core.strip(n["l"])
    if base.get("k") != "Path" or base.get("res") != "local" or "str" not in (site.get("base_ty") or base.get("ty") or ""):
        return None
    r = core.strip(n["r"])
    lo = hi = None
    if r.get("k") == "Struct":
        for f in r.get("fields") or []:
            if f.get("f") == "start":
                lo = const_int(f["e"])
            if f.get("f") == "end":
                hi = const_int(f["e"])
    if lo is None or hi is None or lo > hi:
        return None
    lid = base["lid"]
    for x in core.walk_fn(fn):
        if x.get("k") != "If" or not any(y is n for y in core.walk(x["t"])):
            continue
        K = None
        ascii_ = False
        for y in core.walk(x["c"]):
            if y.get("k") == "Binary" and y["op"] == "==":
                for a, b in ((y["l"], y["r"]), (y["r"], y["l"])):
                    a0 = core.strip(a)
                    if a0.get("k") == "MethodCall" and a0["m"] == "len" and core.strip(a0["recv"]).get("lid") == lid and const_int(b) is not None:
                        K = const_int(b)
            if y.get("k") == "MethodCall" and y["m"] == "is_ascii" and core.strip(y["recv"]).get("lid") == lid:
                ascii_ = True
        # both facts must hold on the taken branch: the condition is a conjunction of them (no `||`)
        if K is not None and ascii_ and hi <= K and not any(y.get("k") == "Binary" and y["op"] == "||" for y in core.walk(x["c"])):
            return f"STR: slice {lo}..{hi} of an ASCII string of exactly {K} bytes"
    # guard-clause form: `if s.len() != K || !s.is_ascii() { return .. }` before the slice (a disjunction of the two
    # negated facts whose branch diverges)
    for x in core.walk_fn(fn, into_closures=False):
        if x.get("k") != "If" or "f" in x or any(y is n for y in core.walk(x)):
            continue
        if not any(y.get("k") == "Ret" for y in core.walk(x["t"])):
            continue
        try:
            before = int(x["sp"].split(":")[1]) < int(n["sp"].split(":")[1])
        except (ValueError, IndexError, KeyError):
            before = False
        if not before:
            continue
        K = None
        nascii = False
        ok_shape = True
        for y in core.walk(x["c"]):
            if y.get("k") == "Binary" and y["op"] == "&&":
                ok_shape = False
            if y.get("k") == "Binary" and y["op"] == "!=":
                for a, b in ((y["l"], y["r"]), (y["r"], y["l"])):
                    a0 = core.strip(a)
                    if a0.get("k") == "MethodCall" and a0["m"] == "len" and core.strip(a0["recv"]).get("lid") == lid and const_int(b) is not None:
                        K = const_int(b)
            if y.get("k") == "Unary" and y.get("op") == "!":
                z = core.strip(y["e"])
                if z.get("k") == "MethodCall" and z["m"] == "is_ascii" and core.strip(z["recv"]).get("lid") == lid:
                    nascii = True
        if ok_shape and K is not None and nascii and hi <= K:
            return f"STR: slice {lo}..{hi} after the function returned unless the string is ASCII and exactly {K} bytes"
    return None


def counter_max(fn, expr):
    """(polynomial, maximum) of an integer expression that is a polynomial with non-negative coefficients in the
    counters of the enclosing loops over constant-length arrays / literal ranges (lets unfolded); None otherwise"""
    lets = imm_lets(fn)
    env = {}
    ranges = {}
    for x in core.walk_fn(fn):
        fl = core.as_for(x)
        if fl is None or x.get("k") == "DropTemps" or not any(y is expr for y in core.walk(fl[2])):
            continue
        pat, it = fl[0], core.strip(fl[1])
        if it.get("k") == "MethodCall" and it["m"] == "enumerate" and pat.get("k") == "Tuple" and pat["pats"] and pat["pats"][0].get("k") == "Binding":
            src = core.strip(it["recv"])
            while src.get("k") == "MethodCall" and src["m"] in ("iter", "iter_mut", "into_iter", "copied", "cloned") and not src["args"]:
                src = core.strip(src["recv"])
            ty = (src.get("ty") or "").lstrip("&").replace("mut ", "").strip()
            m = re.match(r"^\[.*; (\d+)\]$", ty)
            if m:
                sname = f"k{pat['pats'][0]['lid']}"
                env[pat["pats"][0]["lid"]] = Poly.sym(sname)
                ranges[sname] = int(m.group(1))
        if it.get("k") == "Struct" and it.get("def") == "core::ops::range::Range" and pat.get("k") == "Binding":
            f = {q["f"]: q["e"] for q in it["fields"]}
            lo, hi = const_int(f["start"]), const_int(f["end"])
            if lo == 0 and isinstance(hi, int):
                sname = f"k{pat['lid']}"
                env[pat["lid"]] = Poly.sym(sname)
                ranges[sname] = hi

    def ev(e, depth=0):
        e0 = core.strip(e)
        for y in core.walk(e0):
            if y.get("k") == "Path" and y.get("res") == "local" and y["lid"] not in env and y["lid"] in lets and depth < 6:
                env[y["lid"]] = ev(lets[y["lid"]], depth + 1)
        return algebra.poly_eval(e0, env)
    try:
        p = ev(expr)
    except NotAffine:
        return None
    if not _nonneg(p):
        return None
    q = p
    for sname, hi in ranges.items():
        q = _subst(q, sname, Poly.const(max(hi - 1, 0)))
    if any(mono for mono in q.d if mono):
        return None
    return p, q.d.get((), 0)
