"""C03.frame / C03.count — header, chunk framing, END chunk, phase order; counts and loops from the same source."""
import re
from sa import core, ioseq, spec, tables
from . import common
from .common import argdesc

SS = r"serializer::state::SerializerState.*::"


def is_write(n):
    cal = core.callee_generic(n) or ""
    nm = cal.rsplit("::", 1)[-1]
    if nm.startswith("write_") or nm == "dump" or cal.endswith("chunk::ChunkBuilder::new"):
        return "ChunkBuilder::new" if nm == "new" else nm
    return None


def seq(prog, fn, pred=is_write):
    common.use_lets(fn)
    return ioseq.skeleton(fn.body, pred)


def describe(prog, items):
    """[(kind, name, [argdesc...]) | nested]"""
    out = []
    for it in items:
        if it[0] == "call":
            out.append(("call", it[1], tuple(argdesc(prog, a) for a in it[2]["args"])))
        elif it[0] == "for":
            out.append(("for", argdesc(prog, it[2]), tuple(describe(prog, it[3]))))
        elif it[0] == "if":
            out.append(("if", argdesc(prog, it[1]) if it[1] else None, tuple(describe(prog, it[2])), tuple(describe(prog, it[3]))))
        elif it[0] == "match":
            out.append(("match", argdesc(prog, it[1]), tuple((core.pat_str(p), tuple(describe(prog, inner))) for p, inner in it[2])))
        elif it[0] == "ret":
            out.append(("ret",))
        elif it[0] == "closure":
            out.append(("closure", tuple(describe(prog, it[2]))))
        elif it[0] == "loop":
            out.append(("loop", tuple(describe(prog, it[1]))))
    return out


def doc_header_constants():
    """Magic number / signature / version from docs/binary.md `## File Header` and `END` tables."""
    import re
    text = spec._read("binary.md")
    out = {}
    m = re.search(r"\| Magic Number\s*\|[^|]*\| Always `([^`]+)`", text)
    out["magic"] = tuple(m.group(1).encode()) if m else None
    m = re.search(r"\| Signature\s*\|[^|]*\| Always `([0-9a-fA-F ]+)`", text)
    out["signature"] = tuple(int(x, 16) for x in m.group(1).split()) if m else None
    m = re.search(r"\| Version\s*\| `u16`\s*\| Always `(\d+)`", text)
    out["version"] = int(m.group(1)) if m else None
    m = re.search(r"\| Magic Value\s*\|[^|]*\| Always `([^`]+)`", text)
    out["footer"] = tuple(m.group(1).encode()) if m else None
    m = re.search(r"literal sequence `([0-9a-fA-F ]+)`", text)
    out["zstd"] = tuple(int(x, 16) for x in m.group(1).split()) if m else None
    if any(v is None for v in out.values()):
        raise core.AnchorMissing(f"docs/binary.md: header/END/zstd constants not found ({out})")
    return out


# ------------------------------------------------------------------ symbolic byte streams (sa.sym / sa.wire)
def wire_writes(prog, fn, env):
    """[(kind, payload)] — the byte stream `fn` writes, from the symbolic interpreter (helpers inlined down to
    std::io::Write::write_all, lets / matches / early computations resolved):
       ('bytes', (b0, b1, ...))    constant bytes
       ('le', width, term)         little-endian integer of `width` bytes
       ('be', width, term)
       ('raw', term)               a byte string held by `term`
       ('fill', n, byte)
    Raises AnalysisError when the stream has control structure left (callers case-split on enum inputs)."""
    from sa import wire, sym
    I, val, ex = wire.run_region(prog, fn.body, env, wire.BYTE_PRIMS, depth=8)
    out = []
    for e in I.events:
        if e[0] != "W":
            if e[0] == "alt" and all(not sub for _c, sub, _x in e[1]):
                continue
            if e[0] == "alt":
                live = [(cnd, sub, x) for cnd, sub, x in e[1] if x != "err"]
                if len(live) == 1 and not live[0][1]:
                    continue
            raise core.AnalysisError(f"{fn.path}: byte stream has residual control structure ({e[0]})")
        t = e[2]
        if t[0] == "c" and isinstance(t[1], tuple):
            out.append(("bytes", tuple(t[1])))
        elif t[0] == "app" and len(t[2]) == 1:
            import re as _re
            m = _re.search(r"<impl ([iuf])(\d+)>::to_(le|be)_bytes$", t[1])
            if m:
                out.append((m.group(3), int(m.group(2)) // 8, untyped(t[2][0])))
            else:
                out.append(("raw", t))
        elif t[0] == "vec" and len(t[1]) == 1 and t[1][0][0] == "fill":
            out.append(("fill", t[1][0][1], t[1][0][2]))
        elif t[0] == "vec" and not t[1]:
            out.append(("bytes", ()))
        else:
            out.append(("raw", t))
    return out, val


def untyped(t):
    """drop integer casts"""
    while isinstance(t, tuple) and t and t[0] == "cast":
        t = t[2]
    return t


def length_of(t):
    return ("len", ("iter", t))


def expect_stream(c, R, inst, got, want, what, where):
    from sa import sym
    if got == want:
        c.ok(R, inst)
        return True
    i = 0
    while i < min(len(got), len(want)) and got[i] == want[i]:
        i += 1

    def sh(x):
        if x is None:
            return "(nothing)"
        return "(" + ", ".join(sym.term_str(y) if isinstance(y, tuple) and y and isinstance(y[0], str) else repr(y) for y in x) + ")"
    g = got[i] if i < len(got) else None
    w = want[i] if i < len(want) else None
    c.violation(R, f"{inst}|seq", f"{what}: write #{i + 1} is {sh(g)}, the format requires {sh(w)}", where, instance=inst)
    return False


def expect(c, R, inst, got, want, what, where):
    if got == want:
        c.ok(R, inst)
        return True
    # first difference
    i = 0
    while i < min(len(got), len(want)) and got[i] == want[i]:
        i += 1
    g = got[i] if i < len(got) else "(nothing)"
    w = want[i] if i < len(want) else "(nothing)"
    c.violation(R, f"{inst}|seq", f"{what}: write #{i + 1} is {g}, the format requires {w}", where, instance=inst)
    return False


def run(c, prog):
    R = "C03.frame"
    c.rule(R, "write_header / ChunkBuilder::dump / serialize_end / Serializer::serialize emit exactly the fields of docs/binary.md in order (constants read from the document), END is never compressed, phases run header, META?, SSTR?, INST*, PROP*, PRNT, END")
    K = doc_header_constants()
    c.sample({"rule": R, "doc_constants": {k: list(v) if isinstance(v, tuple) else v for k, v in K.items()}})
    # ---- header
    fn = common.find_fn(prog, SS + "write_header$")
    selft = ("in", "self")
    got, _ = wire_writes(prog, fn, {fn.params[0]["lid"]: selft})
    from sa import sym as _sym
    want = [("bytes", K["magic"]), ("bytes", K["signature"]), ("le", 2, ("c", K["version"])),
            ("le", 4, length_of(_sym.fld(_sym.fld(selft, "type_infos"), "values"))), ("le", 4, length_of(_sym.fld(selft, "relevant_instances"))),
            ("fill", ("c", 8), ("c", 0))]
    expect_stream(c, R, "header", got, want, "file header", fn.sp)
    # ---- END
    fn = common.find_fn(prog, SS + "serialize_end$")
    got = describe(prog, ioseq.drop_rets(seq(prog, fn)))
    none_variant = ("place", "None")
    end_new = got[0] if got else None
    ok_end = False
    if end_new and end_new[0] == "call" and end_new[1] == "ChunkBuilder::new" and end_new[2][0] == ("const", tuple(b"END\0")):
        # second argument must be the constant CompressionType::None
        node = [it for it in ioseq.flat_calls(seq(prog, fn)) if it[1] == "ChunkBuilder::new"][0][2]
        a = core.strip(node["args"][1])
        ok_end = a.get("k") == "Path" and a.get("def") == "rbx_binary::serializer::CompressionType::None"
    if ok_end:
        c.ok(R, "end:uncompressed")
    else:
        c.violation(R, "end|compression", "serialize_end does not build the END\\0 chunk with the constant CompressionType::None: docs/binary.md requires the END chunk to be uncompressed", fn.sp, instance="end:uncompressed")
    rest = [g for g in got[1:]]
    want = [("call", "write_all", (("const", K["footer"]),)), ("call", "dump", (("place", "self.output"),))]
    expect(c, R, "end:body", rest, want, "END chunk", fn.sp)
    # ---- dump
    fn = prog.fn("rbx_binary::chunk::ChunkBuilder::dump")
    CT = "rbx_binary::serializer::CompressionType"
    variants = [v["name"] for v in prog.adt(CT)["variants"]]
    if set(variants) == {"None", "Lz4", "Zstd"}:
        c.ok(R, "dump:arms")
    else:
        c.violation(R, "dump|arms", f"CompressionType has variants {variants}; the chunk framing is confirmed for None / Lz4 / Zstd only", fn.sp, instance="dump:arms")
    comp_fn = {"Lz4": "lz4::block::compress", "Zstd": "zstd::bulk::compress"}
    name_t, buf_t = ("in", "chunk_name"), ("in", "buffer")
    for v in variants:
        selft = ("st", "rbx_binary::chunk::ChunkBuilder", (("chunk_name", name_t), ("compression", _sym.var(CT + "::" + v)), ("buffer", buf_t)))
        inst = f"dump:{v}"
        try:
            got, _ = wire_writes(prog, fn, {fn.params[0]["lid"]: selft, fn.params[1]["lid"]: ("in", "writer")})
        except (core.AnalysisError, _sym.Unsupported) as e:
            c.violation(R, f"dump|{v}", f"cannot determine the bytes ChunkBuilder::dump writes for CompressionType::{v}: {e}", fn.sp, instance=inst)
            continue
        if v == "None":
            want = [("raw", name_t), ("le", 4, ("c", 0)), ("le", 4, length_of(buf_t)), ("le", 4, ("c", 0)), ("raw", buf_t)]
            expect_stream(c, R, inst, got, want, "uncompressed chunk framing (name · 0 · len · 0 · payload)", fn.sp)
            continue
        # compressed: the payload is the (unwrapped) result of the compressor applied to the buffer
        payload = got[4][1] if len(got) == 5 and got[4][0] == "raw" else None
        pt = payload
        while pt is not None and pt[0] == "try":
            pt = pt[1]
        okp = pt is not None and pt[0] == "app" and pt[1] == comp_fn.get(v) and pt[2][:1] == (buf_t,)
        if not okp:
            c.violation(R, f"dump|{v}", f"{v} chunk: the payload written is not {comp_fn.get(v)}(buffer, ..): {[_sym.term_str(x[-1]) if isinstance(x[-1], tuple) else x for x in got]}", fn.sp, instance=inst)
            continue
        want = [("raw", name_t), ("le", 4, length_of(payload)), ("le", 4, length_of(buf_t)), ("le", 4, ("c", 0)), ("raw", payload)]
        expect_stream(c, R, inst, got, want, f"{v} chunk framing (name · compressed_len · len(buffer) · 0 · compressed payload)", fn.sp)
    # ---- phase order
    fn = common.find_fn(prog, r"^rbx_binary::serializer::Serializer.*::serialize$")

    def is_phase(n):
        cal = core.callee_generic(n) or ""
        if "serializer::state::SerializerState" in cal:
            return cal.rsplit("::", 1)[-1]
        return None
    ph = [x[1] for x in describe(prog, ioseq.drop_rets(ioseq.skeleton(fn.body, is_phase))) if x[0] == "call"]
    want = ["new", "add_instances", "generate_referents", "write_header", "serialize_metadata", "serialize_shared_strings", "serialize_instances", "serialize_properties", "serialize_parents", "serialize_end"]
    nested = any(x[0] != "call" for x in describe(prog, ioseq.drop_rets(ioseq.skeleton(fn.body, is_phase))))
    if ph == want and not nested:
        c.ok(R, "phases")
    else:
        c.violation(R, "phases|order", f"Serializer::serialize runs phases {ph}{' under control flow' if nested else ''}; the format requires {want}", fn.sp, instance="phases")
    # every chunk built is dumped to self.output; chunk names
    names = {"serialize_shared_strings": b"SSTR", "serialize_instances": b"INST", "serialize_properties": b"PROP", "serialize_parents": b"PRNT"}
    for fname, nm in names.items():
        f = common.find_fn(prog, SS + fname + "$")
        calls = [it for it in ioseq.flat_calls(seq(prog, f))]
        # private helpers of the serializer state that the phase calls (a chunk built in `build_x_chunk(&self, ..)`)
        phase_paths = {common.find_fn(prog, SS + n_ + "$").path for n_ in names}
        seen_h, todo = set(), [f]
        while todo:
            cur = todo.pop()
            for x in core.walk_fn(cur):
                if x.get("k") in ("Call", "MethodCall"):
                    h = prog.fns.get(core.callee(x) or "")
                    if h is not None and h.body is not None and h.path not in seen_h and h.path not in phase_paths and h.path.startswith("rbx_binary::serializer::state::SerializerState") and h.path != f.path:
                        seen_h.add(h.path)
                        todo.append(h)
                        calls += [it for it in ioseq.flat_calls(seq(prog, h))]
        news = [it for it in calls if it[1] == "ChunkBuilder::new"]
        dumps = [it for it in calls if it[1] == "dump"]
        inst = f"chunk:{nm.decode()}"
        ok = len(news) == 1 and len(dumps) == 1 and argdesc(prog, news[0][2]["args"][0]) == ("const", tuple(nm)) \
            and argdesc(prog, news[0][2]["args"][1]) == ("place", "self.serializer.compression") and argdesc(prog, dumps[0][2]["args"][0]) == ("place", "self.output")
        if ok:
            c.ok(R, inst)
        else:
            c.violation(R, f"chunk|{nm.decode()}", f"{fname}: expected exactly one ChunkBuilder::new(b\"{nm.decode()}\", self.serializer.compression) dumped to self.output", f.sp, instance=inst)
    run_count(c, prog)


# ------------------------------------------------------------------ chunk bodies as symbolic event lists
def chunk_events(prog, fn):
    """events of a serialize_* function (self symbolic; RbxWriteExt array helpers as column primitives;
    `ChunkBuilder::dump` and `id_to_referent.insert` as sinks)"""
    import re as _re
    from sa import sym, wire
    from . import C01_arm

    def p_dump(I, n, path, arg_nodes, env):
        ch = I.eval(arg_nodes[0], env)
        out = I.eval(arg_nodes[1], env)
        I.emit(("sink", "dump", ("tup", (sym.fld(ch, "chunk_name"), sym.fld(ch, "compression"), out)), core.loc(n)))
        return sym.var(sym.OK, sym.UNIT)

    def p_map_insert(I, n, path, arg_nodes, env):
        m = I.eval(arg_nodes[0], env)
        k = I.eval(arg_nodes[1], env)
        v = I.eval(arg_nodes[2], env)
        I.emit(("sink", "insert", ("tup", (m, k, v)), core.loc(n)))
        return sym.var(sym.NONE)
    prims = C01_arm.binary_prims() + [(_re.compile(r"chunk::ChunkBuilder::dump$"), p_dump), (_re.compile(r"HashMap::<K, V, S(, A)?>::insert$"), p_map_insert)]
    I = C01_arm.BinInterp(prog, prims=prims, depth=8, opaque=wire.OPAQUE)
    selft = ("in", "self")
    try:
        I.eval(fn.body, {fn.params[0]["lid"]: selft})
    except sym.Exit:
        pass
    return I.events, selft


def le_of(e, width=4):
    """the integer term written by a `W bytes to_le_bytes(x)` event of the given width, casts dropped; else None"""
    import re as _re
    if e[0] != "W" or e[1] != "bytes":
        return None
    t = e[2]
    if t[0] == "app" and len(t[2]) == 1:
        m = _re.search(r"<impl [iuf](\d+)>::to_le_bytes$", t[1])
        if m and int(m.group(1)) // 8 == width:
            return untyped(t[2][0])
    return None


def byte_of(e):
    """the single byte written by `W bytes [x]` (write_u8 / write_bool), casts dropped"""
    if e[0] == "W" and e[1] == "bytes" and e[2][0] == "vec" and len(e[2][1]) == 1 and e[2][1][0][0] == "one":
        return untyped(e[2][1][0][1])
    return None


def fill_of(e):
    """(count, byte) for `W bytes [b; n]`, or for a loop `for _ in 0..n { write_u8(b) }`"""
    from sa import sym
    if e[0] == "W" and e[1] == "bytes" and e[2][0] == "vec" and len(e[2][1]) == 1 and e[2][1][0][0] == "fill":
        return untyped(e[2][1][0][1]), untyped(e[2][1][0][2])
    if e[0] == "rep" and len(e[2]) == 1 and byte_of(e[2][0]) is not None:
        d = e[1]
        if d[0] == "range" and d[1] == ("c", 0):
            return untyped(d[2]), byte_of(e[2][0])
        if d[0] == "count":
            return untyped(d[1]), byte_of(e[2][0])
        nd = sym.norm_dom(d)
        if isinstance(nd, tuple) and nd and nd[0] == "iter":
            # `xs.iter().try_for_each(|_| write_u8(b))`: one byte per element of xs — the count is xs' length
            return untyped(("len", nd)), byte_of(e[2][0])
    return None


def string_of(evs, k):
    """term of a length-prefixed string written at evs[k], evs[k+1] (`write_string` / `write_binary_string`)"""
    if k + 1 < len(evs) and evs[k + 1][0] == "W" and evs[k + 1][1] == "bytes":
        t = evs[k + 1][2]
        if le_of(evs[k]) == length_of(t):
            return t
    return None


def column_of(e, prim="ref_array"):
    """(domain, element term) of a column write"""
    from sa import sym
    if e[0] == "W" and e[1] == prim and e[2][0] == "vec" and len(e[2][1]) == 1 and e[2][1][0][0] == "seg" and e[2][1][0][3] is None:
        return sym.norm_dom(e[2][1][0][1]), e[2][1][0][2]
    return None


def mentions_term(t, sub):
    if t == sub:
        return True
    if isinstance(t, tuple):
        return any(mentions_term(x, sub) for x in t)
    return False


def strip_try_unwrap(t):
    """drop `?` / unwrap / try_into / deref wrappers around a term"""
    while isinstance(t, tuple) and t:
        if t[0] == "try":
            t = t[1]
        elif t[0] == "cast":
            t = t[2]
        elif t[0] == "app" and len(t[2]) == 1 and t[1].rsplit("::", 1)[-1] in ("try_into", "unwrap", "into", "clone", "deref", "try_from", "from"):
            t = t[2][0]
        elif t[0] == "payload" and t[3] == 0:
            t = t[1]
        else:
            break
    return t


def success_paths(events):
    from sa import sym
    return [(conds, evs) for conds, evs, x, v in sym.event_paths(events) if x != "err"]


def run_count(c, prog):
    from sa import sym
    R = "C03.count"
    c.rule(R, "chunk bodies as symbolic event lists: SSTR = version 0 · count · (16 zero bytes · string)* over the same list; INST = class id · name · object format · count · referent column over the class's instances · one marker byte per instance iff service; PRNT = version 0 · count · child column · parent column, both over relevant_instances; referents number relevant_instances densely in order; every count is the length of the collection the following loop / column ranges over; class ids come from a monotone counter under a vacant-entry guard")

    def ref_of(t):
        """the instance whose referent number a term denotes: id_to_referent[<x>] / .get(<x>)"""
        if t[0] == "app" and t[1] == "index" and t[2][0] == sym.fld(("in", "self"), "id_to_referent"):
            return t[2][1]
        return None
    # ---- SSTR
    f = common.find_fn(prog, SS + "serialize_shared_strings$")
    ok = False
    why = ""
    try:
        evs, selft = chunk_events(prog, f)
        L = sym.fld(selft, "shared_strings")
        for conds, pe in success_paths(evs):
            body = [e for e in pe if e[0] in ("W", "rep", "sink")]
            if not body:
                continue      # nothing written: the chunk is omitted when there are no shared strings
            good = len(body) == 4 and le_of(body[0]) == ("c", 0) and le_of(body[1]) == length_of(L) and body[2][0] == "rep" \
                and sym.norm_dom(body[2][1]) == sym.norm_dom(("iter", L)) and body[3][0] == "sink" and body[3][1] == "dump"
            if good:
                inner = [e for e in body[2][2] if e[0] in ("W", "rep")]
                fz = fill_of(inner[0]) if inner else None
                st = string_of(inner, 1) if len(inner) == 3 else None
                good = fz == (("c", 16), ("c", 0)) and st is not None and st[0] == "app" and st[1].endswith("SharedString::data") and st[2] == (("elem", L),)
                good = good and body[3][2][1][0] == ("c", tuple(b"SSTR")) and body[3][2][1][2] == sym.fld(selft, "output")
            if good:
                ok = True
            else:
                why = "a path writes " + "; ".join(sym.term_str(e[2], 4) if e[0] == "W" else e[0] for e in body[:6])
                ok = False
                break
    except (sym.Unsupported, core.AnalysisError) as e:
        why = f"outside the symbolic model: {e}"
    if ok:
        c.ok(R, "sstr")
    else:
        c.violation(R, "sstr|seq", f"SSTR chunk is not `version 0 · count = shared_strings.len() · for each of the same strings: 16 zero bytes, length-prefixed data` dumped to self.output ({why})", f.sp, instance="sstr")
    # ---- INST
    f = common.find_fn(prog, SS + "serialize_instances$")
    ok = False
    detail = {}
    try:
        evs, selft = chunk_events(prog, f)
        top = [e for e in evs if e[0] in ("W", "rep", "sink", "alt")]
        TV = sym.fld(sym.fld(selft, "type_infos"), "values")
        if len(top) == 1 and top[0][0] == "rep" and sym.norm_dom(top[0][1]) == sym.norm_dom(("iter", TV)):
            el = ("elem", TV)
            name_t, info = sym.fld(el, "0"), sym.fld(el, "1")
            inst_list = sym.fld(info, "instances")
            paths = success_paths(top[0][2])
            allgood = bool(paths)
            for conds, pe in paths:
                b = [e for e in pe if e[0] in ("W", "rep", "sink")]
                svc = sym.fld(info, "is_service")
                is_svc = svc in conds
                pre = len(b) >= 6 and le_of(b[0]) == sym.fld(info, "type_id") and string_of(b, 1) == name_t and byte_of(b[3]) == svc and le_of(b[4]) == length_of(inst_list)
                col = column_of(b[5]) if len(b) > 5 else None
                rk = ref_of(col[1]) if col is not None else None
                refs = col is not None and col[0] == sym.norm_dom(("iter", inst_list)) and rk is not None and (
                    rk == sym.fld(("elem", inst_list), "referent") or (rk[0] == "app" and rk[2] == (("elem", inst_list),) and rk[1].endswith("Instance::referent")))
                rest = b[6:]
                if is_svc:
                    mk = fill_of(rest[0]) if rest else None
                    markers = mk == (length_of(inst_list), ("c", 1))
                    rest = rest[1:]
                else:
                    markers = True
                dump = len(rest) == 1 and rest[0][0] == "sink" and rest[0][1] == "dump" and rest[0][2][1][0] == ("c", tuple(b"INST")) and rest[0][2][1][2] == sym.fld(selft, "output")
                detail = {"prefix": bool(pre), "referents": bool(refs), "service_markers": bool(markers), "dump": bool(dump), "service-path": is_svc}
                if not (pre and refs and markers and dump):
                    allgood = False
                    break
            ok = allgood
        else:
            detail = {"loop": "serialize_instances is not one loop over self.type_infos.values"}
    except (sym.Unsupported, core.AnalysisError) as e:
        detail = {"error": f"outside the symbolic model: {e}"}
    if ok:
        c.ok(R, "inst")
    else:
        c.violation(R, "inst|layout", f"INST chunk layout differs from docs/binary.md (class id, name, object format, count, referents of the same instances, one service marker per instance iff service): {detail}", f.sp, instance="inst")
    # ---- PRNT
    f = common.find_fn(prog, SS + "serialize_parents$")
    ok = False
    why = ""
    try:
        evs, selft = chunk_events(prog, f)
        RI = sym.fld(selft, "relevant_instances")
        for conds, pe in success_paths(evs):
            b = [e for e in pe if e[0] in ("W", "rep", "sink")]
            good = len(b) == 5 and byte_of(b[0]) == ("c", 0) and le_of(b[1]) == length_of(RI)
            c0 = column_of(b[2]) if good else None
            c1 = column_of(b[3]) if good else None
            good = good and c0 is not None and c1 is not None and c0[0] == c1[0] == sym.norm_dom(("iter", RI))
            good = good and ref_of(c0[1]) == ("elem", RI)
            # parent column: derived from the same element's instance's parent, -1 when absent
            good = good and mentions_term(c1[1], ("elem", RI)) and mentions_term(c1[1], ("c", -1)) and not mentions_term(c0[1], ("c", -1))
            good = good and b[4][0] == "sink" and b[4][1] == "dump" and b[4][2][1][0] == ("c", tuple(b"PRNT")) and b[4][2][1][2] == sym.fld(selft, "output")
            ok = good
            if not good:
                why = "; ".join(sym.term_str(e[2], 4) if e[0] == "W" else e[0] for e in b[:6])
                break
    except (sym.Unsupported, core.AnalysisError) as e:
        why = f"outside the symbolic model: {e}"
    if ok:
        c.ok(R, "prnt")
    else:
        c.violation(R, "prnt|layout", f"PRNT chunk: expected version 0, count = relevant_instances.len(), child array then parent array both over relevant_instances ({why})", f.sp, instance="prnt")
    # ---- id_to_referent numbers relevant_instances by position
    f = common.find_fn(prog, SS + "generate_referents$")
    ok = False
    why = ""
    try:
        evs, selft = chunk_events(prog, f)
        RI = sym.fld(selft, "relevant_instances")
        reps = [e for e in evs if e[0] == "rep"]
        if len(reps) == 1:
            dom = reps[0][1]
            sinks = [e for e in reps[0][2] if e[0] == "sink" and e[1] == "insert"]
            if len(sinks) == 1:
                m, k, v = sinks[0][2][1]
                v = untyped(strip_try_unwrap(v))
                k = strip_try_unwrap(k)
                by_enum = sym.norm_dom(dom) == sym.norm_dom(("iter", RI)) and k == ("elem", RI) and v == ("idx", dom)
                by_index = dom[0] == "range" and dom[1] == ("c", 0) and untyped(dom[2]) == length_of(RI) and k == ("app", "index", (RI, ("idx", dom))) and v == ("idx", dom)
                ok = m == sym.fld(selft, "id_to_referent") and (by_enum or by_index)
                if not ok:
                    why = f"{sym.term_str(k, 4)} -> {sym.term_str(v, 4)} over {sym.term_str(dom, 4)}"
    except (sym.Unsupported, core.AnalysisError) as e:
        why = f"outside the symbolic model: {e}"
    if ok:
        c.ok(R, "referents:dense-enumeration")
    else:
        c.violation(R, "referents|numbering", f"generate_referents no longer gives relevant_instances[i] the referent i (dense, traversal-ordered referents) ({why})", f.sp, instance="referents:dense-enumeration")
    # class ids: get_or_create
    f = common.find_fn(prog, r"serializer::state::TypeInfos.*::get_or_create$")
    ok = False
    for n in core.walk_fn(f):
        if n.get("k") == "If" and core.strip(n["c"]).get("k") == "LetExpr" and "Vacant" in core.pat_str(core.strip(n["c"])["pat"]):
            body = n["t"]
            has_inc = any(x.get("k") == "AssignOp" and x["op"] == "+=" and core.place_root(x["l"]) == ("self", ["next_type_id"]) and core.lit_value(x["r"]) == 1 for x in core.walk(body))
            reads = any(x.get("k") == "Let" for x in [])  # placeholder
            lets = [st for st in core.strip(body)["b"]["stmts"] if st["k"] == "Let" and st["pat"].get("name") == "type_id"]
            takes = lets and core.place_root(lets[0]["init"]) == ("self", ["next_type_id"])
            ok = has_inc and bool(takes)
    if ok:
        c.ok(R, "class-ids:monotone-under-vacant")
    else:
        c.violation(R, "classids|alloc", "TypeInfos::get_or_create no longer assigns `type_id = next_type_id; next_type_id += 1` under the Vacant-entry guard (class ids could repeat or a class get two INST chunks)", f.sp, instance="class-ids:monotone-under-vacant")
    # SharedString pushed once: every push onto the list of discovered SharedStrings (a Vec<SharedString> of the
    # serializer module — a field, or a `&mut` parameter of a helper) is guarded by `!ids.contains_key(..)` on the id
    # map (HashMap<SharedString, u32>) and paired with an insert into it
    VEC = re.compile(r"^alloc::vec::Vec<rbx_types::shared_string::SharedString>$")
    IDS = re.compile(r"^std::collections::(hash::map::)?HashMap<rbx_types::shared_string::SharedString, u32")

    def peel(ty):
        ty = ty or ""
        while ty.startswith("&"):
            ty = ty[5:] if ty.startswith("&mut ") else ty[1:]
        return ty

    def of_type(n, rx):
        n = core.strip(n)
        while n.get("k") in ("AddrOf", "Unary"):
            n = core.strip(n["e"])
        return rx.match(peel(n.get("ty") or n.get("aty"))) is not None
    pushes = []
    for f in prog.lib_fns():
        if f.body is None or f.crate != "rbx_binary" or "::serializer::" not in f.path:
            continue
        for n in core.walk_fn(f):
            if n.get("k") == "MethodCall" and n["m"] == "push" and of_type(n["recv"], VEC):
                pushes.append((f, n))
    c.floor(R, len(pushes), 1, "pushes onto the SharedString list")
    for idx, (f, pn) in enumerate(pushes):
        guarded = False
        for n in core.walk_fn(f):
            if n.get("k") == "If" and any(x is pn for x in core.walk(n["t"])):
                cnd = core.strip(n["c"])
                if cnd.get("k") == "Unary" and cnd["op"] == "!":
                    e = core.strip(cnd["e"])
                    if e.get("k") == "MethodCall" and e["m"] == "contains_key" and of_type(e["recv"], IDS):
                        ins = [x for x in core.walk(n["t"]) if x.get("k") == "MethodCall" and x["m"] == "insert" and of_type(x["recv"], IDS)]
                        if ins:
                            guarded = True
        inst = f"sstr-once:{core.short(f.path).rsplit('::', 1)[-1]}:{idx}"
        if guarded:
            c.ok(R, inst)
        else:
            c.violation(R, f"sstr-once|{core.fingerprint(pn['args'][0], 3)}", "a SharedString is pushed onto the list of discovered strings without the `!ids.contains_key(..)` guard and matching insert: the same string can be stored twice in SSTR", core.loc(pn), instance=inst)
