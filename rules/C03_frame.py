"""C03.frame / C03.count — header, chunk framing, END chunk, phase order; counts and loops from the same source."""
from sa import core, ioseq, spec, tables
from . import common
from .common import argdesc

SS = r"serializer::state::SerializerState.*::"


def is_write(n):
    cal = core.callee_generic(n) or ""
    nm = cal.rsplit("::", 1)[-1]
    if nm.startswith("write_") or nm == "dump" or cal.endswith("chunk::ChunkBuilder::new"):
        return "ChunkBuilder::new" if nm == "new" else nm
    return None


def seq(prog, fn, pred=is_write):
    common.use_lets(fn)
    return ioseq.skeleton(fn.body, pred)


def describe(prog, items):
    """[(kind, name, [argdesc...]) | nested]"""
    out = []
    for it in items:
        if it[0] == "call":
            out.append(("call", it[1], tuple(argdesc(prog, a) for a in it[2]["args"])))
        elif it[0] == "for":
            out.append(("for", argdesc(prog, it[2]), tuple(describe(prog, it[3]))))
        elif it[0] == "if":
            out.append(("if", argdesc(prog, it[1]) if it[1] else None, tuple(describe(prog, it[2])), tuple(describe(prog, it[3]))))
        elif it[0] == "match":
            out.append(("match", argdesc(prog, it[1]), tuple((core.pat_str(p), tuple(describe(prog, inner))) for p, inner in it[2])))
        elif it[0] == "ret":
            out.append(("ret",))
        elif it[0] == "closure":
            out.append(("closure", tuple(describe(prog, it[2]))))
        elif it[0] == "loop":
            out.append(("loop", tuple(describe(prog, it[1]))))
    return out


def doc_header_constants():
    """Magic number / signature / version from docs/binary.md `## File Header` and `END` tables."""
    import re
    text = spec._read("binary.md")
    out = {}
    m = re.search(r"\| Magic Number\s*\|[^|]*\| Always `([^`]+)`", text)
    out["magic"] = tuple(m.group(1).encode()) if m else None
    m = re.search(r"\| Signature\s*\|[^|]*\| Always `([0-9a-fA-F ]+)`", text)
    out["signature"] = tuple(int(x, 16) for x in m.group(1).split()) if m else None
    m = re.search(r"\| Version\s*\| `u16`\s*\| Always `(\d+)`", text)
    out["version"] = int(m.group(1)) if m else None
    m = re.search(r"\| Magic Value\s*\|[^|]*\| Always `([^`]+)`", text)
    out["footer"] = tuple(m.group(1).encode()) if m else None
    m = re.search(r"literal sequence `([0-9a-fA-F ]+)`", text)
    out["zstd"] = tuple(int(x, 16) for x in m.group(1).split()) if m else None
    if any(v is None for v in out.values()):
        raise core.AnchorMissing(f"docs/binary.md: header/END/zstd constants not found ({out})")
    return out


# ------------------------------------------------------------------ symbolic byte streams (sa.sym / sa.wire)
def wire_writes(prog, fn, env):
    """[(kind, payload)] — the byte stream `fn` writes, from the symbolic interpreter (helpers inlined down to
    std::io::Write::write_all, lets / matches / early computations resolved):
       ('bytes', (b0, b1, ...))    constant bytes
       ('le', width, term)         little-endian integer of `width` bytes
       ('be', width, term)
       ('raw', term)               a byte string held by `term`
       ('fill', n, byte)
    Raises AnalysisError when the stream has control structure left (callers case-split on enum inputs)."""
    from sa import wire, sym
    I, val, ex = wire.run_region(prog, fn.body, env, wire.BYTE_PRIMS, depth=8)
    out = []
    for e in I.events:
        if e[0] != "W":
            if e[0] == "alt" and all(not sub for _c, sub, _x in e[1]):
                continue
            if e[0] == "alt":
                live = [(cnd, sub, x) for cnd, sub, x in e[1] if x != "err"]
                if len(live) == 1 and not live[0][1]:
                    continue
            raise core.AnalysisError(f"{fn.path}: byte stream has residual control structure ({e[0]})")
        t = e[2]
        if t[0] == "c" and isinstance(t[1], tuple):
            out.append(("bytes", tuple(t[1])))
        elif t[0] == "app" and len(t[2]) == 1:
            import re as _re
            m = _re.search(r"<impl ([iuf])(\d+)>::to_(le|be)_bytes$", t[1])
            if m:
                out.append((m.group(3), int(m.group(2)) // 8, untyped(t[2][0])))
            else:
                out.append(("raw", t))
        elif t[0] == "vec" and len(t[1]) == 1 and t[1][0][0] == "fill":
            out.append(("fill", t[1][0][1], t[1][0][2]))
        elif t[0] == "vec" and not t[1]:
            out.append(("bytes", ()))
        else:
            out.append(("raw", t))
    return out, val


def untyped(t):
    """drop integer casts"""
    while isinstance(t, tuple) and t and t[0] == "cast":
        t = t[2]
    return t


def length_of(t):
    return ("len", ("iter", t))


def expect_stream(c, R, inst, got, want, what, where):
    from sa import sym
    if got == want:
        c.ok(R, inst)
        return True
    i = 0
    while i < min(len(got), len(want)) and got[i] == want[i]:
        i += 1

    def sh(x):
        if x is None:
            return "(nothing)"
        return "(" + ", ".join(sym.term_str(y) if isinstance(y, tuple) and y and isinstance(y[0], str) else repr(y) for y in x) + ")"
    g = got[i] if i < len(got) else None
    w = want[i] if i < len(want) else None
    c.violation(R, f"{inst}|seq", f"{what}: write #{i + 1} is {sh(g)}, the format requires {sh(w)}", where, instance=inst)
    return False


def expect(c, R, inst, got, want, what, where):
    if got == want:
        c.ok(R, inst)
        return True
    # first difference
    i = 0
    while i < min(len(got), len(want)) and got[i] == want[i]:
        i += 1
    g = got[i] if i < len(got) else "(nothing)"
    w = want[i] if i < len(want) else "(nothing)"
    c.violation(R, f"{inst}|seq", f"{what}: write #{i + 1} is {g}, the format requires {w}", where, instance=inst)
    return False


def run(c, prog):
    R = "C03.frame"
    c.rule(R, "write_header / ChunkBuilder::dump / serialize_end / Serializer::serialize emit exactly the fields of docs/binary.md in order (constants read from the document), END is never compressed, phases run header, META?, SSTR?, INST*, PROP*, PRNT, END")
    K = doc_header_constants()
    c.sample({"rule": R, "doc_constants": {k: list(v) if isinstance(v, tuple) else v for k, v in K.items()}})
    # ---- header
    fn = common.find_fn(prog, SS + "write_header$")
    selft = ("in", "self")
    got, _ = wire_writes(prog, fn, {fn.params[0]["lid"]: selft})
    from sa import sym as _sym
    want = [("bytes", K["magic"]), ("bytes", K["signature"]), ("le", 2, ("c", K["version"])),
            ("le", 4, length_of(_sym.fld(_sym.fld(selft, "type_infos"), "values"))), ("le", 4, length_of(_sym.fld(selft, "relevant_instances"))),
            ("fill", ("c", 8), ("c", 0))]
    expect_stream(c, R, "header", got, want, "file header", fn.sp)
    # ---- END
    fn = common.find_fn(prog, SS + "serialize_end$")
    got = describe(prog, ioseq.drop_rets(seq(prog, fn)))
    none_variant = ("place", "None")
    end_new = got[0] if got else None
    ok_end = False
    if end_new and end_new[0] == "call" and end_new[1] == "ChunkBuilder::new" and end_new[2][0] == ("const", tuple(b"END\0")):
        # second argument must be the constant CompressionType::None
        node = [it for it in ioseq.flat_calls(seq(prog, fn)) if it[1] == "ChunkBuilder::new"][0][2]
        a = core.strip(node["args"][1])
        ok_end = a.get("k") == "Path" and a.get("def") == "rbx_binary::serializer::CompressionType::None"
    if ok_end:
        c.ok(R, "end:uncompressed")
    else:
        c.violation(R, "end|compression", "serialize_end does not build the END\\0 chunk with the constant CompressionType::None: docs/binary.md requires the END chunk to be uncompressed", fn.sp, instance="end:uncompressed")
    rest = [g for g in got[1:]]
    want = [("call", "write_all", (("const", K["footer"]),)), ("call", "dump", (("place", "self.output"),))]
    expect(c, R, "end:body", rest, want, "END chunk", fn.sp)
    # ---- dump
    fn = prog.fn("rbx_binary::chunk::ChunkBuilder::dump")
    CT = "rbx_binary::serializer::CompressionType"
    variants = [v["name"] for v in prog.adt(CT)["variants"]]
    if set(variants) == {"None", "Lz4", "Zstd"}:
        c.ok(R, "dump:arms")
    else:
        c.violation(R, "dump|arms", f"CompressionType has variants {variants}; the chunk framing is confirmed for None / Lz4 / Zstd only", fn.sp, instance="dump:arms")
    comp_fn = {"Lz4": "lz4::block::compress", "Zstd": "zstd::bulk::compress"}
    name_t, buf_t = ("in", "chunk_name"), ("in", "buffer")
    for v in variants:
        selft = ("st", "rbx_binary::chunk::ChunkBuilder", (("chunk_name", name_t), ("compression", _sym.var(CT + "::" + v)), ("buffer", buf_t)))
        inst = f"dump:{v}"
        try:
            got, _ = wire_writes(prog, fn, {fn.params[0]["lid"]: selft, fn.params[1]["lid"]: ("in", "writer")})
        except (core.AnalysisError, _sym.Unsupported) as e:
            c.violation(R, f"dump|{v}", f"cannot determine the bytes ChunkBuilder::dump writes for CompressionType::{v}: {e}", fn.sp, instance=inst)
            continue
        if v == "None":
            want = [("raw", name_t), ("le", 4, ("c", 0)), ("le", 4, length_of(buf_t)), ("le", 4, ("c", 0)), ("raw", buf_t)]
            expect_stream(c, R, inst, got, want, "uncompressed chunk framing (name · 0 · len · 0 · payload)", fn.sp)
            continue
        # compressed: the payload is the (unwrapped) result of the compressor applied to the buffer
        payload = got[4][1] if len(got) == 5 and got[4][0] == "raw" else None
        pt = payload
        while pt is not None and pt[0] == "try":
            pt = pt[1]
        okp = pt is not None and pt[0] == "app" and pt[1] == comp_fn.get(v) and pt[2][:1] == (buf_t,)
        if not okp:
            c.violation(R, f"dump|{v}", f"{v} chunk: the payload written is not {comp_fn.get(v)}(buffer, ..): {[_sym.term_str(x[-1]) if isinstance(x[-1], tuple) else x for x in got]}", fn.sp, instance=inst)
            continue
        want = [("raw", name_t), ("le", 4, length_of(payload)), ("le", 4, length_of(buf_t)), ("le", 4, ("c", 0)), ("raw", payload)]
        expect_stream(c, R, inst, got, want, f"{v} chunk framing (name · compressed_len · len(buffer) · 0 · compressed payload)", fn.sp)
    # ---- phase order
    fn = common.find_fn(prog, r"^rbx_binary::serializer::Serializer.*::serialize$")

    def is_phase(n):
        cal = core.callee_generic(n) or ""
        if "serializer::state::SerializerState" in cal:
            return cal.rsplit("::", 1)[-1]
        return None
    ph = [x[1] for x in describe(prog, ioseq.drop_rets(ioseq.skeleton(fn.body, is_phase))) if x[0] == "call"]
    want = ["new", "add_instances", "generate_referents", "write_header", "serialize_metadata", "serialize_shared_strings", "serialize_instances", "serialize_properties", "serialize_parents", "serialize_end"]
    nested = any(x[0] != "call" for x in describe(prog, ioseq.drop_rets(ioseq.skeleton(fn.body, is_phase))))
    if ph == want and not nested:
        c.ok(R, "phases")
    else:
        c.violation(R, "phases|order", f"Serializer::serialize runs phases {ph}{' under control flow' if nested else ''}; the format requires {want}", fn.sp, instance="phases")
    # every chunk built is dumped to self.output; chunk names
    names = {"serialize_shared_strings": b"SSTR", "serialize_instances": b"INST", "serialize_properties": b"PROP", "serialize_parents": b"PRNT"}
    for fname, nm in names.items():
        f = common.find_fn(prog, SS + fname + "$")
        calls = [it for it in ioseq.flat_calls(seq(prog, f))]
        news = [it for it in calls if it[1] == "ChunkBuilder::new"]
        dumps = [it for it in calls if it[1] == "dump"]
        inst = f"chunk:{nm.decode()}"
        ok = len(news) == 1 and len(dumps) == 1 and argdesc(prog, news[0][2]["args"][0]) == ("const", tuple(nm)) \
            and argdesc(prog, news[0][2]["args"][1]) == ("place", "self.serializer.compression") and argdesc(prog, dumps[0][2]["args"][0]) == ("place", "self.output")
        if ok:
            c.ok(R, inst)
        else:
            c.violation(R, f"chunk|{nm.decode()}", f"{fname}: expected exactly one ChunkBuilder::new(b\"{nm.decode()}\", self.serializer.compression) dumped to self.output", f.sp, instance=inst)
    run_count(c, prog)


def run_count(c, prog):
    R = "C03.count"
    c.rule(R, "every length prefix and the loop / array that follows it range over the same collection (same-source rule): SSTR, INST, PRNT, header; class ids are allocated by a monotone counter under a vacant-entry guard; SharedStrings are pushed once")
    # SSTR
    f = common.find_fn(prog, SS + "serialize_shared_strings$")
    d = describe(prog, seq(prog, f))
    body = [x for x in d if x[0] in ("call", "for")]
    want = [("call", "ChunkBuilder::new"), ("call", "write_le_u32", (("const", 0),)), ("call", "write_le_u32", (("len", "self.shared_strings"),)),
            ("for", ("place", "self.shared_strings"), (("call", "write_all", (("const", (0,) * 16),)), ("call", "write_binary_string", (("expr", "shared_string.data()"),)))),
            ("call", "dump")]
    got = [x[:2] if x[0] == "call" and x[1] in ("ChunkBuilder::new", "dump") else x for x in body]
    # loop variable name independence: compare structure of the for body by callee + arg kind
    def norm_for(x):
        if x[0] != "for":
            return x
        inner = tuple((y[0], y[1], tuple(a if a[0] != "expr" else ("expr", a[1].split(".", 1)[-1]) for a in y[2])) for y in x[2])
        return ("for", x[1], inner)
    got = [norm_for(x) for x in got]
    want = [norm_for(x) for x in want]
    expect(c, R, "sstr", got, want, "SSTR chunk (version, count, [16-byte hash, string]*)", f.sp)
    # INST
    f = common.find_fn(prog, SS + "serialize_instances$")
    d = describe(prog, seq(prog, f))
    ok = False
    if len([x for x in d if x[0] == "for"]) == 1:
        fr = [x for x in d if x[0] == "for"][0]
        if fr[1] == ("place", "self.type_infos.values"):
            inner = fr[2]
            names = [(x[1], x[2]) if x[0] == "call" else x[0] for x in inner]
            exp_prefix = [("ChunkBuilder::new",), ("write_le_u32", (("place", "type_info.type_id"),)), ("write_string", (("place", "type_name"),)),
                          ("write_bool", (("place", "type_info.is_service"),)), ("write_le_u32", (("len", "type_info.instances"),))]
            pre = [n if isinstance(n, str) else ((n[0],) if n[0] == "ChunkBuilder::new" else n) for n in names[:5]]
            refarr = inner[5] if len(inner) > 5 else None
            ref_ok = refarr and refarr[0] == "call" and refarr[1] == "write_referent_array"
            # the referent array iterates type_info.instances
            node = [it for it in ioseq.flat_calls(seq(prog, f)) if it[1] == "write_referent_array"]
            src_ok = node and core.place_root(node[0][2]["args"][0])[1][:1] == ["instances"] and core.place_root(node[0][2]["args"][0])[0] == "type_info"
            svc = inner[6] if len(inner) > 6 else None
            svc_ok = svc and svc[0] == "if" and svc[1] == ("place", "type_info.is_service") and len(svc[2]) == 1 and svc[2][0][0] == "for" \
                and svc[2][0][2] == (("call", "write_u8", (("const", 1),)),) and not svc[3]
            # marker loop bound: 0..type_info.instances.len()
            bound_ok = False
            for n in core.walk_fn(f):
                fl = core.as_for(n)
                if fl is not None and core.strip(fl[1]).get("k") == "Struct" and "Range" in (core.strip(fl[1]).get("def") or ""):
                    fields = {x["f"]: x["e"] for x in core.strip(fl[1])["fields"]}
                    if core.lit_value(fields.get("start", {})) == 0 and argdesc(prog, fields.get("end", {})) == ("len", "type_info.instances"):
                        bound_ok = True
            dump_ok = len(inner) > 7 and inner[7][:2] == ("call", "dump")
            ok = pre == exp_prefix and ref_ok and src_ok and svc_ok and bound_ok and dump_ok and len(inner) == 8
            if not ok:
                detail = {"prefix": pre == exp_prefix, "referents": bool(ref_ok and src_ok), "service_markers": bool(svc_ok and bound_ok), "dump": bool(dump_ok), "len": len(inner)}
    if ok:
        c.ok(R, "inst")
    else:
        c.violation(R, "inst|layout", f"INST chunk layout differs from docs/binary.md (class id, name, object format, count, referents of the same instances, one service marker per instance iff service): {locals().get('detail')}", f.sp, instance="inst")
    # PRNT
    f = common.find_fn(prog, SS + "serialize_parents$")
    calls = [it for it in ioseq.flat_calls(ioseq.skeleton(f.body, is_write, into_closures=False))]
    d = [(it[1], tuple(argdesc(prog, a) for a in it[2]["args"])) for it in calls]
    ok = [x[0] for x in d] == ["ChunkBuilder::new", "write_u8", "write_le_u32", "write_referent_array", "write_referent_array", "dump"] \
        and d[1][1] == (("const", 0),) and d[2][1] == (("len", "self.relevant_instances"),)
    srcs = []
    if ok:
        # both arrays are maps over self.relevant_instances
        for nm in ("object_referents", "parent_referents"):
            for st in core.walk_lets(f.body):
                if st["pat"].get("name") == nm:
                    root, path = core.place_root(st["init"])
                    srcs.append((root, tuple(p for p in path if not p.startswith("."))))
        a0 = core.strip(calls[3][2]["args"][0]).get("name")
        a1 = core.strip(calls[4][2]["args"][0]).get("name")
        ok = srcs == [("self", ("relevant_instances",)), ("self", ("relevant_instances",))] and (a0, a1) == ("object_referents", "parent_referents")
    if ok:
        c.ok(R, "prnt")
    else:
        c.violation(R, "prnt|layout", f"PRNT chunk: expected version 0, count = relevant_instances.len(), child array then parent array both over relevant_instances; got {d} sources {srcs}", f.sp, instance="prnt")
    # id_to_referent filled from enumerate(relevant_instances)
    f = common.find_fn(prog, SS + "generate_referents$")
    fl = [core.as_for(n) for n in core.walk_fn(f) if core.as_for(n) is not None and n.get("k") != "DropTemps"]
    ok = False
    if len(fl) == 1:
        it = core.strip(fl[0][1])
        if it.get("k") == "MethodCall" and it["m"] == "enumerate" and core.place_root(it["recv"]) == ("self", ["relevant_instances", ".iter()"]):
            ok = True
    if ok:
        c.ok(R, "referents:dense-enumeration")
    else:
        c.violation(R, "referents|numbering", "generate_referents no longer numbers `relevant_instances` by enumerate() (dense, traversal-ordered referents)", f.sp, instance="referents:dense-enumeration")
    # class ids: get_or_create
    f = common.find_fn(prog, r"serializer::state::TypeInfos.*::get_or_create$")
    ok = False
    for n in core.walk_fn(f):
        if n.get("k") == "If" and core.strip(n["c"]).get("k") == "LetExpr" and "Vacant" in core.pat_str(core.strip(n["c"])["pat"]):
            body = n["t"]
            has_inc = any(x.get("k") == "AssignOp" and x["op"] == "+=" and core.place_root(x["l"]) == ("self", ["next_type_id"]) and core.lit_value(x["r"]) == 1 for x in core.walk(body))
            reads = any(x.get("k") == "Let" for x in [])  # placeholder
            lets = [st for st in core.strip(body)["b"]["stmts"] if st["k"] == "Let" and st["pat"].get("name") == "type_id"]
            takes = lets and core.place_root(lets[0]["init"]) == ("self", ["next_type_id"])
            ok = has_inc and bool(takes)
    if ok:
        c.ok(R, "class-ids:monotone-under-vacant")
    else:
        c.violation(R, "classids|alloc", "TypeInfos::get_or_create no longer assigns `type_id = next_type_id; next_type_id += 1` under the Vacant-entry guard (class ids could repeat or a class get two INST chunks)", f.sp, instance="class-ids:monotone-under-vacant")
    # SharedString pushed once: every shared_strings.push is guarded by !shared_string_ids.contains_key(..) and paired with an insert
    f = common.find_fn(prog, SS + "collect_type_info$")
    pushes = [n for n in core.walk_fn(f) if n.get("k") == "MethodCall" and n["m"] == "push" and core.place_root(n["recv"]) == ("self", ["shared_strings"])]
    c.floor(R, len(pushes), 2, "shared_strings.push sites")
    for idx, pn in enumerate(pushes):
        guarded = False
        for n in core.walk_fn(f):
            if n.get("k") == "If" and any(x is pn for x in core.walk(n["t"])):
                cnd = core.strip(n["c"])
                if cnd.get("k") == "Unary" and cnd["op"] == "!":
                    e = core.strip(cnd["e"])
                    if e.get("k") == "MethodCall" and e["m"] == "contains_key" and core.place_root(e["recv"]) == ("self", ["shared_string_ids"]):
                        ins = [x for x in core.walk(n["t"]) if x.get("k") == "MethodCall" and x["m"] == "insert" and core.place_root(x["recv"]) == ("self", ["shared_string_ids"])]
                        if ins:
                            guarded = True
        inst = f"sstr-once:{idx}"
        if guarded:
            c.ok(R, inst)
        else:
            c.violation(R, f"sstr-once|{core.fingerprint(pn['args'][0], 3)}", "a SharedString is pushed onto shared_strings without the `!shared_string_ids.contains_key(..)` guard and matching insert: the same string can be stored twice in SSTR", core.loc(pn), instance=inst)
