"""C02 — XML round trip.  C02.tags (dispatch tables), C02.float (INF/-INF/NAN literal tables), C02.uid (UniqueId/Ref text),
C02.twopass (referent / SharedString second pass), C02.name (characters vs CDATA), C02.type (per-type duality; sa.shape)."""
import re

from sa import core, tables, discipline as D, decision
from . import common
from .common import vname

XT = "rbx_xml::core::XmlType"
WRITE_ONLY_ALIASES = {"Tags": "BinaryString", "Attributes": "BinaryString", "MaterialColors": "BinaryString", "BrickColor": "int"}


def xml_tag_names(prog):
    """{self type: tag literal} for every impl XmlType"""
    out = {}
    for imp in prog.impls:
        if imp.get("trait") == XT:
            for it in imp["items"]:
                if it["name"] == "XML_TAG_NAME":
                    out[imp["self"]] = common.const_value(prog, it["path"])
    return out


def rule_tags(c, prog):
    R = "C02.tags"
    c.rule(R, "read_value_xml dispatches first-match on the element name: the tag names of all read arms are pairwise distinct; every Variant the writer has an arm for is written under a tag some read arm accepts (or is one of the declared write-only aliases); every type README marks implemented for rbx_xml has both arms")
    tags = xml_tag_names(prog)
    rfn = prog.fn("rbx_xml::types::read_value_xml")
    rm = tables.top_match(rfn, "xml_type_name")
    read_tags = {}
    for arm in rm["arms"]:
        p = arm["pat"]
        if p.get("k") != "Expr":
            continue
        e = p["e"]
        path = e.get("inst") or e.get("def")
        val = common.const_value(prog, path)
        if val is None and e.get("defargs"):
            m = re.match(r"^<(.+) as rbx_xml::core::XmlType>::XML_TAG_NAME$", e["defargs"])
            if m:
                val = tags.get(m.group(1))
        # which Variant does the arm build?
        var = None
        for x in core.walk(arm["body"]):
            if x.get("k") == "Call" and (x["f"].get("def") or "").startswith(common.VARIANT + "::"):
                var = vname(x["f"]["def"])
        if var is None and any(x.get("k") == "Call" and (core.callee(x) or "").endswith("read_shared_string") for x in core.walk(arm["body"])):
            var = "SharedString"
        if val is None:
            c.violation(R, f"read-arm|unresolved|{core.fingerprint(arm['body'], 3)}", "a read_value_xml arm's tag constant could not be resolved", core.loc(arm["body"]))
            continue
        if val in read_tags:
            c.violation(R, f"read-arm|dup|{val}", f"two read arms match the element name `{val}` ({read_tags[val]} and {var}); dispatch is first-match, so the second is dead and that type can never be read", core.loc(arm["body"]), instance=f"read:{val}")
        else:
            read_tags[val] = var
            c.ok(R, f"read:{val}")
    c.floor(R, len(read_tags), 34, "read arms")
    wfn = prog.fn("rbx_xml::types::write_value_xml")
    wm = tables.top_match(wfn, "value")
    written = {}
    for arm in wm["arms"]:
        for alt in tables.pat_alts(arm["pat"]):
            if alt[0] != "ctor":
                continue
            v = vname(alt[1])
            b = core.strip(arm["body"])
            tag = None
            if b.get("k") == "MethodCall" and b["m"] == "write_outer_xml":
                m = re.match(r"^<(.+) as rbx_xml::core::XmlType>::write_outer_xml", b.get("defargs") or "")
                if m:
                    tag = tags.get(m.group(1))
            elif b.get("k") == "Call":
                cal = core.callee(b) or ""
                mod = cal.rsplit("::", 1)[0]
                tag = common.const_value(prog, mod + "::XML_TAG_NAME")
            written[v] = tag
    for v, tag in sorted(written.items()):
        inst = f"write:{v}"
        if tag is None:
            c.violation(R, f"write-arm|{v}|unresolved", f"could not resolve the element name written for Variant::{v}", wfn.sp, instance=inst)
        elif read_tags.get(tag) == v or (v == "String" and read_tags.get(tag) == "String"):
            c.ok(R, inst)
        elif WRITE_ONLY_ALIASES.get(v) == tag:
            c.ok(R, inst + ":declared-alias")
        else:
            c.violation(R, f"write-arm|{v}|{tag}", f"Variant::{v} is written as <{tag}> but the read arm for <{tag}> yields {read_tags.get(tag)}: the value comes back as another type (not one of the documented aliases)", wfn.sp, instance=inst)
    marks = common.readme_support("rbx_xml")
    names = {"ProtectedString": None, "Ref": "Ref", "SharedString": "SharedString"}
    for name, mark in sorted(marks.items()):
        if mark != "✔":
            continue
        v = names.get(name, name)
        if v is None:
            ok = "ProtectedString" in read_tags
        else:
            ok = v in written and (v in read_tags.values() or v in WRITE_ONLY_ALIASES)
        if ok:
            c.ok(R, f"readme:{name}")
        else:
            c.violation(R, f"readme|{name}", f"README marks {name} implemented for rbx_xml but write_value_xml / read_value_xml lack an arm for it", wfn.sp, instance=f"readme:{name}")
    c.sample({"rule": R, "read_tags": read_tags, "written": written})


def rule_float(c, prog, R="C02.float", foreign=False):
    """foreign=True (C05, reader direction): every other text goes to str::parse unfiltered — whatever spelling another
    writer chose (`1e+10`, `+1.5`, `.5`) is read.  foreign=False (C02): the text the own writer produces reaches parse."""
    c.rule(R, "float_type!: the special spellings written (INF, -INF, NAN) are exactly the literals matched on read, guarded by the matching predicates; the fall-through is Display -> str::parse on the same primitive type with no format spec" + (" and no filter in front of it" if foreign else ""))
    for ty, name in (("f32", "float"), ("f64", "double")):
        w = prog.impl_fn(XT, ty, "write_xml")
        r = prog.impl_fn(XT, ty, "read_xml")
        wt = {}
        tb = decision.Tabler(namer=lambda n: core.fingerprint(n, 4), effect_namer=lambda n: core.fingerprint(n, 4))
        for p in tb.paths(w.body):
            conds = tuple(sorted((a, v) for a, v in p.conds))
            lit = None
            for e in p.effects:
                m = re.match(r"writer\.write_characters\((.*)\)$", e)
                if m:
                    lit = m.group(1)
            true_conds = [a for a, v in p.conds if v]
            key = true_conds[-1] if true_conds else "otherwise"
            wt[key] = lit
        want_w = {}
        for k, v in wt.items():
            if "INFINITY" in k and "NEG" not in k:
                want_w["+inf"] = v
            elif "NEG_INFINITY" in k:
                want_w["-inf"] = v
            elif "is_nan" in k:
                want_w["nan"] = v
            else:
                want_w.setdefault("other-all", []).append(v)
        # every path that is not one of the three specials writes the value itself (a fast path that writes a cast or a
        # rounded value is another `other` branch, not a replacement of the last one)
        others = want_w.pop("other-all", [])
        want_w["other"] = "self" if others and all(o == "self" for o in others) else (sorted(set(str(o) for o in others if o != "self"))[0] if others else None)
        rm = tables.top_match(r)
        rt = {}
        for arm in rm["arms"]:
            for alt in tables.pat_alts(arm["pat"]):
                b = tables.unwrap_ok_some(core.strip(arm["body"]))      # `Ok(match ..)` or `match .. => Ok(..)`
                if alt[0] == "lit":
                    rt[alt[1]] = vname(b.get("def", "")) if b.get("k") == "Path" else core.fingerprint(b, 3)
                else:
                    fp_ = core.fingerprint(b, 4)
                    if "parse" not in fp_ and any(x.get("k") == "MethodCall" and x["m"] == "parse" for x in core.walk(arm["body"])):
                        fp_ = "parse…" + fp_
                    if "guard" in arm:
                        if foreign:
                            fp_ = "filtered(" + core.fingerprint(arm["guard"], 3) + ") " + fp_.replace("parse", "p-a-r-s-e")
                        rt.setdefault("_", fp_)
                    elif "parse" in fp_ or "_" not in rt:
                        rt["_"] = fp_
        c.sample({"rule": R, "type": ty, "write": want_w, "read": rt})
        inst = f"{ty}:specials"
        ok = (want_w.get("+inf") == "'INF'" and want_w.get("-inf") == "'-INF'" and want_w.get("nan") == "'NAN'"
              and rt.get("INF") == "INFINITY" and rt.get("-INF") == "NEG_INFINITY" and rt.get("NAN") == "NAN")
        if ok:
            c.ok(R, inst)
        else:
            c.violation(R, f"{ty}|specials", f"{ty}: specials are written as {want_w} but read as {rt}; the three spellings must map back to the same three values", w.sp, instance=inst)
        inst = f"{ty}:fallthrough"
        if want_w.get("other") == "self" and "parse" in (rt.get("_") or ""):
            c.ok(R, inst)
        else:
            c.violation(R, f"{ty}|fallthrough", f"{ty}: finite values must be written with plain Display (`write_characters(self)`) and read with `parse()`; got write {want_w.get('other')} / read {str(rt.get('_')).replace('p-a-r-s-e', 'parse')}", w.sp, instance=inst)
        tagv = common.const_value(prog, [it["path"] for imp in prog.impls if imp.get("trait") == XT and imp["self"] == ty for it in imp["items"] if it["name"] == "XML_TAG_NAME"][0])
        if tagv == name:
            c.ok(R, f"{ty}:tag")
        else:
            c.violation(R, f"{ty}|tag", f"{ty} is written under <{tagv}>, docs/xml.md names it <{name}>", w.sp, instance=f"{ty}:tag")
    # every float that reaches the text goes through those impls: a value type that hands an f32 / f64 (or a slice of
    # them) straight to the Display-based helpers spells INF / -INF / NAN the way Rust does (inf, -inf, NaN)
    n_routes = 0
    for f in prog.lib_fns():
        if f.crate != "rbx_xml" or f.body is None or "::types::" not in f.path:
            continue
        if re.search(r"impl rbx_xml::core::XmlType for f(32|64)>", f.path):
            continue
        bad = []
        for x in core.walk_fn(f):
            if x.get("k") == "MethodCall" and x["m"] in ("write_characters", "write_tag_characters", "write_tag_array") and re.search(r"XmlEventWriter", core.callee_generic(x) or core.callee(x) or "") and x["args"]:
                a = x["args"][-1] if x["m"] == "write_characters" else x["args"][-1 if x["m"] == "write_tag_characters" else 0]
                ty = (core.strip(a).get("ty") or "") + " " + (a.get("aty") or "")
                if re.search(r"\bf(32|64)\b", ty):
                    bad.append(x)
        if bad or any(x.get("k") == "MethodCall" and x["m"] == "write_xml" and re.search(r"^f(32|64)$", (core.strip(x["recv"]).get("ty") or "").lstrip("&")) for x in core.walk_fn(f)):
            n_routes += 1
        inst = f"float-route:{core.short(f.path)}"
        if bad:
            tyname = re.search(r"XmlType for ([\w:<>]+)>::", f.path)
            c.violation(R, f"float-route|{tyname.group(1) if tyname else f.path}", f"{core.short(f.path)} formats a float with `{bad[0]['m']}` (Rust's Display) instead of the `float` writer: an infinite or NaN component is written as inf / -inf / NaN, where docs/xml.md requires INF / -INF / NAN in upper case — rbx_xml reads its own spelling back (Rust's parser is case-insensitive), a decoder written from the document does not", core.loc(bad[0]), instance=inst)
        elif any(x.get("k") == "MethodCall" and x["m"] in ("write_characters", "write_tag_characters", "write_tag_array", "write_xml") for x in core.walk_fn(f)) and f.path.endswith("::write_xml"):
            c.ok(R, inst)
    # XmlEventWriter::write_characters formats with plain `{}` (no precision / width)
    wc = common.find_fn(prog, r"serializer_core::XmlEventWriter.*::write_characters$")
    fa = core.format_args(wc)
    kinds = [k for k, _ in fa]
    pieces = [x for x in core.walk_fn(wc) if x.get("k") == "Call" and (core.callee(x) or "").endswith("fmt::Arguments::<'a>::new")]
    spec_ok = kinds == ["new_display"]
    if pieces:
        lit = core.strip(pieces[0]["args"][0])
        v = lit.get("lit", {}).get("v") if lit.get("k") == "Lit" else None
        # rustc's compact format template: a bare `{}` has no width/precision bytes; accept only the exact bare form seen for "{}"
        spec_ok = spec_ok and v is not None and len(v) <= 3
    if spec_ok:
        c.ok(R, "write_characters:plain-display")
    else:
        c.violation(R, "write_characters|format", f"XmlEventWriter::write_characters no longer formats with a bare `{{}}` ({kinds}); a width or precision would round floats", wc.sp, instance="write_characters:plain-display")


def rule_twopass(c, prog):
    R = "C02.twopass"
    c.rule(R, "reader: every Ok path of decode_internal runs apply_referent_rewrites and apply_shared_string_rewrites after deserialize_root, and read_ref/read_shared_string register a rewrite for every non-null value; writer: serialize_shared_strings runs after the last serialize_instance, write_shared_string registers the string, map_id is the only referent allocator")
    fn = prog.fn("rbx_xml::deserializer::decode_internal")
    cfg = D.CFG(fn)
    calls = {name: {i for i, cal, g, t in D.mir_calls(fn) if cal and cal.endswith(name)} for name in ("deserialize_root", "apply_referent_rewrites", "apply_shared_string_rewrites")}
    dom = cfg.dominators()
    ok_blocks = [i for i, bb in enumerate(cfg.blocks) for st in bb["stmts"] if st["k"] == "assign" and st.get("rk", "").startswith("agg:core::result::Result::Ok")]
    for name in ("apply_referent_rewrites", "apply_shared_string_rewrites"):
        inst = f"reader:{name}"
        ok = bool(calls[name]) and bool(calls["deserialize_root"]) and bool(ok_blocks) and all(any(b in dom.get(o, ()) for b in calls[name]) for o in ok_blocks) \
            and all(any(r in dom.get(b, ()) for r in calls["deserialize_root"]) for b in calls[name])
        if ok:
            c.ok(R, inst)
        else:
            c.violation(R, f"reader|{name}", f"decode_internal: a success return is not dominated by `{name}` (after deserialize_root): forward references / shared strings would stay unresolved", fn.sp, instance=inst)
    # every queued rewrite is visited: an entry that cannot be resolved is skipped on its own, it does not end the pass
    TERMINATING = {"map_while", "take_while", "take", "find", "find_map", "any", "all", "position", "nth", "last", "next", "step_by", "scan", "try_for_each", "try_fold", "skip", "skip_while", "rev"}
    for name in ("apply_referent_rewrites", "apply_shared_string_rewrites"):
        f2 = prog.fn("rbx_xml::deserializer::" + name)
        inst = f"reader:{name}-visits-all"
        bad = None
        n_it = 0
        for n in core.walk_fn(f2):
            if n.get("k") == "DropTemps":
                continue
            fl = core.as_for(n)
            srcs = []
            if fl is not None:
                srcs = [fl[1]]
                if any("Rewrite" in (y.get("ty") or "") for y in core.walk(fl[1])):
                    n_it += 1
                    exits = [y for y in core.walk(fl[2], into_closures=False) if y.get("k") == "Break" or (y.get("k") == "Ret" and core.as_try(y) is None and not any(core.as_try(w) is not None and any(v is y for v in core.walk(w)) for w in core.walk(fl[2])))]
                    if exits:
                        bad = ("the loop over the queued rewrites can `break` / `return`", core.loc(exits[0]))
            if n.get("k") == "MethodCall" and n["m"] in TERMINATING and "Iterator" in (core.callee_generic(n) or "") and any("Rewrite" in (y.get("ty") or "") for y in core.walk(n["recv"])):
                bad = (f"`{n['m']}` ends the walk over the queued rewrites at the first entry it rejects", core.loc(n))
            if n.get("k") == "MethodCall" and n["m"] in ("iter", "into_iter", "drain") and "Rewrite" in (core.strip(n["recv"]).get("ty") or ""):
                n_it += 1
        if bad:
            c.violation(R, f"reader|{name}|stops-early", f"{name}: {bad[0]} — one reference to an instance outside the file (a referent no <Item> declares) leaves every later reference of the file unresolved", bad[1], instance=inst)
        elif n_it:
            c.ok(R, inst)
        else:
            c.not_decided.append(f"{name}: no iteration over the queued rewrites was recognised")
    # read_ref: non-null => add_referent_rewrite
    fn = prog.fn("rbx_xml::types::referent::read_ref")
    ok = False
    for n in core.walk_fn(fn):
        if n.get("k") == "If":
            cnd = core.strip(n["c"])
            if cnd.get("k") != "Binary" or cnd["op"] not in ("!=", "==") or "null" not in (core.lit_value(cnd["r"]), core.lit_value(cnd["l"])):
                continue
            text_side = cnd["l"] if core.lit_value(cnd["r"]) == "null" else cnd["r"]
            adds = [x for x in core.walk_fn(fn) if x.get("k") == "MethodCall" and x["m"] == "add_referent_rewrite"]
            in_then = {id(x) for x in core.walk(n["t"])}
            in_if = {id(x) for x in core.walk(n)}
            if cnd["op"] == "!=":
                # `if text != "null" { register }`
                adds = [x for x in adds if id(x) in in_then]
            else:
                # `if text == "null" { return .. }` and the registration after it, outside the test
                leaves = any(x.get("k") == "Ret" for x in core.walk(n["t"], into_closures=False))
                adds = [x for x in adds if id(x) not in in_if and sp_after(x, n)] if leaves else []
            if adds:
                a = adds[0]
                # (the instance being read: the Ref parameter, the property name parameter, the referent text just read)
                idl = common.param_lid_by_type(fn, lambda t: t.endswith("referent::Ref"))
                nml = common.param_lid_by_type(fn, lambda t: t.lstrip("&").strip() in ("str", "ustr::Ustr"))
                ok = idl is not None and nml is not None and core.strip(a["args"][0]).get("lid") == idl and common.derives_from(fn, a["args"][1], nml) \
                    and common.local_from_call(fn, a["args"][2], "read_tag_contents") and common.derives_from(fn, text_side, core.strip(a["args"][2]).get("lid"))
    if ok:
        c.ok(R, "reader:read_ref-registers")
    else:
        c.violation(R, "reader|read_ref", "read_ref no longer registers (instance id, property name, referent text) for every non-`null` value", fn.sp, instance="reader:read_ref-registers")
    fn = prog.fn("rbx_xml::types::shared_string::read_shared_string")
    a = [x for x in core.walk_fn(fn) if x.get("k") == "MethodCall" and x["m"] == "add_shared_string_rewrite"]
    idl = common.param_lid_by_type(fn, lambda t: t.endswith("referent::Ref"))
    nml = common.param_lid_by_type(fn, lambda t: t.lstrip("&").strip() in ("str", "ustr::Ustr"))
    ok = len(a) == 1 and idl is not None and nml is not None and core.strip(a[0]["args"][0]).get("lid") == idl and common.derives_from(fn, a[0]["args"][1], nml) \
        and common.local_from_call(fn, a[0]["args"][2], "read_tag_contents")
    # unconditional
    if ok and not any(n.get("k") == "If" and any(x is a[0] for x in core.walk(n)) for n in core.walk_fn(fn)):
        c.ok(R, "reader:read_shared_string-registers")
    else:
        c.violation(R, "reader|read_shared_string", "read_shared_string no longer registers (instance, property name, hash text) unconditionally", fn.sp, instance="reader:read_shared_string-registers")
    # the property name handed to read_value_xml for known properties is the canonical descriptor name
    fn = prog.fn("rbx_xml::deserializer::deserialize_properties")
    calls_rv = [x for x in core.walk_fn(fn) if x.get("k") == "Call" and (core.callee(x) or "").endswith("types::read_value_xml")]
    roles = []
    for x in calls_rv:
        arg = x["args"][4]
        r, p = core.place_root(arg)
        base = core.strip(arg)
        while base.get("k") in ("Field", "MethodCall", "AddrOf", "Unary"):
            base = core.strip(base.get("e") or base.get("recv"))
        is_desc = "PropertyDescriptor" in ((base.get("ty") or "") + (base.get("aty") or ""))
        roles.append(("descriptor" if is_desc else r, tuple(q for q in p if not q.startswith("."))))
    c.sample({"rule": R, "read_value_xml_property_name_args": roles})
    known = [r for r in roles if r[0] == "descriptor"]
    if len(calls_rv) >= 3 and known == [("descriptor", ("name",))]:
        c.ok(R, "reader:rewrite-key=canonical-name")
    else:
        c.violation(R, "reader|rewrite-key", f"deserialize_properties passes {roles} as the property name under which deferred Ref/SharedString rewrites are filed; for database-known properties it must be the canonical `descriptor.name` (the value is stored under that name), otherwise the resolved reference lands under the serialized name and the canonical property stays null", fn.sp, instance="reader:rewrite-key=canonical-name")
    # writer
    fn = prog.fn("rbx_xml::serializer::encode_internal")
    cfg = D.CFG(fn)
    ser_inst = D.mir_calls_carrying(fn, r"serializer::serialize_instance$")
    ser_ss = D.mir_calls_carrying(fn, r"serializer::serialize_shared_strings$")
    ok = bool(ser_inst) and len(ser_ss) == 1 and not any(i in cfg.reachable_from(list(ser_ss)[0]) for i in ser_inst)
    dom = cfg.dominators()
    ok_blocks = [i for i, bb in enumerate(cfg.blocks) for st in bb["stmts"] if st["k"] == "assign" and st.get("rk", "").startswith("agg:core::result::Result::Ok")]
    ok = ok and all(list(ser_ss)[0] in dom.get(o, ()) for o in ok_blocks)
    if ok:
        c.ok(R, "writer:dictionary-after-items")
    else:
        c.violation(R, "writer|dictionary", "encode_internal: serialize_shared_strings must run exactly once, after every serialize_instance, on every success path (strings met later would be missing from the dictionary)", fn.sp, instance="writer:dictionary-after-items")
    fn = prog.fn("rbx_xml::types::shared_string::write_shared_string")
    a = [x for x in core.walk_fn(fn) if x.get("k") == "MethodCall" and x["m"] == "add_shared_string"]
    if len(a) == 1 and core.place_root(a[0]["args"][0])[0] == "value":
        c.ok(R, "writer:write_shared_string-registers")
    else:
        c.violation(R, "writer|register", "write_shared_string no longer registers the value with state.add_shared_string", fn.sp, instance="writer:write_shared_string-registers")
    # the dictionary defines every hash a property element refers to: the collection filled by add_shared_string only
    # grows, and serialize_shared_strings writes an entry for each of its elements unconditionally
    SS_COLL = re.compile(r"(BTreeMap|HashMap|BTreeSet|HashSet|Vec|IndexMap)<.*shared_string::SharedString")

    def peel(ty):
        ty = ty or ""
        while ty.startswith("&"):
            ty = ty[5:] if ty.startswith("&mut ") else ty[1:]
        return ty

    def is_dict(n):
        n = core.strip(n)
        while n.get("k") in ("AddrOf", "Unary"):
            n = core.strip(n["e"])
        return n.get("k") == "Field" and "EmitState" in peel(core.strip(n["e"]).get("ty")) and SS_COLL.search(peel(n.get("ty"))) is not None
    GROW = {"insert", "entry", "extend", "push", "or_insert", "or_insert_with"}
    READ = {"values", "iter", "keys", "len", "is_empty", "get", "contains_key", "contains", "into_iter", "clone"}
    shrink = []
    n_dict = 0
    for f2 in prog.lib_fns():
        if f2.body is None or f2.crate != "rbx_xml":
            continue
        for x in core.walk_fn(f2):
            if x.get("k") == "MethodCall" and is_dict(x["recv"]):
                n_dict += 1
                if x["m"] not in GROW | READ:
                    shrink.append((f2.path, x["m"], core.loc(x)))
    # registration is unconditional: every function that grows the collection does so on every path
    for f2 in prog.lib_fns():
        if f2.body is None or f2.crate != "rbx_xml":
            continue
        grows = [x for x in core.walk_fn(f2) if x.get("k") == "MethodCall" and is_dict(x["recv"]) and x["m"] in GROW]
        if not grows:
            continue
        cond = [y for y in core.walk_fn(f2) if (y.get("k") == "If" or (y.get("k") == "Match" and y.get("src") == "Normal")) and (any(g_ is z for g_ in grows for z in core.walk(y)) or any(z.get("k") == "Ret" and core.as_try(z) is None for z in core.walk(y)))]
        if cond:
            shrink.append((f2.path, "conditional " + grows[0]["m"], core.loc(cond[0])))
    ssf = prog.fn("rbx_xml::serializer::serialize_shared_strings")
    loop_ok = False
    why = "no loop over the collected strings writes the entries"
    for n in core.walk_fn(ssf):
        if n.get("k") == "DropTemps":
            continue
        fl = core.as_for(n)
        if fl is None:
            continue
        writes = [x for x in core.walk(fl[2]) if x.get("k") == "MethodCall" and x["m"] in ("write", "write_string", "write_characters", "end_element")]
        if not writes or not any(is_dict(y) for y in core.walk(fl[1])):
            continue
        adapt = [y["m"] for y in core.walk(fl[1]) if y.get("k") == "MethodCall" and y["m"] not in ("values", "iter", "into_iter", "keys", "cloned", "copied", "enumerate")]
        skips = [y.get("k") for y in core.walk(fl[2], into_closures=False) if y.get("k") in ("Continue", "Break")]
        conds = [y for y in core.walk(fl[2], into_closures=False) if (y.get("k") == "If" or (y.get("k") == "Match" and y.get("src") == "Normal")) and any(w is z for w in writes for z in core.walk(y))]
        if adapt:
            why = f"the loop iterates the collection through {adapt}"
        elif skips:
            why = "the loop body can `continue` / `break` past an entry"
        elif conds:
            why = f"an entry is written only under a condition ({core.fingerprint(conds[0].get('c') or conds[0].get('e'), 3)[:60]})"
        else:
            loop_ok = True
    if shrink:
        c.violation(R, f"writer|dictionary-shrinks|{shrink[0][1].replace(' ', '-')}", f"{shrink[0][0]} applies `{shrink[0][1]}` to the set of SharedStrings to emit: a string whose hash a property element refers to is missing from the dictionary, and the reader leaves its empty-BinaryString placeholder in place of it", shrink[0][2], instance="writer:dictionary-complete")
    elif not loop_ok:
        c.violation(R, "writer|dictionary-skips", f"serialize_shared_strings does not write an entry for every collected SharedString ({why}): the property element still carries the hash, so the value comes back as the reader's placeholder (an empty BinaryString) instead of the SharedString", ssf.sp, instance="writer:dictionary-complete")
    elif n_dict < 2:
        raise core.AnchorMissing("the SharedString dictionary collection of EmitState was not found")
    else:
        c.ok(R, "writer:dictionary-complete")
    # hash text identical on both sides: both base64-encode the same function of the string's hash (symbolic value of the
    # first base64::encode argument, with the string itself as the only free variable)
    from sa import sym as _sym, wire as _wire

    def hash_term(f):
        got = []

        def enc(I, n, path, a, env):
            got.append(I.eval(a[0], env))
            return ("app", "b64", ())

        def opaque(I, n, path, a, env):
            for x in a:
                I.eval(x, env)
            return _sym.var(_sym.OK, _sym.UNIT)
        prims = [(re.compile(r"^base64::encode"), enc), (re.compile(r"XmlEventWriter::<W>::"), opaque), (re.compile(r"EmitState::<'db>::add_shared_string$"), opaque)]
        env = {}
        for prm in f.params:
            for b in core.walk(prm):
                if b.get("k") == "Binding":
                    env[b["lid"]] = ("in", b["name"])
        try:
            _wire.run_region(prog, f.body, env, prims, depth=4, opaque={"rbx_types::shared_string::SharedString::hash", "rbx_types::shared_string::SharedString::data"})
        except _sym.Unsupported:
            return None
        hashes = [t for t in got if "SharedString::hash" in repr(t)]
        if not hashes:
            return None
        t = hashes[0]

        def strip_arg(x):
            if isinstance(x, tuple) and x and x[0] == "app" and isinstance(x[1], str) and x[1].endswith("SharedString::hash"):
                return ("app", x[1], (("in", "the-string"),))
            if isinstance(x, tuple):
                return tuple(strip_arg(y) if isinstance(y, tuple) else y for y in x)
            return x
        return strip_arg(t)
    h1 = hash_term(fn)
    h2 = hash_term(prog.fn("rbx_xml::serializer::serialize_shared_strings"))
    if h1 is not None and h1 == h2:
        c.ok(R, "writer:same-hash-text")
    else:
        c.violation(R, "writer|hash-text", f"the hash text written by write_shared_string ({_sym.term_str(h1, 5) if h1 else None}) differs from the dictionary key written by serialize_shared_strings ({_sym.term_str(h2, 5) if h2 else None})", fn.sp, instance="writer:same-hash-text")
    # write_ref maps through map_id (allocating), null iff is_none
    fn = prog.fn("rbx_xml::types::referent::write_ref")
    ok = False
    for n in core.walk_fn(fn):
        if n.get("k") == "If":
            cnd = core.strip(n["c"])
            if cnd.get("k") == "MethodCall" and cnd["m"] in ("is_none", "is_some") and core.strip(cnd["recv"]).get("lid") == common.param_lid_by_type(fn, lambda t: t.endswith("referent::Ref")) and "f" in n:
                none_br, some_br = (n["t"], n["f"]) if cnd["m"] == "is_none" else (n["f"], n["t"])
                t_null = any(core.lit_value(x) == "null" for x in core.walk(none_br) if x.get("k") == "Lit") and not any(x.get("k") == "MethodCall" and x["m"] == "map_id" for x in core.walk(none_br))
                f_map = any(x.get("k") == "MethodCall" and x["m"] == "map_id" for x in core.walk(some_br)) and not any(core.lit_value(x) == "null" for x in core.walk(some_br) if x.get("k") == "Lit")
                ok = t_null and f_map
    if ok:
        c.ok(R, "writer:write_ref-map_id")
    else:
        c.violation(R, "writer|write_ref", "write_ref must write `null` iff the Ref is none and otherwise the number allocated by state.map_id(value) (a lookup that does not allocate loses forward references)", fn.sp, instance="writer:write_ref-map_id")
    users = set()
    for f in prog.lib_fns():
        for m in D.field_mutations(f):
            if m["field"] in ("rbx_xml::serializer::EmitState.referent_map", "rbx_xml::serializer::EmitState.next_referent") and m["how"] != "borrow_mut" and not m["how"].endswith("::get"):
                users.add(f.path)
    if users <= {"rbx_xml::serializer::EmitState::<'db>::map_id"}:
        c.ok(R, "writer:map_id-sole-allocator")
    else:
        c.violation(R, "writer|allocator", f"referent numbers are allocated outside EmitState::map_id: {sorted(users)}", "", instance="writer:map_id-sole-allocator")


def sp_after(a, b):
    """a starts after b ends (source order)"""
    def key(n, end=False):
        parts = (n.get("sp") or "").split(":")
        try:
            return (int(parts[3]), int(parts[4])) if end and len(parts) >= 5 else (int(parts[1]), int(parts[2]))
        except (IndexError, ValueError):
            return (0, 0)
    return key(a) >= key(b, end=True)


def C02_contains(t, sub):
    if t == sub:
        return True
    if isinstance(t, tuple):
        return any(C02_contains(x, sub) for x in t)
    return False


# characters every string of C02's quantifier may contain (`all strings made of characters legal in XML 1.0`): the
# whitespace and markup characters, the two legal C0/C1 neighbours of the forbidden ranges, and some ordinary text
LEGAL_XML_CHARS = [" ", "\t", "\n", "\r", "a", "Z", "0", "<", ">", "&", "]", "[", "!", '"', "'", "\x7f", "\x85", "\xa0", "\xe9", "\u2028", "\u4e2d", "\ud7ff", "\ue000", "\ufffd", "\U00010000", "\U0001f600", "\U0010ffff"]


class _NotConcrete(Exception):
    pass


def char_pred(t, elem, ch):
    """truth of a closure's result term `t` when its argument `elem` is the concrete character `ch` — for predicates
    made of comparisons with literals, ranges, char class methods and boolean structure; anything else: _NotConcrete"""
    import ast
    import unicodedata

    def val(x):
        if x == elem:
            return ch
        if isinstance(x, tuple) and x and x[0] == "c":
            return x[1]
        if isinstance(x, tuple) and x and x[0] in ("deref", "ref", "copy") and len(x) == 2:
            return val(x[1])
        if isinstance(x, tuple) and x and x[0] == "cast" and val(x[1]) is not None:
            v = val(x[1])
            return ord(v) if isinstance(v, str) and len(v) == 1 else v
        raise _NotConcrete(repr(x)[:80])

    def lit(sx):
        try:
            d = ast.literal_eval(sx)
            return d["lit"]["v"] if isinstance(d, dict) and "lit" in d else (d.get("e", {}).get("lit", {}).get("v") if isinstance(d, dict) else None)
        except (ValueError, SyntaxError):
            return None

    def go(x):
        if x is True or x is False:
            return x
        if not isinstance(x, tuple) or not x:
            raise _NotConcrete(repr(x)[:80])
        k = x[0]
        if k == "c" and isinstance(x[1], bool):
            return x[1]
        if k == "not":
            return not go(x[1])
        if k == "un" and x[1] == "!":
            return not go(x[2])
        if k == "and":
            return all(go(y) for y in x[1])
        if k == "or":
            return any(go(y) for y in x[1])
        if k == "else":
            return not any(go(y) for y in x[1])
        if k == "phi":
            for cnd, y in x[1]:
                if go(cnd):
                    return go(y)
            raise _NotConcrete("phi without a true alternative")
        if k == "op" and x[1] in ("||", "&&"):
            return (go(x[2]) or go(x[3])) if x[1] == "||" else (go(x[2]) and go(x[3]))
        if k == "op" and x[1] in ("==", "!=", "<", "<=", ">", ">="):
            a, b = val(x[2]), val(x[3])
            if type(a) is not type(b):
                raise _NotConcrete("mixed comparison")
            return {"==": a == b, "!=": a != b, "<": a < b, "<=": a <= b, ">": a > b, ">=": a >= b}[x[1]]
        if k == "inrange":
            lo, hi = lit(x[2]), lit(x[3])
            v = val(x[1])
            if lo is None or hi is None or type(lo) is not type(v):
                raise _NotConcrete("range bounds")
            return lo <= v <= hi
        if k == "app" and isinstance(x[1], str) and len(x[2]) == 1 and isinstance(val(x[2][0]), str):
            m = x[1].rsplit("::", 1)[-1]
            v = val(x[2][0])
            if m == "is_control":
                return unicodedata.category(v) == "Cc"
            if m == "is_ascii_control":
                return ord(v) < 0x20 or ord(v) == 0x7f
            if m == "is_whitespace":
                return v.isspace() or v in "\x85\u2028"
            if m == "is_ascii_whitespace":
                return v in " \t\n\r\x0c"
            if m == "is_ascii":
                return ord(v) < 0x80
        raise _NotConcrete(repr(x)[:80])
    return go(t)


def rule_name(c, prog):
    R = "C02.name"
    c.rule(R, "Name is written from instance.name through the String type and read back into the instance name; character data is written as CDATA exactly when it has leading or trailing whitespace (the case the whitespace-dropping reader would lose); read_characters joins every adjacent Characters/CData event")
    fn = prog.fn("rbx_xml::serializer_core::write_characters_or_cdata")
    # decided over all 16 valuations of {first char exists, it is whitespace, last char exists, it is whitespace}: the
    # function writes CDATA exactly when (first exists and is whitespace) or (last exists and is whitespace).  The
    # decision is read off the symbolic events, so match / map_or / if-let spellings are all the same thing.
    import itertools
    from sa import sym, wire

    def p_write(I, n, path, arg_nodes, env):
        args = [I.eval(a, env) for a in arg_nodes]
        I.emit(("sink", "write", ("tup", tuple(args)), core.loc(n)))
        return sym.var(sym.OK, sym.UNIT)
    ok = False
    why = ""
    try:
        vt = ("in", "value")
        env = {prm["lid"]: (vt if (prm.get("ty") or "").lstrip("&").strip() == "str" else ("in", prm["name"])) for prm in fn.params}
        I, val, ex = wire.run_region(prog, fn.body, env, [(re.compile(r"EventWriter::<W>::write$"), p_write)], depth=4)

        def find_opts(t, out):
            if isinstance(t, (tuple, list)) and t:
                if isinstance(t, tuple) and t[0] == "app" and isinstance(t[1], str) and t[1].endswith(("::next", "::next_back")) and not any(o == t for o in out):
                    out.append(t)
                for x in t:
                    find_opts(x, out)
            return out
        opts = []
        for e in I.events:
            find_opts(e, opts)
        if val is not None:
            find_opts(val, opts)
        firsts = [o for o in opts if o[1].endswith("::next")]
        lasts = [o for o in opts if o[1].endswith("::next_back")]

        def find_apps(t, suffixes, out):
            if isinstance(t, (tuple, list)) and t:
                if isinstance(t, tuple) and t[0] == "app" and isinstance(t[1], str) and t[1].endswith(suffixes) and t not in out:
                    out.append(t)
                for x in t:
                    find_apps(x, suffixes, out)
            return out
        sw = []
        for e in I.events:
            find_apps(e, ("str>::starts_with", "str>::ends_with"), sw)
        if val is not None:
            find_apps(val, ("str>::starts_with", "str>::ends_with"), sw)
        # `value.starts_with(char::is_whitespace)` is the same probe as `value.chars().next().map_or(false, is_whitespace)`
        sw = [t for t in sw if len(t[2]) == 2 and t[2][0] == vt and "is_whitespace" in sym.term_str(t[2][1], 4)]
        has_first = len(firsts) == 1 or any(t[1].endswith("starts_with") for t in sw)
        has_last = len(lasts) == 1 or any(t[1].endswith("ends_with") for t in sw)
        if len(firsts) > 1 or len(lasts) > 1 or not has_first or not has_last:
            raise sym.Unsupported(f"expected one first-character and one last-character probe, found {len(firsts)}/{len(lasts)} (+{len(sw)} starts_with/ends_with)")
        FIRST = firsts[0] if firsts else None
        LAST = lasts[0] if lasts else None
        bad = []
        for F, WF, L, WL in itertools.product((False, True), repeat=4):
            if (not F and WF) or (not L and WL) or (F != L):
                continue      # a string has a first character iff it has a last one

            def oracle(t, F=F, WF=WF, L=L, WL=WL):
                if t[0] == "app" and t[1] == "search:any" and t[2][0] == ("chars", vt):
                    # a scan of the whole text (`value.chars().any(pred)`): false for every string of the quantifier
                    # when pred is false on every character such a string can contain; otherwise not decided here
                    try:
                        hit = [ch for ch in LEGAL_XML_CHARS if char_pred(t[2][1], t[2][2], ch)]
                    except _NotConcrete:
                        return None
                    if not hit:
                        return False
                    raise sym.Unsupported(f"the function scans the whole text and takes a different path when it contains {hit[0]!r} (U+{ord(hit[0]):04X}), a character legal in XML 1.0")
                if t[0] == "app" and t in sw:
                    return (F and WF) if t[1].endswith("starts_with") else (L and WL)
                if t[0] == "is" and t[2] == sym.SOME and t[1] in (FIRST, LAST) and t[1] is not None:
                    return F if t[1] == FIRST else L
                if t[0] == "app" and t[1].endswith("::is_whitespace") and len(t[2]) == 1:
                    a = t[2][0]
                    if FIRST is not None and C02_contains(a, FIRST):
                        return WF
                    if LAST is not None and C02_contains(a, LAST):
                        return WL
                return None
            evs, x = sym.taken_path(I.events, oracle)
            writes = [e for e in evs if e[0] == "sink" and e[1] == "write"]
            if len(writes) != 1:
                bad.append(((F, WF, L, WL), f"{len(writes)} writes"))
                continue
            arg = writes[0][2][1][-1]
            # the event written may itself be a phi over the decision
            while arg[0] == "phi":
                for cnd, alt in arg[1]:
                    if sym.eval_bool(cnd, oracle):
                        arg = alt
                        break
                else:
                    break
            kind = "cdata" if (arg[0] == "app" and arg[1].endswith("::cdata")) else ("characters" if (arg[0] == "app" and arg[1].endswith("::characters")) else "?")
            want = "cdata" if ((F and WF) or (L and WL)) else "characters"
            if kind != want or arg[2][:1] != (vt,):
                bad.append(((F, WF, L, WL), kind))
        ok = not bad
        rows = {str(k): v for k, v in bad}
    except (sym.Unsupported, sym.Undetermined, core.AnalysisError) as e:
        rows = {"error": f"outside the symbolic model: {e}"}
    if ok:
        c.ok(R, "cdata-iff-outer-whitespace")
    else:
        c.violation(R, "cdata|decision", f"write_characters_or_cdata: CDATA must be chosen iff the first or last character is whitespace; differing cases (first exists, first is ws, last exists, last is ws) -> written: {rows}", fn.sp, instance="cdata-iff-outer-whitespace")
    fn = common.find_fn(prog, r"deserializer_core::XmlEventReader.*::read_characters$")
    loops = [n for n in core.walk_fn(fn) if n.get("k") == "Loop" and n.get("src") == "While"]
    ok = False
    for lp in loops:
        if any(x.get("k") == "MethodCall" and x["m"] == "read_one_characters_event" for x in core.walk(lp)) and any(x.get("k") == "MethodCall" and x["m"] == "push_str" for x in core.walk(lp)):
            ok = True
    if ok:
        c.ok(R, "read_characters:joins-all-runs")
    else:
        c.violation(R, "read_characters|loop", "read_characters no longer loops over read_one_characters_event appending every adjacent Characters/CData run (text split by xml-rs, e.g. around `]]>`, would be truncated or rejected)", fn.sp, instance="read_characters:joins-all-runs")
    fn = prog.fn("rbx_xml::serializer::serialize_instance")
    ok = False
    for x in core.walk_fn(fn):
        if x.get("k") == "Call" and (core.callee(x) or "").endswith("types::write_value_xml") and core.lit_value(x["args"][2]) == "Name":
            fp = core.fingerprint(x["args"][3], 5)
            ok = "Variant::String(instance.name" in fp
    if ok:
        c.ok(R, "writer:Name=instance.name")
    else:
        c.violation(R, "name|writer", "serialize_instance no longer writes the `Name` element from instance.name as a String", fn.sp, instance="writer:Name=instance.name")
    fn = prog.fn("rbx_xml::deserializer::deserialize_instance")
    ok = any(m["field"] == "rbx_dom_weak::instance::Instance.name" and m["how"] == "assign" for m in D.field_mutations(fn))
    if ok:
        c.ok(R, "reader:name-assigned")
    else:
        c.violation(R, "name|reader", "deserialize_instance no longer assigns the decoded Name to instance.name", fn.sp, instance="reader:name-assigned")


def rule_pack(c, prog):
    """Color3uint8 <-> packed u32 text, decided in the GF(2)-affine bit domain for all 2^24 colours at once"""
    from sa import algebra
    from sa.algebra import Bits, BitEval, NotAffine
    R = "C02.pack"
    c.rule(R, "decode_packed_color3(encode_packed_color3(c)) = c for every Color3uint8 (exact bit-vector abstract interpretation); the packed layout is 0x00RRGGBB with the top byte ignored on read")
    enc = prog.fn("rbx_xml::types::colors::encode_packed_color3")
    dec = prog.fn("rbx_xml::types::colors::decode_packed_color3")
    x = {f: Bits.input(f, 8) for f in ("r", "g", "b")}
    inst = "codec:packed_color3"
    try:
        be = BitEval(prog)
        y = be.ev(enc.body, {enc.params[0]["lid"]: x})
        if isinstance(y, dict) or y.width != 32:
            raise NotAffine("encode_packed_color3 does not produce a u32")
        z = be.ev(dec.body, {dec.params[0]["lid"]: y})
        if not isinstance(z, dict) or set(z) != {"r", "g", "b"}:
            raise NotAffine("decode_packed_color3 does not produce a Color3uint8")
    except NotAffine as e:
        c.violation(R, "packed_color3|cannot-establish", f"cannot establish decode(encode(c)) = c for the packed Color3 text form: {e}", enc.sp, instance=inst)
        return
    bad = [f for f in ("r", "g", "b") if not z[f].same(x[f])]
    if bad:
        c.violation(R, "packed_color3|not-identity", f"decode_packed_color3(encode_packed_color3(c)) differs from c in component(s) {bad}: e.g. {bad[0]} = {z[bad[0]].describe()}", enc.sp, instance=inst)
    else:
        c.ok(R, inst)
    # layout: byte 0 = b, byte 1 = g, byte 2 = r, byte 3 = 0
    want = x["b"].bits + x["g"].bits + x["r"].bits + [algebra.ZERO] * 8
    if y.bits == want:
        c.ok(R, "layout:0x00RRGGBB")
    else:
        c.violation(R, "packed_color3|layout", f"encode_packed_color3 lays the colour out as {y.describe()}; Roblox's packed form is r<<16 | g<<8 | b", enc.sp, instance="layout:0x00RRGGBB")
    # the reader ignores the top byte (Roblox writes 0xFF there): decoding an arbitrary u32 depends on its low 24 bits only
    try:
        w = be.ev(dec.body, {dec.params[0]["lid"]: Bits.input("p", 32)})
        deps = {i for f in ("r", "g", "b") for (_c, ss) in w[f].bits for (_n, i) in ss}
        if deps == set(range(24)):
            c.ok(R, "read:top-byte-ignored")
        else:
            c.violation(R, "packed_color3|top-byte", f"decode_packed_color3 reads bits {sorted(deps)} of the packed value; it must use exactly the low 24 (files written by Roblox carry 0xFF in the top byte)", dec.sp, instance="read:top-byte-ignored")
    except NotAffine as e:
        c.violation(R, "packed_color3|top-byte", f"cannot analyse decode_packed_color3 on an arbitrary u32: {e}", dec.sp, instance="read:top-byte-ignored")


def rule_memo(c, prog, R="C02.memo"):
    """XML writer: how a property is written is decided from (class, name, value, options) — never from what earlier
    instances left in the emit state"""
    c.rule(R, "serialize_instance: no condition in the property loop consults a collection of the emit state (a cache, a visited set) that earlier instances filled: descriptor lookups depend on the class as well as on the name, so a verdict remembered under the name alone (`unknown for one class`) is wrong for the next class that does know the property")
    fn = prog.fn("rbx_xml::serializer::serialize_instance")
    COLL = re.compile(r"(HashSet|HashMap|BTreeSet|BTreeMap|Vec|VecDeque|UstrSet|UstrMap|IndexMap)<")

    def peel(ty):
        ty = ty or ""
        while ty.startswith("&"):
            ty = ty[5:] if ty.startswith("&mut ") else ty[1:]
        return ty
    conds = []
    for n in core.walk_fn(fn):
        if n.get("k") == "If":
            conds.append(n["c"])
        elif n.get("k") == "Match" and n.get("src") == "Normal":
            conds.append(n["e"])
            conds += [a["guard"] for a in n["arms"] if "guard" in a]
    bad = []
    for cnd in conds:
        for y in core.walk(cnd):
            if y.get("k") == "MethodCall":
                r = core.strip(y["recv"])
                while r.get("k") in ("AddrOf", "Unary"):
                    r = core.strip(r["e"])
                if r.get("k") == "Field" and "EmitState" in peel(core.strip(r["e"]).get("ty")) and COLL.search(peel(r.get("ty"))) and y["m"] in ("contains", "contains_key", "get", "insert", "remove", "entry", "is_empty", "len", "iter", "first", "last"):
                    bad.append((r.get("f"), y["m"], core.loc(y)))
    c.floor(R, len(conds), 3, "conditions in serialize_instance")
    if bad:
        c.violation(R, f"state-dependent|{bad[0][0]}|{bad[0][1]}", f"serialize_instance decides on `state.{bad[0][0]}.{bad[0][1]}(..)`: a collection that earlier instances of other classes filled takes part in how this property is written (a property unknown to one class is then treated as unknown on a class that declares it, and dropped)", bad[0][2], instance="serialize_instance:decisions")
    else:
        c.ok(R, "serialize_instance:decisions")


def run(c, prog):
    from . import C16 as _C16, C15 as _C15
    from sa import db as _dbm
    _C16.rule_sername(core.Alias(c, "C02"), prog, _dbm.Database())     # two canonical properties written under one element name: one is lost / renamed on read-back
    _C15.rule_sites(core.Alias(c, "C02"), prog)     # a legacy value the writer could not migrate is written as it is; the reader must then not reject the file
    rule_memo(c, prog)
    common.rule_writer_total(c, prog, "C02.total", "xml")
    common.rule_configured_db(c, prog, "C02.cfgdb", ("rbx_xml",))
    common.rule_builders(c, prog, "C02.opts", ("rbx_xml",))
    from . import C01 as _C01
    _C01.rule_codes(core.Alias(c, "C02"), prog)     # Font's number tables, relied upon by this property's Font arm
    rule_pack(c, prog)
    rule_tags(c, prog)
    rule_float(c, prog)
    rule_twopass(c, prog)
    rule_name(c, prog)
    _C15.rule_one(core.Alias(c, "C02"), prog, _dbm.Database())     # two elements for one property: the value under the canonical key is replaced by the alias's
    from . import C06 as _C06, C17_domain as _C17d
    _C17d.run(core.Alias(c, "C02"), prog, which=("tags", "matcolors"))     # rbx_xml stores both through their blobs
    _C06.rule_name(core.Alias(c, "C02"), prog)     # names read back: not when the element is dropped as an unknown property
    from . import C02_type
    C02_type.run(c, prog)
    from . import C02_tok
    C02_tok.run(c, prog)
    from .C17 import rule_text
    # UniqueId / Ref text codec (shared with C17.text)
    before = len(c.violations)
    rule_text(c, prog, R="C02.uid")
    c.not_decided += ["xml-rs escaping / CDATA splitting / character legality", "float Display/parse exactness (std, trusted)", "forest equality for every tree"]
