"""C11 — cloning.  C11.rule (three-way Ref rewrite decision table), C11.copy (what a clone copies), C11.src (source untouched)."""
import re

from sa import core, decision, discipline as D
from . import domutil as U
from .domutil import DOM

REF_VARIANT = "rbx_types::variant::Variant::Ref"


def _for_loops(n, into_closures=False):
    return [(x, core.as_for(x)) for x in core.walk(n, into_closures=into_closures) if core.as_for(x) is not None and x.get("k") != "DropTemps"]


def pat_lids(p):
    out = []
    stack = [p]
    while stack:
        x = stack.pop()
        if isinstance(x, dict):
            if x.get("k") == "Binding" and "lid" in x:
                out.append(x["lid"])
            stack.extend(v for v in x.values() if isinstance(v, (dict, list)))
        elif isinstance(x, list):
            stack.extend(x)
    return out


def _chain(n):
    """method names applied along a receiver chain, innermost first, and the innermost receiver"""
    names = []
    n = core.strip(n)
    while n.get("k") == "MethodCall":
        names.append(n["m"])
        n = core.strip(n["recv"])
    return list(reversed(names)), n


def copy_collections(prog):
    """{field of CloneContext: 'map-value' | 'element'} — the collections clone_ref_as_builder adds the fresh referent of
    every copy to: as the value of a map keyed by the original (`ref_rewrites.insert(original, new)`), or as an element
    of a list (`cloned.push(new)`)."""
    fn = prog.fn(DOM + "CloneContext::clone_ref_as_builder")
    IB = "rbx_dom_weak::instance::InstanceBuilder::"
    builders, news = set(), set()
    for st in core.walk_lets(fn.body):
        if "init" in st and st["pat"].get("k") == "Binding" and any(x.get("k") == "Call" and core.callee_generic(x) == IB + "new" for x in core.walk(st["init"])):
            builders.add(st["pat"]["lid"])
    for st in core.walk_lets(fn.body):
        if "init" in st and st["pat"].get("k") == "Binding":
            lid, path = core.place_root_lid(st["init"])
            if lid in builders and path == ["referent"]:
                news.add(st["pat"]["lid"])

    def is_new(a):
        a = core.strip(a)
        if a.get("lid") in news:
            return True
        lid, path = core.place_root_lid(a)
        return lid in builders and path == ["referent"]
    out = {}
    for n in core.walk_fn(fn):
        if n.get("k") != "MethodCall" or not n["args"]:
            continue
        root, path = core.place_root(n["recv"])
        fields = [q for q in path if not q.startswith(".")]
        if root != "self" or len(fields) != 1:
            continue
        if n["m"] == "insert" and len(n["args"]) == 2 and is_new(n["args"][1]):
            out[fields[0]] = "map-value"
        elif n["m"] in ("push", "push_back") and is_new(n["args"][0]):
            out[fields[0]] = "element"
        elif n["m"] == "insert" and len(n["args"]) == 1 and is_new(n["args"][0]):
            out[fields[0]] = "element"
    return out


def _spk(n):
    parts = (n.get("sp") or "").split(":")
    try:
        return (int(parts[1]), int(parts[2]))
    except (IndexError, ValueError):
        return (0, 0)


def _clone_binding(pat, iterable, kind="map-value"):
    """lid of the loop variable that holds the *clone* (the value of ref_rewrites, or an element of the list of copies)"""
    names, _ = _chain(iterable)
    if kind == "element":
        while pat.get("k") in ("Ref", "Deref") and isinstance(pat.get("p"), dict):
            pat = pat["p"]
        return pat["lid"] if pat.get("k") == "Binding" and set(names) <= {"iter", "into_iter", "copied", "cloned"} else None
    if pat.get("k") == "Tuple" and len(pat.get("pats", [])) == 2 and pat["pats"][1].get("k") == "Binding":
        return pat["pats"][1]["lid"]
    if pat.get("k") == "Binding" and ("values" in names or "into_values" in names):
        return pat["lid"]
    if pat.get("k") in ("Ref", "Deref") and isinstance(pat.get("p"), dict):
        return _clone_binding(pat["p"], iterable)
    return None


def rule_rule(c, prog):
    R = "C11.rule"
    c.rule(R, "rewrite_refs: per Ref value — mapped if in the cloned set (A); else kept iff the destination contained it before rewriting (B); else null; non-Ref values untouched; existing set computed before any rewrite, from dest.instances membership")
    fn = prog.fn(DOM + "CloneContext::rewrite_refs")
    loops = _for_loops(fn.body)
    colls = copy_collections(prog)
    outer = [(n, f) for n, f in loops if core.place_root(f[1])[0] == "self" and set(core.place_root(f[1])[1]) & set(colls)]
    # a pass may also be one iterator chain over the copies that is collected into a set:
    #   let existing: Set<Ref> = self.<copies>.iter().flat_map(|copy| dest.get_by_ref(*copy)…properties.values()).filter_map(|v| …).collect();
    # It is presented to the clauses below as a loop: pattern = the parameter of the first closure (the copy), iterable
    # = the chain up to that closure, body = the rest of the chain.
    chain_existing = {}
    for st in core.walk_lets(fn.body):
        init = core.strip(st.get("init") or {})
        if st["pat"].get("k") != "Binding" or init.get("k") != "MethodCall" or init["m"] != "collect":
            continue
        if not re.search(r"Set<", (st["pat"].get("ty") or "") + (init.get("ty") or "")):
            continue
        links = []
        x = init
        while x.get("k") == "MethodCall":
            links.append(x)
            x = core.strip(x["recv"])
        root, path = core.place_root(x)
        if root != "self" or not (set(path) & set(colls)):
            continue
        links.reverse()          # innermost first
        first_clo = next((i for i, l in enumerate(links) if l["args"] and core.strip(l["args"][0]).get("k") == "Closure"), None)
        if first_clo is None:
            continue
        clo = core.strip(links[first_clo]["args"][0])
        prm = clo["params"][0]
        pseudo = (prm.get("pat") or prm, links[first_clo]["recv"], {"k": "Block", "b": {"stmts": [{"k": "Expr", "e": init}]}, "sp": init.get("sp")}, None)
        outer.append((init, pseudo))
        chain_existing[id(pseudo)] = (st["pat"]["lid"], links)
    outer.sort(key=lambda nf: _spk(nf[0]))
    if len(outer) != 2:
        c.violation(R, "passes", f"rewrite_refs has {len(outer)} pass(es) over the copies recorded by clone_ref_as_builder ({sorted(colls)}); the rule `kept iff the destination contained it before rewriting` needs the set of pre-existing destination refs to be complete before the first value is rewritten, i.e. a collecting pass followed by a rewriting pass", fn.sp, instance="loops-over-ref_rewrites")
        return
    c.ok(R, "loops-over-ref_rewrites", 2)
    # role: the `existing` set = the set local that receives insert() / extend() in loop 1
    l1, l2 = outer[0][1], outer[1][1]
    if id(l2) in chain_existing:
        raise core.AnchorMissing("rewrite_refs: the rewriting pass must be a loop over the copies")
    existing = chain_existing[id(l1)][0] if id(l1) in chain_existing else None
    for n in ([] if existing is not None else core.walk(l1[2])):
        if n.get("k") == "MethodCall" and n["m"] in ("insert", "extend") and "HashSet" in (core.callee_generic(n) or "") + n["recv"].get("ty", "") + n["recv"].get("aty", ""):
            r = core.strip(n["recv"])
            if r.get("res") == "local":
                existing = r["lid"]
    if existing is None:
        raise core.AnchorMissing("rewrite_refs: first loop does not populate a set local")
    # both passes look at every property value of every cloned instance: no adaptor that ends an iteration early, no
    # `continue` / `break` / early return that skips a cloned instance as a whole
    TERMINATING = {"take_while", "map_while", "take", "skip", "skip_while", "find", "find_map", "position", "nth", "last", "step_by", "scan", "try_for_each", "try_fold", "any", "all"}
    for idx, (node, lp) in enumerate(outer):
        inst = f"pass{idx + 1}:visits-every-value"
        early = [x for x in core.walk(lp[2]) if x.get("k") == "MethodCall" and x["m"] in TERMINATING and "Iterator" in (core.callee_generic(x) or "") and any("properties" in core.place_root(y)[1] for y in core.walk(x["recv"]) if y.get("k") in ("Field", "MethodCall"))]
        inner_nodes = set()
        for n2, f2 in _for_loops(lp[2]):
            inner_nodes |= {id(y) for y in core.walk(n2)}     # the inner loop with its own desugared `break`
        skips = [x for x in core.walk(lp[2], into_closures=False) if x.get("k") in ("Continue", "Break") and id(x) not in inner_nodes]
        if early:
            c.violation(R, f"pass{idx + 1}|stops-early|{early[0]['m']}", f"rewrite_refs, pass {idx + 1}: `{early[0]['m']}` ends the walk over an instance's property values at the first one it rejects; Ref values after it are not looked at (a live outside reference that follows a null or dangling one is then nulled although the destination contains its target)", core.loc(early[0]), instance=inst)
            return
        if skips:
            c.violation(R, f"pass{idx + 1}|skips-instance", f"rewrite_refs, pass {idx + 1}: a cloned instance can be skipped as a whole (`{skips[0]['k'].lower()}` in the loop over the cloned set): its Ref properties are neither rewritten nor nulled — whatever the skip is keyed on (e.g. what the first instance of its class looked like) is not `this instance has no Ref`", core.loc(skips[0]), instance=inst)
            return
        c.ok(R, inst)
    # loop 1 must not assign property values (no rewrite before the existing set is complete)
    if any(x.get("k") in ("Assign", "AssignOp") for x in core.walk(l1[2])):
        c.violation(R, "loop1|assign", "the first pass of rewrite_refs assigns values: the set of pre-existing destination refs must be complete before any rewrite", core.loc(outer[0][0]), instance="loop1:read-only")
    else:
        c.ok(R, "loop1:read-only")
    dest_types = [prm for prm in fn.params if "WeakDom" in (prm.get("ty") or "")]
    dest_name = dest_types[0].get("name") if dest_types else "dest"
    # other names of the destination: `let view: &WeakDom = dest;`
    dest_names = {dest_name}
    for st in core.walk_lets(fn.body):
        init = st.get("init")
        if init is not None and st["pat"].get("k") == "Binding" and "WeakDom" in ((st["pat"].get("ty") or "") + (init.get("ty") or "")):
            i0 = core.strip(init)
            while i0.get("k") in ("AddrOf", "Unary", "Cast", "Type"):
                i0 = core.strip(i0["e"])
            if i0.get("k") == "Path" and i0.get("name") in dest_names:
                dest_names.add(st["pat"].get("name"))

    def role(n):
        """name a condition by role, independent of local names"""
        n0 = core.strip(n)
        if n0.get("k") == "LetExpr":
            pat = n0["pat"]
            while pat.get("k") in ("Ref", "Deref") and isinstance(pat.get("p"), dict):
                pat = pat["p"]
            init = core.strip(n0["init"])
            if pat.get("def") == REF_VARIANT:
                return "V"
            if init.get("k") == "MethodCall" and init["m"] == "get" and core.place_root(init["recv"])[1][-1:] == ["ref_rewrites"]:
                if pat.get("def") == "core::option::Option::Some":
                    return "A"
                if pat.get("def") == "core::option::Option::None" or core.pat_str(pat).endswith("None"):
                    return "!A"
            return "let:" + core.pat_str(pat)
        if n0.get("k") == "MethodCall":
            recv = core.strip(n0["recv"])
            if n0["m"] == "contains" and recv.get("lid") == existing:
                return "B"
            if n0["m"] == "contains_key" and core.place_root(n0["recv"])[0] in dest_names and core.place_root(n0["recv"])[1] == ["instances"]:
                return "D"
            if n0["m"] == "contains_key" and core.place_root(n0["recv"])[1][-1:] == ["ref_rewrites"]:
                return "A"
        return "?" + core.fingerprint(n0, 4)

    mode = {"closure": False}

    def eff(n):
        n0 = core.strip(n)
        if n0.get("k") == "Assign":
            rhs = core.strip(n0["r"])
            if (n0["l"].get("ty") or "") == "rbx_types::referent::Ref":
                # the payload of a `Variant::Ref(slot)` written through its `&mut Ref`
                a = rhs
                while a.get("k") in ("Unary", "AddrOf"):
                    a = core.strip(a["e"])
                if a.get("k") == "Call" and a["f"].get("def") == "rbx_types::referent::Ref::none":
                    return "value := Ref::none"
                if a.get("res") == "local":
                    return "value := mapped"
            if rhs.get("k") == "Call" and rhs["f"].get("def") == REF_VARIANT:
                a = core.strip(rhs["args"][0])
                if a.get("k") == "Call" and a["f"].get("def") == "rbx_types::referent::Ref::none":
                    return "value := Ref::none"
                if a.get("res") == "local":
                    return "value := mapped"
            return "value := ?" + core.fingerprint(rhs, 4)
        if n0.get("k") == "MethodCall" and n0["m"] == "insert" and core.strip(n0["recv"]).get("lid") == existing:
            return "existing += value"
        if mode["closure"] and n0.get("k") == "Call" and n0["f"].get("def") == "core::option::Option::Some":
            return "existing += value"     # filter_map closure feeding `existing.extend(..)`
        return core.fingerprint(n0, 4)

    tb = decision.Tabler(namer=role, effect_namer=eff)

    def inner_body(lp):
        """(kind, body) of the per-property-value code of a pass: the body of the inner `for` over
        properties.values(_mut)(), or the closure of `existing.extend(<properties.values()>.filter_map(closure))`"""
        if id(lp) in chain_existing:
            for l in chain_existing[id(lp)][1]:
                if l["m"] == "filter_map" and l["args"] and core.strip(l["args"][0]).get("k") == "Closure":
                    return "closure", core.strip(l["args"][0])["body"]
            raise core.AnchorMissing("rewrite_refs: the collecting chain has no filter_map over the property values")
        inner = [f for _, f in _for_loops(lp[2])]
        if len(inner) == 1:
            root, path = core.place_root(inner[0][1])
            if "properties" not in path:
                raise core.AnchorMissing("rewrite_refs: inner loop does not range over instance.properties")
            return "for", inner[0][2]
        if not inner:
            for n in core.walk(lp[2]):
                if n.get("k") == "MethodCall" and n["m"] == "extend" and core.strip(n["recv"]).get("lid") == existing and n["args"]:
                    names, base = _chain(n["args"][0])
                    a = core.strip(n["args"][0])
                    if names and names[-1] == "filter_map" and "properties" in core.place_root(core.strip(a["recv"]))[1] and set(names[:-1]) <= {"values", "iter"}:
                        clo = core.strip(a["args"][0])
                        if clo.get("k") == "Closure":
                            return "closure", clo["body"]
        raise core.AnchorMissing("rewrite_refs: expected one inner loop (or extend(filter_map)) over the instance's property values")

    def paths_of(kind, body):
        mode["closure"] = kind == "closure"
        try:
            return tb.paths(body)
        finally:
            mode["closure"] = False

    k1, b1 = inner_body(l1)
    k2, b2 = inner_body(l2)
    if k2 != "for":
        raise core.AnchorMissing("rewrite_refs: the rewriting pass must be a loop over properties.values_mut()")

    def norm(t):
        out = {}
        for k, v in t.items():
            cs = set()
            for a, val in k:
                if a == "!A":
                    a, val = "A", not val
                cs.add((a, val))
            if any((a, not val) in cs for a, val in cs):
                continue
            # the tables are those of a loop body: leaving it with `continue` is reaching its end
            out.setdefault(frozenset(cs), set()).update((ef, None if ex_ == "continue" else ex_) for ef, ex_ in v)
        return {k: sorted(v, key=repr) for k, v in out.items()}
    got2 = norm(decision.table(paths_of(k2, b2)))
    got1 = norm(decision.table(paths_of(k1, b1)))
    want2 = {
        frozenset({("V", False)}): [((), None)],
        frozenset({("V", True), ("A", True)}): [(("value := mapped",), None)],
        frozenset({("V", True), ("A", False), ("B", False)}): [(("value := Ref::none",), None)],
        frozenset({("V", True), ("A", False), ("B", True)}): [((), None)],
    }
    c.sample({"rule": R, "extracted_table_pass2": {" & ".join(sorted(("" if v else "!") + a for a, v in k)): str(v) for k, v in got2.items()}})
    same, diff = decision.same_function(got2, want2)
    if same:
        c.ok(R, "pass2:table", 4)
    else:
        c.violation(R, "pass2|table", f"the Ref rewrite decision table differs from the documented three-way rule; differing rows (conds, got, want): {diff}", core.loc(outer[1][0]), instance="pass2:table")
    want1 = {
        frozenset({("V", False)}): [((), None)],
        frozenset({("V", True), ("D", True)}): [(("existing += value",), None)],
        frozenset({("V", True), ("D", False)}): [((), None)],
    }
    same, diff = decision.same_function(got1, want1)
    if same:
        c.ok(R, "pass1:table", 3)
    else:
        c.violation(R, "pass1|table", f"the pre-existing-refs pass differs from `value in dest.instances => remember`; rows (conds, got, want): {diff}", core.loc(outer[0][0]), instance="pass1:table")
    # both passes look up the *clone* (value of ref_rewrites) in dest
    for idx, lp in enumerate((l1, l2)):
        fld = [q for q in core.place_root(lp[1])[1] if q in colls]
        lid = _clone_binding(lp[0], lp[1], colls[fld[0]]) if fld else None
        used = None
        if lid is not None:
            for n in core.walk(lp[2]):
                if n.get("k") == "MethodCall" and n["m"] in ("get_by_ref", "get_by_ref_mut", "get", "get_mut") and core.place_root(n["recv"])[0] in dest_names and n["args"]:
                    if any(x.get("k") == "Path" and x.get("lid") == lid for x in core.walk(n["args"][0])):
                        used = True
                    elif used is None:
                        used = False
        if lid is not None and used:
            c.ok(R, f"pass{idx + 1}:iterates-clones")
        else:
            c.violation(R, f"pass{idx + 1}|target", f"pass {idx + 1} of rewrite_refs does not look up the cloned instance (the map's value) in `{dest_name}`", core.loc(outer[idx][0]), instance=f"pass{idx + 1}:iterates-clones")


def rule_copy(c, prog):
    R = "C11.copy"
    c.rule(R, "clone_ref_as_builder copies class, name and the whole property map into a builder with a fresh referent, records orig->new, enqueues every child under the new parent; the clone_* functions insert roots parentless, drain the queue FIFO and call rewrite_refs once after the queue is empty; one CloneContext per call")
    fn = prog.fn(DOM + "CloneContext::clone_ref_as_builder")
    calls = [n for n in core.walk_fn(fn) if n.get("k") in ("MethodCall", "Call")]
    names = {}
    for n in calls:
        names.setdefault(core.callee_generic(n), []).append(n)
    IB = "rbx_dom_weak::instance::InstanceBuilder::"
    # roles by type / data flow, not by local name
    plids = core.param_lids(fn)
    src_p = [lid for nm, (lid, ty) in plids.items() if "WeakDom" in (ty or "")]
    ref_p = [lid for nm, (lid, ty) in plids.items() if (ty or "").endswith("referent::Ref")]
    if len(src_p) != 1 or len(ref_p) != 1:
        raise core.AnchorMissing(f"clone_ref_as_builder: expected one WeakDom and one Ref parameter, found {plids}")
    source_lid, orig_lid = src_p[0], ref_p[0]
    inst_lid = None
    src_lookups = [n for n in calls if core.callee_generic(n) == DOM + "WeakDom::get_by_ref"]
    for st in core.walk_lets(fn.body):
        if "init" in st and any(x in src_lookups for x in core.walk(st["init"])) and st["pat"].get("k") == "Binding":
            inst_lid = st["pat"]["lid"]
    if len(src_lookups) == 1 and core.place_root_lid(src_lookups[0]["recv"])[0] == source_lid and core.strip(src_lookups[0]["args"][0]).get("lid") == orig_lid and inst_lid is not None:
        c.ok(R, "copy:source-lookup")
    else:
        c.violation(R, "copy|source", "clone_ref_as_builder does not read the instance `original_ref` from `source`", fn.sp, instance="copy:source-lookup")

    def from_inst(n, field):
        lid, path = core.place_root_lid(n)
        return lid == inst_lid and inst_lid is not None and path[:1] == [field]
    checks = [
        ("new(class)", IB + "new", lambda n: from_inst(n["args"][0], "class")),
        ("with_name(name)", IB + "with_name", lambda n: from_inst(n["args"][0], "name")),
        ("with_properties(properties.clone())", IB + "with_properties", lambda n: from_inst(n["args"][0], "properties")),
    ]
    for label, path, pred in checks:
        ns = names.get(path, [])
        if len(ns) == 1 and pred(ns[0]):
            c.ok(R, "copy:" + label)
        else:
            c.violation(R, "copy|" + label, f"clone_ref_as_builder no longer builds the copy with {label} from the source instance", fn.sp, instance="copy:" + label)
    for bad in ("with_referent", "with_class", "set_class", "set_name", "with_property", "add_property", "with_child", "with_children", "add_child", "add_children"):
        if IB + bad in names:
            c.violation(R, f"copy|{bad}", f"clone_ref_as_builder calls InstanceBuilder::{bad}: the copy must have a fresh referent and exactly the source's class/name/properties; children are cloned through the queue", core.loc(names[IB + bad][0]))
    # the builder local and the local holding its fresh referent
    builder_lids = set()
    for st in core.walk_lets(fn.body):
        if "init" in st and st["pat"].get("k") == "Binding" and any(x.get("k") == "Call" and core.callee_generic(x) == IB + "new" for x in core.walk(st["init"])):
            builder_lids.add(st["pat"]["lid"])
    new_ref_lids = set()
    for st in core.walk_lets(fn.body):
        if "init" in st and st["pat"].get("k") == "Binding":
            lid, path = core.place_root_lid(st["init"])
            if lid in builder_lids and path == ["referent"]:
                new_ref_lids.add(st["pat"]["lid"])

    def is_new_ref(a):
        a = core.strip(a)
        if a.get("lid") in new_ref_lids:
            return True
        lid, path = core.place_root_lid(a)
        return lid in builder_lids and path == ["referent"]
    # ref_rewrites.insert(original_ref, new_ref)
    ins = [n for n in calls if n.get("k") == "MethodCall" and n["m"] == "insert" and core.place_root(n["recv"])[1][-1:] == ["ref_rewrites"]]
    ok = False
    if len(ins) == 1:
        a0 = core.strip(ins[0]["args"][0])
        ok = a0.get("lid") == orig_lid and is_new_ref(ins[0]["args"][1])
    if ok:
        # and unconditionally: the map is both the list of copies to visit and the translation table
        for n_ in core.walk_fn(fn):
            if n_.get("k") in ("If", "Match") and n_.get("src") not in ("TryDesugar", "ForLoopDesugar") and any(x is ins[0] for x in core.walk(n_)) and core.as_for(n_) is None:
                ok = False
    if ok:
        c.ok(R, "copy:records-mapping")
    else:
        c.violation(R, "copy|mapping", "clone_ref_as_builder does not record original_ref -> builder.referent in ref_rewrites unconditionally (a Ref to a clone that was not recorded is left pointing at the original, or nulled)", fn.sp, instance="copy:records-mapping")
    # children enqueued: `for child in instance.children… { queue.push_back((new_ref, child)) }` or
    # `queue.extend(instance.children….map(|child| (new_ref, child)))`

    def is_ctx_queue(recv):
        """the work queue: the VecDeque field of the CloneContext (whatever it is called)"""
        ty = (recv.get("ty") or "") + (recv.get("aty") or "")
        root, path = core.place_root(recv)
        return "VecDeque" in ty and root == "self" and len([p for p in path if not p.startswith(".")]) == 1

    struct_roles = {}

    def pair_ok(t, child_lids):
        """the queued work item pairs the copy's fresh referent (parent role) with the child to clone: a tuple
        (new_ref, child) or a struct literal with one field for each (their names are remembered so that the pop sites
        can be checked to use them in the same roles)"""
        t = core.strip(t)
        if t.get("k") == "Tup" and len(t["args"]) == 2 and is_new_ref(t["args"][0]):
            return any(x.get("k") == "Path" and x.get("lid") in child_lids for x in core.walk(t["args"][1]))
        if t.get("k") == "Struct" and len(t.get("fields") or []) == 2:
            par = [f_["f"] for f_ in t["fields"] if is_new_ref(f_["e"])]
            chi = [f_["f"] for f_ in t["fields"] if any(x.get("k") == "Path" and x.get("lid") in child_lids for x in core.walk(f_["e"]))]
            if len(par) == 1 and len(chi) == 1 and par[0] != chi[0]:
                struct_roles["parent"], struct_roles["child"] = par[0], chi[0]
                return True
        return False
    ok = False
    for _n, fl in _for_loops(fn.body):
        lid, path = core.place_root_lid(fl[1])
        if lid == inst_lid and "children" in path and set(p for p in path if p.startswith(".")) <= {".iter()", ".into_iter()", ".copied()", ".cloned()"}:
            child_lids = set(pat_lids(fl[0]))
            for n in core.walk(fl[2]):
                if n.get("k") == "MethodCall" and n["m"] == "push_back" and is_ctx_queue(n["recv"]) and pair_ok(n["args"][0], child_lids):
                    # every child is enqueued: the push is not under a condition inside the loop
                    cond = any(y.get("k") in ("If", "Match") and y.get("src") not in ("ForLoopDesugar", "TryDesugar") and any(z is n for z in core.walk(y)) for y in core.walk(fl[2]))
                    skips = any(y.get("k") in ("Continue", "Break", "Ret") for y in core.walk(fl[2], into_closures=False))
                    if not cond and not skips:
                        ok = True
    for n in calls:
        if n.get("k") == "MethodCall" and n["m"] == "extend" and is_ctx_queue(n["recv"]) and n["args"]:
            chain, base = _chain(n["args"][0])
            a = core.strip(n["args"][0])
            lid, path = core.place_root_lid(a)
            if lid == inst_lid and "children" in path and chain and chain[-1] == "map" and set(chain[:-1]) <= {"iter", "into_iter", "copied", "cloned"}:
                clo = core.strip(a["args"][0])
                if clo.get("k") == "Closure":
                    child_lids = set()
                    for prm in clo.get("params", []):
                        child_lids.update(pat_lids(prm.get("pat") or prm))
                    body = core.strip(clo["body"])
                    while body.get("k") == "Block" and not body["b"]["stmts"] and "expr" in body["b"]:
                        body = core.strip(body["b"]["expr"])
                    if pair_ok(body, child_lids):
                        ok = True
    if ok:
        c.ok(R, "copy:children-enqueued")
    else:
        c.violation(R, "copy|children", "clone_ref_as_builder does not enqueue (new_ref, child) for every child of the source instance", fn.sp, instance="copy:children-enqueued")
    # the three public functions
    for name, dest, nroots in (("clone_within", "self", 1), ("clone_into_external", "dest", 1), ("clone_multiple_into_external", "dest", 1)):
        f = prog.fn(DOM + "WeakDom::" + name)
        cfg = D.CFG(f)
        rw = {i for i, cal, t in U.calls_in(f, r"CloneContext::rewrite_refs$")}
        pops = {i for i, cal, t in U.calls_in(f, r"VecDeque::<T, A>::pop_front$")}
        inst = f"{name}:rewrite-after-queue"
        if len(rw) == 1 and cfg.must_pass(0, rw, cfg.returns) and not any(p in cfg.reachable_from(list(rw)[0]) for p in pops):
            c.ok(R, inst)
        else:
            c.violation(R, f"{name}|rewrite", f"{name}: rewrite_refs is not called exactly once, after the clone queue is drained, on every normal path", f.sp, instance=inst)
        # every queued child is cloned: the drain loop clones and inserts unconditionally (a child skipped because
        # "it has a copy already" leaves the copy under construction without that subtree)
        drains = [n for n in core.walk_fn(f) if n.get("k") == "Loop" and n.get("src") in ("While", "WhileLet", "Loop") and any(x.get("k") == "MethodCall" and x["m"] in ("pop_front", "pop_back", "pop") for x in core.walk(n)) and any(x.get("k") == "MethodCall" and x["m"] == "clone_ref_as_builder" for x in core.walk(n))]
        for lp in drains:
            clone_calls = [x for x in core.walk(lp) if x.get("k") == "MethodCall" and x["m"] == "clone_ref_as_builder"]
            skips = [x for x in core.walk(lp, into_closures=False) if x.get("k") == "Continue"]
            conds = [y for y in core.walk(lp) if y.get("k") in ("If", "Match") and y.get("src") not in ("WhileDesugar", "ForLoopDesugar", "TryDesugar") and any(z is clone_calls[0] for z in core.walk(y.get("t") or {})) ]
            # the loop's own `while let` test is an If/Match whose scrutinee holds the pop: not a skip
            conds = [y for y in conds if not any(x.get("k") == "MethodCall" and x["m"] in ("pop_front", "pop_back", "pop") for x in core.walk(y.get("c") or y.get("e") or {}))]
            if skips or conds:
                c.violation(R, f"{name}|queue-skip", f"{name}: the loop that drains the clone queue can skip an item (`continue` / a condition around clone_ref_as_builder): a child that is skipped is missing from the copy, which is then not isomorphic to its original", core.loc((skips or conds)[0]), instance=f"{name}:queue-drained-completely")
            else:
                c.ok(R, f"{name}:queue-drained-completely")
        # a work item that is a struct: the pop site uses its two fields in the roles the push site filled them in
        if struct_roles:
            bad_role = None
            for n in core.walk_fn(f):
                if n.get("k") == "MethodCall" and core.callee_generic(n) == DOM + "WeakDom::insert":
                    pth = core.place_root(n["args"][0])[1]
                    if pth and pth[-1] in struct_roles.values() and pth[-1] != struct_roles["parent"]:
                        bad_role = ("parent", pth[-1], n)
                if n.get("k") == "MethodCall" and n["m"] == "clone_ref_as_builder" and len(n["args"]) >= 2:
                    pth = core.place_root(n["args"][-1])[1]
                    if pth and pth[-1] in struct_roles.values() and pth[-1] != struct_roles["child"]:
                        bad_role = ("child", pth[-1], n)
            if bad_role:
                c.violation(R, f"{name}|work-item-roles", f"{name} uses field `{bad_role[1]}` of the queued work item as the {bad_role[0]}, but clone_ref_as_builder stores the {bad_role[0]} in `{struct_roles[bad_role[0]]}`: copies would be inserted under the wrong parent", core.loc(bad_role[2]), instance=f"{name}:work-item-roles")
            else:
                c.ok(R, f"{name}:work-item-roles")
        # rewrite target
        for n in core.walk_fn(f):
            if n.get("k") == "MethodCall" and n["m"] == "rewrite_refs":
                r = core.place_root(n["args"][0])[0]
                if r == dest:
                    c.ok(R, f"{name}:rewrite-target")
                else:
                    c.violation(R, f"{name}|rewrite-target", f"{name} rewrites refs on `{r}`, expected `{dest}`", core.loc(n), instance=f"{name}:rewrite-target")
            if n.get("k") == "MethodCall" and n["m"] == "insert" and core.callee_generic(n) == DOM + "WeakDom::insert":
                r = core.place_root(n["recv"])[0]
                if r != dest:
                    c.violation(R, f"{name}|insert-target|{r}", f"{name} inserts copies into `{r}`, expected `{dest}`", core.loc(n))
        # roots inserted with Ref::none()
        root_inserts = []
        for n in core.walk_fn(f):
            if n.get("k") == "MethodCall" and core.callee_generic(n) == DOM + "WeakDom::insert":
                a = core.strip(n["args"][0])
                if a.get("k") == "Call" and a["f"].get("def") == "rbx_types::referent::Ref::none":
                    root_inserts.append(n)
        if len(root_inserts) == nroots:
            c.ok(R, f"{name}:parentless-root")
        else:
            c.violation(R, f"{name}|root-parent", f"{name}: the cloned root is not inserted with a null parent", f.sp, instance=f"{name}:parentless-root")
        # every copy made by this call is visited by the rewrite passes.  The passes walk a collection filled by
        # clone_ref_as_builder; when that collection is the map original -> copy, a second copy of the same original
        # replaces the first, which is then never visited (its Refs keep pointing into the source).  Originals taken from
        # the queue are distinct (a tree has no shared nodes); roots taken from a caller-supplied list need not be.
        rwf = prog.fn(DOM + "CloneContext::rewrite_refs")
        colls = copy_collections(prog)
        visited = {q for _n, fl in _for_loops(rwf.body) if core.place_root(fl[1])[0] == "self" for q in core.place_root(fl[1])[1] if q in colls}
        lossy = sorted(q for q in visited if colls[q] == "map-value")
        plist = {lid for nm, (lid, ty) in core.param_lids(f).items() if re.search(r"\[rbx_types::referent::Ref\]|Vec<rbx_types::referent::Ref|IntoIterator|Iterator", ty or "")}
        repeated = None
        for n, fl in _for_loops(f.body):
            lid, path = core.place_root_lid(fl[1])
            if lid in plist and any(x.get("k") == "MethodCall" and x["m"] == "clone_ref_as_builder" for x in core.walk(fl[2])):
                guard = any(y.get("k") in ("If", "Match") and y.get("src") not in ("ForLoopDesugar", "TryDesugar") and any(z.get("k") == "MethodCall" and z["m"] in ("contains", "contains_key", "insert", "get", "entry") for z in core.walk(y.get("c") or y.get("e") or {})) for y in core.walk(fl[2]))
                if not guard:
                    repeated = n
        inst = f"{name}:every-copy-rewritten"
        if repeated is not None and lossy:
            c.violation(R, f"{name}|overlap", f"{name} clones one root per entry of a caller-supplied list into one CloneContext, and rewrite_refs visits the copies through the map `{lossy[0]}` (original -> copy): when the list names the same instance twice, or an instance together with one of its descendants, the later copy replaces the earlier one in the map and the earlier copy (with its subtree) is never visited — its Ref properties keep the referents of the source DOM (dangling, not nulled, not pointing to any copy)", core.loc(repeated), instance=inst)
        else:
            c.ok(R, inst)
        ctx = [n for n in core.walk_fn(f) if n.get("k") == "Call" and "CloneContext" in (core.callee(n) or "") and (core.callee(n) or "").endswith("default")]
        in_loop = False
        for n in core.walk_fn(f):
            fl2 = core.as_for(n)
            if fl2 is not None and any(x in ctx for x in core.walk(fl2[2])):
                in_loop = True
        if len(ctx) == 1 and not in_loop:
            c.ok(R, f"{name}:one-context")
        else:
            c.violation(R, f"{name}|context", f"{name} does not share a single CloneContext across everything it clones (refs between cloned subtrees would not be rewritten)", f.sp, instance=f"{name}:one-context")


def rule_src(c, prog):
    R = "C11.src"
    c.rule(R, "cloning leaves the source untouched: clone_into_external / clone_multiple_into_external / clone_ref_as_builder take the source by shared reference")
    for name, idx in (("WeakDom::clone_into_external", 0), ("WeakDom::clone_multiple_into_external", 0), ("CloneContext::clone_ref_as_builder", 1)):
        f = prog.fn(DOM + name)
        sig = f.d.get("sig", "")
        params = sig[sig.index("(") + 1:]
        first = [p.strip() for p in params.split(",")][idx]
        if first.startswith("&") and not first.startswith("&mut") and "&'" not in first.replace("&'a ", "&").replace("&'_ ", "&") or (first.startswith("&'") and " mut " not in first):
            c.ok(R, name)
        else:
            c.violation(R, f"{name}|sig", f"{name} takes the source as `{first}`; it must be a shared reference", f.sp, instance=name)


def run(c, prog):
    rule_rule(c, prog)
    rule_copy(c, prog)
    rule_src(c, prog)
    # cloning walks `children` with a work queue and no visited set: it yields a finite isomorphic copy only while the
    # parent/children relation is a forest, which the C09 operations it is interleaved with have to preserve
    from . import C09 as _C09
    _C09.rule_acyc(core.Alias(c, "C11"), prog)
    c.not_decided += ["isomorphism for every topology (a run)", "Content::Object references inside properties (not Variant::Ref) are outside the rule's statement"]
