"""C11 — cloning.  C11.rule (three-way Ref rewrite decision table), C11.copy (what a clone copies), C11.src (source untouched)."""
from sa import core, decision, discipline as D
from . import domutil as U
from .domutil import DOM

REF_VARIANT = "rbx_types::variant::Variant::Ref"


def rule_rule(c, prog):
    R = "C11.rule"
    c.rule(R, "rewrite_refs: per Ref value — mapped if in the cloned set (A); else kept iff the destination contained it before rewriting (B); else null; non-Ref values untouched; existing set computed before any rewrite, from dest.instances membership")
    fn = prog.fn(DOM + "CloneContext::rewrite_refs")
    loops = [(n, core.as_for(n)) for n in core.walk_fn(fn, into_closures=False) if core.as_for(n) is not None and n.get("k") != "DropTemps"]
    outer = [(n, f) for n, f in loops if core.place_root(f[1])[1][:1] == ["ref_rewrites"]]
    if len(outer) != 2:
        raise core.AnchorMissing(f"rewrite_refs: expected two loops over self.ref_rewrites, found {len(outer)}")
    c.ok(R, "loops-over-ref_rewrites", 2)
    # role: the `existing` set = the local that receives insert() in loop 1
    l1, l2 = outer[0][1], outer[1][1]
    existing = None
    for n in core.walk(l1[2]):
        if n.get("k") == "MethodCall" and n["m"] == "insert" and core.callee_generic(n).startswith("std::collections::hash::set::HashSet"):
            r = core.strip(n["recv"])
            if r.get("res") == "local":
                existing = r["lid"]
    if existing is None:
        raise core.AnchorMissing("rewrite_refs: first loop does not populate a set local")
    # loop 1 must not assign property values (no rewrite before the existing set is complete)
    if any(x.get("k") in ("Assign", "AssignOp") for x in core.walk(l1[2])):
        c.violation(R, "loop1|assign", "the first pass of rewrite_refs assigns values: the set of pre-existing destination refs must be complete before any rewrite", core.loc(outer[0][0]), instance="loop1:read-only")
    else:
        c.ok(R, "loop1:read-only")

    def role(n):
        """name a condition by role, independent of local names"""
        n0 = core.strip(n)
        if n0.get("k") == "LetExpr":
            pat = n0["pat"]
            init = core.strip(n0["init"])
            if pat.get("def") == REF_VARIANT:
                return "V"
            if pat.get("def") == "core::option::Option::Some" and init.get("k") == "MethodCall" and init["m"] == "get" and core.place_root(init["recv"])[1][-1:] == ["ref_rewrites"]:
                return "A"
            return "let:" + core.pat_str(pat)
        if n0.get("k") == "MethodCall":
            recv = core.strip(n0["recv"])
            if n0["m"] == "contains" and recv.get("lid") == existing:
                return "B"
            if n0["m"] == "contains_key" and core.place_root(n0["recv"]) == ("dest", ["instances"]):
                return "D"
            if n0["m"] == "contains_key" and core.place_root(n0["recv"])[1][-1:] == ["ref_rewrites"]:
                return "A"
        return "?" + core.fingerprint(n0, 4)

    def eff(n):
        n0 = core.strip(n)
        if n0.get("k") == "Assign":
            rhs = core.strip(n0["r"])
            if rhs.get("k") == "Call" and rhs["f"].get("def") == REF_VARIANT:
                a = core.strip(rhs["args"][0])
                if a.get("k") == "Call" and a["f"].get("def") == "rbx_types::referent::Ref::none":
                    return "value := Ref::none"
                if a.get("res") == "local":
                    return "value := mapped"
            return "value := ?" + core.fingerprint(rhs, 4)
        if n0.get("k") == "MethodCall" and n0["m"] == "insert" and core.strip(n0["recv"]).get("lid") == existing:
            return "existing += value"
        return core.fingerprint(n0, 4)

    tb = decision.Tabler(namer=role, effect_namer=eff)
    # innermost body of loop 2 / loop 1: the for over properties.values(_mut)
    def inner_body(lp):
        inner = [core.as_for(n) for n in core.walk(lp[2]) if core.as_for(n) is not None and n.get("k") != "DropTemps"]
        if len(inner) != 1:
            raise core.AnchorMissing("rewrite_refs: expected one inner loop over the instance's property values")
        root, path = core.place_root(inner[0][1])
        if "properties" not in path:
            raise core.AnchorMissing("rewrite_refs: inner loop does not range over instance.properties")
        return inner[0]
    i1, i2 = inner_body(l1), inner_body(l2)
    t2 = decision.table(tb.paths(i2[2]))
    t1 = decision.table(tb.paths(i1[2]))

    def norm(t):
        return {frozenset(k): sorted(set(v)) for k, v in t.items()}
    got2 = norm(t2)
    want2 = {
        frozenset({("V", False)}): [((), None)],
        frozenset({("V", True), ("A", True)}): [(("value := mapped",), None)],
        frozenset({("V", True), ("A", False), ("B", False)}): [(("value := Ref::none",), None)],
        frozenset({("V", True), ("A", False), ("B", True)}): [((), None)],
    }
    c.sample({"rule": R, "extracted_table_pass2": {" & ".join(sorted(("" if v else "!") + a for a, v in k)): str(v) for k, v in got2.items()}})
    if got2 == want2:
        c.ok(R, "pass2:table", 4)
    else:
        diff = [(sorted(k), got2.get(k), want2.get(k)) for k in set(got2) | set(want2) if got2.get(k) != want2.get(k)]
        c.violation(R, "pass2|table", f"the Ref rewrite decision table differs from the documented three-way rule; differing rows (conds, got, want): {diff}", core.loc(outer[1][0]), instance="pass2:table")
    got1 = norm(t1)
    want1 = {
        frozenset({("V", False)}): [((), None)],
        frozenset({("V", True), ("D", True)}): [(("existing += value",), None)],
        frozenset({("V", True), ("D", False)}): [((), None)],
    }
    if got1 == want1:
        c.ok(R, "pass1:table", 3)
    else:
        diff = [(sorted(k), got1.get(k), want1.get(k)) for k in set(got1) | set(want1) if got1.get(k) != want1.get(k)]
        c.violation(R, "pass1|table", f"the pre-existing-refs pass differs from `value in dest.instances => remember`; rows (conds, got, want): {diff}", core.loc(outer[0][0]), instance="pass1:table")
    # both passes look up the *clone* (value of ref_rewrites) in dest
    for idx, lp in enumerate((l1, l2)):
        pat = lp[0]
        ok = pat.get("k") == "Tuple" and len(pat["pats"]) == 2 and pat["pats"][1].get("k") == "Binding"
        used = None
        if ok:
            lid = pat["pats"][1]["lid"]
            for n in core.walk(lp[2]):
                if n.get("k") == "MethodCall" and n["m"] in ("get_by_ref", "get_by_ref_mut") and core.place_root(n["recv"])[0] == "dest":
                    a = core.strip(n["args"][0])
                    used = a.get("lid") == lid
        if ok and used:
            c.ok(R, f"pass{idx + 1}:iterates-clones")
        else:
            c.violation(R, f"pass{idx + 1}|target", f"pass {idx + 1} of rewrite_refs does not look up the cloned instance (the map's value) in `dest`", core.loc(outer[idx][0]), instance=f"pass{idx + 1}:iterates-clones")


def rule_copy(c, prog):
    R = "C11.copy"
    c.rule(R, "clone_ref_as_builder copies class, name and the whole property map into a builder with a fresh referent, records orig->new, enqueues every child under the new parent; the clone_* functions insert roots parentless, drain the queue FIFO and call rewrite_refs once after the queue is empty; one CloneContext per call")
    fn = prog.fn(DOM + "CloneContext::clone_ref_as_builder")
    calls = [n for n in core.walk_fn(fn) if n.get("k") in ("MethodCall", "Call")]
    names = {}
    for n in calls:
        names.setdefault(core.callee_generic(n), []).append(n)
    IB = "rbx_dom_weak::instance::InstanceBuilder::"

    def arg_root(n, i=0):
        a = n["args"][i] if n.get("k") == "MethodCall" else n["args"][i]
        return core.place_root(a)
    checks = [
        ("new(class)", IB + "new", lambda n: arg_root(n) == ("instance", ["class"])),
        ("with_name(name)", IB + "with_name", lambda n: arg_root(n)[0] == "instance" and arg_root(n)[1][:1] == ["name"]),
        ("with_properties(properties.clone())", IB + "with_properties", lambda n: arg_root(n)[0] == "instance" and arg_root(n)[1][:1] == ["properties"]),
    ]
    for label, path, pred in checks:
        ns = names.get(path, [])
        if len(ns) == 1 and pred(ns[0]):
            c.ok(R, "copy:" + label)
        else:
            c.violation(R, "copy|" + label, f"clone_ref_as_builder no longer builds the copy with {label} from the source instance", fn.sp, instance="copy:" + label)
    for bad in ("with_referent", "with_class", "set_class", "set_name", "with_property", "add_property", "with_child", "with_children", "add_child", "add_children"):
        if IB + bad in names:
            c.violation(R, f"copy|{bad}", f"clone_ref_as_builder calls InstanceBuilder::{bad}: the copy must have a fresh referent and exactly the source's class/name/properties; children are cloned through the queue", core.loc(names[IB + bad][0]))
    # instance comes from source.get_by_ref(original_ref)
    src = [n for n in calls if core.callee_generic(n) == DOM + "WeakDom::get_by_ref"]
    if len(src) == 1 and core.place_root(src[0]["recv"])[0] == "source" and core.strip(src[0]["args"][0]).get("name") == "original_ref":
        c.ok(R, "copy:source-lookup")
    else:
        c.violation(R, "copy|source", "clone_ref_as_builder does not read the instance `original_ref` from `source`", fn.sp, instance="copy:source-lookup")
    # ref_rewrites.insert(original_ref, new_ref)
    ins = [n for n in calls if n.get("k") == "MethodCall" and n["m"] == "insert" and core.place_root(n["recv"])[1][-1:] == ["ref_rewrites"]]
    ok = False
    if len(ins) == 1:
        a0, a1 = core.strip(ins[0]["args"][0]), core.strip(ins[0]["args"][1])
        new_ref_lid = None
        for st in fn.body["b"]["stmts"]:
            if st["k"] == "Let" and "init" in st and core.place_root(st["init"]) == ("builder", ["referent"]):
                new_ref_lid = st["pat"].get("lid")
        ok = a0.get("name") == "original_ref" and a1.get("lid") == new_ref_lid and new_ref_lid is not None
    if ok:
        # and unconditionally: the map is both the list of copies to visit and the translation table
        for n_ in core.walk_fn(fn):
            if n_.get("k") in ("If", "Match") and n_.get("src") not in ("TryDesugar", "ForLoopDesugar") and any(x is ins[0] for x in core.walk(n_)) and core.as_for(n_) is None:
                ok = False
    if ok:
        c.ok(R, "copy:records-mapping")
    else:
        c.violation(R, "copy|mapping", "clone_ref_as_builder does not record original_ref -> builder.referent in ref_rewrites unconditionally (a Ref to a clone that was not recorded is left pointing at the original, or nulled)", fn.sp, instance="copy:records-mapping")
    # children enqueued
    fl = [core.as_for(n) for n in core.walk_fn(fn) if core.as_for(n) is not None and n.get("k") != "DropTemps"]
    ok = False
    if len(fl) == 1 and core.place_root(fl[0][1])[0] == "instance" and "children" in core.place_root(fl[0][1])[1]:
        for n in core.walk(fl[0][2]):
            if n.get("k") == "MethodCall" and n["m"] == "push_back" and core.place_root(n["recv"])[1][-1:] == ["queue"]:
                t = core.strip(n["args"][0])
                if t.get("k") == "Tup" and len(t["args"]) == 2 and core.strip(t["args"][0]).get("lid") == new_ref_lid:
                    ok = True
    if ok:
        c.ok(R, "copy:children-enqueued")
    else:
        c.violation(R, "copy|children", "clone_ref_as_builder does not enqueue (new_ref, child) for every child of the source instance", fn.sp, instance="copy:children-enqueued")
    # the three public functions
    for name, dest, nroots in (("clone_within", "self", 1), ("clone_into_external", "dest", 1), ("clone_multiple_into_external", "dest", 1)):
        f = prog.fn(DOM + "WeakDom::" + name)
        cfg = D.CFG(f)
        rw = {i for i, cal, t in U.calls_in(f, r"CloneContext::rewrite_refs$")}
        pops = {i for i, cal, t in U.calls_in(f, r"VecDeque::<T, A>::pop_front$")}
        inst = f"{name}:rewrite-after-queue"
        if len(rw) == 1 and cfg.must_pass(0, rw, cfg.returns) and not any(p in cfg.reachable_from(list(rw)[0]) for p in pops):
            c.ok(R, inst)
        else:
            c.violation(R, f"{name}|rewrite", f"{name}: rewrite_refs is not called exactly once, after the clone queue is drained, on every normal path", f.sp, instance=inst)
        # rewrite target
        for n in core.walk_fn(f):
            if n.get("k") == "MethodCall" and n["m"] == "rewrite_refs":
                r = core.place_root(n["args"][0])[0]
                if r == dest:
                    c.ok(R, f"{name}:rewrite-target")
                else:
                    c.violation(R, f"{name}|rewrite-target", f"{name} rewrites refs on `{r}`, expected `{dest}`", core.loc(n), instance=f"{name}:rewrite-target")
            if n.get("k") == "MethodCall" and n["m"] == "insert" and core.callee_generic(n) == DOM + "WeakDom::insert":
                r = core.place_root(n["recv"])[0]
                if r != dest:
                    c.violation(R, f"{name}|insert-target|{r}", f"{name} inserts copies into `{r}`, expected `{dest}`", core.loc(n))
        # roots inserted with Ref::none()
        root_inserts = []
        for n in core.walk_fn(f):
            if n.get("k") == "MethodCall" and core.callee_generic(n) == DOM + "WeakDom::insert":
                a = core.strip(n["args"][0])
                if a.get("k") == "Call" and a["f"].get("def") == "rbx_types::referent::Ref::none":
                    root_inserts.append(n)
        if len(root_inserts) == nroots:
            c.ok(R, f"{name}:parentless-root")
        else:
            c.violation(R, f"{name}|root-parent", f"{name}: the cloned root is not inserted with a null parent", f.sp, instance=f"{name}:parentless-root")
        ctx = [n for n in core.walk_fn(f) if n.get("k") == "Call" and "CloneContext" in (core.callee(n) or "") and (core.callee(n) or "").endswith("default")]
        in_loop = False
        for n in core.walk_fn(f):
            fl2 = core.as_for(n)
            if fl2 is not None and any(x in ctx for x in core.walk(fl2[2])):
                in_loop = True
        if len(ctx) == 1 and not in_loop:
            c.ok(R, f"{name}:one-context")
        else:
            c.violation(R, f"{name}|context", f"{name} does not share a single CloneContext across everything it clones (refs between cloned subtrees would not be rewritten)", f.sp, instance=f"{name}:one-context")


def rule_src(c, prog):
    R = "C11.src"
    c.rule(R, "cloning leaves the source untouched: clone_into_external / clone_multiple_into_external / clone_ref_as_builder take the source by shared reference")
    for name, idx in (("WeakDom::clone_into_external", 0), ("WeakDom::clone_multiple_into_external", 0), ("CloneContext::clone_ref_as_builder", 1)):
        f = prog.fn(DOM + name)
        sig = f.d.get("sig", "")
        params = sig[sig.index("(") + 1:]
        first = [p.strip() for p in params.split(",")][idx]
        if first.startswith("&") and not first.startswith("&mut") and "&'" not in first.replace("&'a ", "&").replace("&'_ ", "&") or (first.startswith("&'") and " mut " not in first):
            c.ok(R, name)
        else:
            c.violation(R, f"{name}|sig", f"{name} takes the source as `{first}`; it must be a shared reference", f.sp, instance=name)


def run(c, prog):
    rule_rule(c, prog)
    rule_copy(c, prog)
    rule_src(c, prog)
    c.not_decided += ["isomorphism for every topology (a run)", "Content::Object references inside properties (not Variant::Ref) are outside the rule's statement"]
