"""C17 — serde / text encodings.  C17.owned (no borrowed-input demands), C17.text (Display/FromStr duality),
C17.pair (Serialize/Deserialize pairing per is_human_readable branch), C17.names (flag-name tables)."""
import re

from sa import core, tables
from . import common

SER = "serde_core::ser::Serialize"
DE = "serde_core::de::Deserialize"
VIS = "serde_core::de::Visitor"


def impl_fn(prog, imp, name):
    for it in imp["items"]:
        if it["name"] == name:
            return prog.fns.get(it["path"])
    return None


def rule_owned(c, prog):
    R = "C17.owned"
    c.rule(R, "a Deserialize impl of an owned type must not demand borrowed input (<&str>::deserialize, next_element::<&str>, <&[u8]>::deserialize): such impls fail for serde_json::from_reader / from_value and for strings with escapes")
    n = 0
    for fn in prog.lib_fns():
        if fn.body is None:
            continue
        for x in core.walk_fn(fn):
            if x.get("k") not in ("Call", "MethodCall"):
                continue
            da = (x["f"].get("defargs") if x.get("k") == "Call" and x["f"].get("k") == "Path" else x.get("defargs")) or ""
            m = None
            if re.match(r"^<&('\w+ )?(str|\[u8\]) as serde_core::de::Deserialize<'\w+>>::deserialize", da):
                m = "<&str>::deserialize" if "str" in da.split(" as ")[0] else "<&[u8]>::deserialize"
            elif re.search(r"serde_core::de::(SeqAccess|MapAccess)<'\w+>>?::(next_element|next_key|next_value)::<&('\w+ )?(str|\[u8\])>", da):
                m = re.search(r"(next_element|next_key|next_value)", da).group(1) + "::<&str>"
            if m is None:
                if "serde_core::de::Deserialize" in da or "next_element" in da or "next_key" in da:
                    n += 1
                    c.ok(R, None)
                continue
            n += 1
            owner = fn.d.get("impl_self") or fn.path
            c.violation(R, f"{fn.path}|{m}", f"{fn.path} deserialises through `{m}`: only zero-copy inputs can satisfy a borrowed &str, so `serde_json::from_reader`, `from_value` and any JSON string containing an escape fail with `expected a borrowed string` although the type ({owner}) is owned", core.loc(x), instance=f"{fn.path}|{m}")
    c.floor(R, n, 8, "deserialize / next_element call sites")


def rule_text(c, prog, R="C17.text"):
    c.rule(R, "Display/FromStr duality: a field printed with {:x} from a signed integer (two's-complement digits) must not be parsed with the signed from_str_radix of the same width (which rejects values >= 2^(n-1)); digit widths of the format equal the slice bounds of the parser")
    for ty in ("rbx_types::unique_id::UniqueId", "rbx_types::referent::Ref"):
        disp = prog.impl_fn("core::fmt::Display", ty, "fmt")
        frm = prog.impl_fn("core::str::traits::FromStr", ty, "from_str")
        fa = core.format_args(disp)
        hexed = [a.get("ty", "").lstrip("&").strip() for k, a in fa if k == "new_lower_hex"]
        parsed = []
        for x in core.walk_fn(frm):
            if x.get("k") == "Call":
                m = re.match(r"core::num::<impl (\w+)>::from_str_radix", core.callee(x) or "")
                if m:
                    rng = None
                    a = core.strip(x["args"][0])
                    if a.get("k") == "Index":
                        r = core.strip(a["r"])
                        if r.get("k") == "Struct":
                            f = {q["f"]: core.lit_value(q["e"]) for q in r["fields"]}
                            rng = (f.get("start"), f.get("end"))
                    parsed.append((m.group(1), core.lit_value(x["args"][1]), rng))
        c.sample({"rule": R, "type": ty, "printed_hex_types": hexed, "parsed": parsed})
        for t in hexed:
            tt = t.replace("core::num::nonzero::NonZero<", "").rstrip(">")
            inst = f"{ty}:{tt}"
            signed = tt.startswith("i")
            if signed and any(p[0] == tt for p in parsed):
                c.violation(R, f"{ty}|signed-hex|{tt}", f"{ty}: a `{tt}` is printed with {{:x}} (two's-complement hex, e.g. -5 -> fffffffffffffffb) but parsed back with `{tt}::from_str_radix`, which rejects every value with the top bit set: ids whose `{tt}` part is negative do not survive Display/FromStr (and therefore the XML and JSON forms)", disp.sp, instance=inst)
            else:
                c.ok(R, inst)
        if ty.endswith("UniqueId"):
            # widths: {:016x}{:08x}{:08x} <-> [0..16] [16..24] [24..32]
            rngs = sorted(p[2] for p in parsed if p[2] is not None)
            if rngs == [(0, 16), (16, 24), (24, 32)] and len(parsed) == 3 and all(p[1] == 16 for p in parsed):
                c.ok(R, f"{ty}:slices")
            else:
                c.violation(R, f"{ty}|slices", f"UniqueId::from_str slices {rngs} with radices {[p[1] for p in parsed]}; expected [0..16],[16..24],[24..32] radix 16", frm.sp, instance=f"{ty}:slices")
            # format string pieces
            lits = [x["lit"].get("v") for x in core.walk_fn(disp) if x.get("k") == "Lit" and x["lit"]["lk"] == "str"]
            # field order: random, time, index
            order = [core.place_root(a)[1][-1:] for k, a in fa if k == "new_lower_hex"]
            # which slice feeds which field (through hoisted lets; the order of fields in the struct literal is irrelevant)
            lets = {st["pat"].get("lid"): st["init"] for st in core.walk_lets(frm.body) if "init" in st and st["pat"].get("k") == "Binding"}

            def slice_of(e, depth=0):
                for x in core.walk(e):
                    if x.get("k") == "Call" and re.match(r"core::num::<impl (\w+)>::from_str_radix", core.callee(x) or ""):
                        a = core.strip(x["args"][0])
                        if a.get("k") == "Index":
                            r = core.strip(a["r"])
                            if r.get("k") == "Struct":
                                f = {q["f"]: core.lit_value(q["e"]) for q in r["fields"]}
                                return (f.get("start"), f.get("end"))
                    if x.get("k") == "Path" and x.get("res") == "local" and x.get("lid") in lets and depth < 4:
                        r = slice_of(lets[x["lid"]], depth + 1)
                        if r is not None:
                            return r
                return None
            fmap = {}
            for x in core.walk_fn(frm):
                if x.get("k") == "Struct" and (x.get("def") or "").endswith("UniqueId"):
                    for f in x["fields"]:
                        fmap[f["f"]] = slice_of(f["e"])
            printed = [o[0] for o in order if o]
            want_ranges = [(0, 16), (16, 24), (24, 32)]
            if printed == ["random", "time", "index"] and [fmap.get(f) for f in printed] == want_ranges:
                c.ok(R, f"{ty}:field-order")
            else:
                c.violation(R, f"{ty}|order", f"UniqueId text form: fields are printed in the order {printed} (16, 8, 8 hex digits) but from_str fills {fmap}: a field is parsed from another field's digits", disp.sp, instance=f"{ty}:field-order")


SER_DE = {
    "serialize_str": ({"deserialize_str", "deserialize_string", "deserialize_any"}, {"visit_str"}),
    "serialize_bytes": ({"deserialize_bytes", "deserialize_byte_buf", "deserialize_any"}, {"visit_bytes"}),
    "serialize_u128": ({"deserialize_u128"}, {"visit_u128"}),
    "serialize_seq": ({"deserialize_seq", "deserialize_any"}, {"visit_seq"}),
    "serialize_u8": ({"deserialize_u8"}, {"visit_u8", "visit_u64"}),
    "serialize_u16": ({"deserialize_u16"}, {"visit_u16", "visit_u64"}),
    "serialize_u32": ({"deserialize_u32"}, {"visit_u32", "visit_u64"}),
    "serialize_map": ({"deserialize_map", "deserialize_any", "deserialize_struct"}, {"visit_map"}),
    "serialize_struct": ({"deserialize_struct", "deserialize_map", "deserialize_any"}, {"visit_map", "visit_seq"}),
}
DELEGATE = {"serialize_u8": "u8", "serialize_u16": "u16", "serialize_u32": "u32", "serialize_u64": "u64", "serialize_str": "alloc::string::String"}


def branch_calls(fn, trait_prefix):
    """{human: [...], nonhuman: [...]} — trait-method calls of a serialize/deserialize fn split on is_human_readable():
    `if h {A} else {B}`, or `if h { return A }` followed by B (the rest of the enclosing block)."""
    out = {"human": [], "nonhuman": [], "split": False}

    def collect(nodes, key):
        for br in nodes:
            if br is None:
                continue
            for x in core.walk(br):
                if x.get("k") in ("MethodCall", "Call"):
                    cal = core.callee_generic(x) or ""
                    da = (x.get("defargs") if x.get("k") == "MethodCall" else x["f"].get("defargs")) or ""
                    if cal.startswith(trait_prefix):
                        out[key].append((cal.rsplit("::", 1)[-1], da, x))

    def block_rest(if_node):
        """statements / tail expression following `if_node` in the block that directly contains it"""
        for b in core.walk_fn(fn):
            if b.get("k") in ("Block", "Loop"):
                stmts = b["b"]["stmts"]
                for i, st in enumerate(stmts):
                    e = st.get("e") if st["k"] != "Let" else st.get("init")
                    if e is not None and core.strip(e) is core.strip(if_node):
                        rest = [(x.get("e") if x["k"] != "Let" else x.get("init")) for x in stmts[i + 1:]]
                        if "expr" in b["b"]:
                            rest.append(b["b"]["expr"])
                        return [r for r in rest if r is not None]
        return []
    for n in core.walk_fn(fn):
        if n.get("k") == "If":
            cnd = core.strip(n["c"])
            neg = False
            if cnd.get("k") == "Unary" and cnd["op"] == "!":
                neg = True
                cnd = core.strip(cnd["e"])
            if cnd.get("k") == "MethodCall" and cnd["m"] == "is_human_readable":
                out["split"] = True
                then_nodes, else_nodes = [n["t"]], ([n["f"]] if "f" in n else None)
                if else_nodes is None:
                    # early return form: the then-branch leaves the function, the rest of the block is the other branch
                    if any(x.get("k") == "Ret" for x in core.walk(n["t"])):
                        else_nodes = block_rest(n)
                    else:
                        else_nodes = []
                t, f = (then_nodes, else_nodes) if not neg else (else_nodes, then_nodes)
                collect(t, "human")
                collect(f, "nonhuman")
                out["nodes"] = {"human": t, "nonhuman": f}
                return out
    return out


def rule_pair(c, prog):
    R = "C17.pair"
    c.rule(R, "for every hand-written Serialize/Deserialize pair: both have both is_human_readable branches, and in each branch the deserializer entry point and the visitor methods accept what the serializer method of that branch produces")
    sers = {i["self"]: i for i in prog.impls if i.get("trait") == SER and i["crate"] == "rbx_types" and not i.get("x")}
    des = {i["self"]: i for i in prog.impls if i.get("trait") == DE and i["crate"] == "rbx_types" and not i.get("x")}
    vis = [i for i in prog.impls if i.get("trait") == VIS and i["crate"] == "rbx_types" and not i.get("x")]
    c.floor(R, len(sers), 7, "hand-written Serialize impls")
    for ty in sorted(set(sers) | set(des)):
        if ty not in sers or ty not in des:
            c.violation(R, f"{ty}|unpaired", f"{ty} has a hand-written {'Serialize' if ty in sers else 'Deserialize'} impl without a hand-written counterpart", (sers.get(ty) or des.get(ty))["sp"], instance=ty)
            continue
        sf = impl_fn(prog, sers[ty], "serialize")
        df = impl_fn(prog, des[ty], "deserialize")
        sb = branch_calls(sf, "serde_core::ser::Serializer::")
        db = branch_calls(df, "serde_core::de::Deserializer::")
        if not sb["split"] or not db["split"]:
            if sb["split"] != db["split"]:
                c.violation(R, f"{ty}|split", f"{ty}: only one of Serialize/Deserialize distinguishes human-readable formats", sf.sp, instance=f"{ty}:split")
            else:
                c.ok(R, f"{ty}:split")
            continue
        c.ok(R, f"{ty}:split")
        for br in ("human", "nonhuman"):
            smeths = [m for m, _, _ in sb[br] if m.startswith("serialize_")]
            dmeths = [m for m, _, _ in db[br] if m.startswith("deserialize_")]
            inst = f"{ty}:{br}"
            # delegation: X.serialize(serializer) <-> <X>::deserialize(deserializer)
            sdeleg = deleg_types(sf, br, "serde_core::ser::Serialize::serialize")
            ddeleg = deleg_types(df, br, "serde_core::de::Deserialize::deserialize")
            if smeths:
                sm = smeths[0]
                want_d, want_v = SER_DE.get(sm, (set(), set()))
                visitor_methods = set()
                for m, da, node in db[br]:
                    if m.startswith("deserialize_") and node.get("args"):
                        vty = node["args"][0].get("ty", "")
                        for v in vis:
                            if v["self"] == vty:
                                visitor_methods |= {it["name"] for it in v["items"] if it["name"].startswith("visit_")}
                ok_entry = any(d in want_d for d in dmeths)
                ok_vis = bool(visitor_methods & want_v)
                # primitive delegation on the read side (u8::deserialize) for serialize_u8 etc.
                prim = DELEGATE.get(sm)
                if not dmeths and prim and any(prim == t or t.endswith(prim) for t in ddeleg):
                    ok_entry = ok_vis = True
                if not dmeths and sm == "serialize_str" and any(t in ("&str", "alloc::string::String", "alloc::borrow::Cow<'_, str>") or t.startswith("&") and t.endswith("str") for t in ddeleg):
                    ok_entry = ok_vis = True
                if ok_entry and ok_vis:
                    c.ok(R, inst)
                else:
                    c.violation(R, f"{ty}|{br}|{sm}", f"{ty} ({br}): serializer calls `{sm}` but the deserializer uses {dmeths or sorted(ddeleg)} with visitor methods {sorted(visitor_methods)} — it cannot accept what was produced", df.sp, instance=inst)
            elif sdeleg:
                # Vec<u8> / [u8] / u8 ... delegated both ways: element types must agree
                def norm(t):
                    t = t.lstrip("&").strip()
                    t = t.replace("alloc::vec::Vec<u8>", "[u8]")
                    return t
                if {norm(t) for t in sdeleg} == {norm(t) for t in ddeleg}:
                    c.ok(R, inst)
                else:
                    c.violation(R, f"{ty}|{br}|delegation", f"{ty} ({br}): serializes by delegating to {sorted(sdeleg)} but deserializes through {sorted(ddeleg) or dmeths}", df.sp, instance=inst)
            else:
                c.violation(R, f"{ty}|{br}|empty", f"{ty} ({br}): no serializer call found in this branch", sf.sp, instance=inst)


def deleg_types(fn, br, callee):
    """types X for which the branch `br` calls `<X as Serialize>::serialize` / `<X as Deserialize>::deserialize`"""
    out = set()
    nodes = branch_calls(fn, "\0").get("nodes", {}).get(br) or []
    for node in nodes:
        for x in core.walk(node):
            if x.get("k") in ("MethodCall", "Call") and core.callee_generic(x) == callee:
                da = (x.get("defargs") if x.get("k") == "MethodCall" else x["f"].get("defargs")) or ""
                m = re.match(r"^<(.+?) as serde_core::", da)
                if m:
                    out.add(m.group(1))
    return out


def rule_names(c, prog):
    R = "C17.names"
    c.rule(R, "Faces/Axes: the flag<->name tables of Serialize, the human visitor and Debug agree and are bijective; Tags/MaterialColors encode and decode with the same separator / index tables")
    from sa import sym, wire

    def bit_of_cond(cnd):
        """B for a condition `(x & B) == B` (what `contains(FLAG)` expands to)"""
        if isinstance(cnd, tuple) and cnd and cnd[0] == "op" and cnd[1] == "==" and cnd[3][0] == "c" and isinstance(cnd[3][1], int):
            l = cnd[2]
            if l[0] == "op" and l[1] == "&" and l[3] == cnd[3]:
                return cnd[3][1]
        return None

    def flag_names(fn, sink_rx, arg_idx):
        """{bit: name} from the symbolic paths of a function that emits a name under `contains(FLAG)` — unrolled
        `if` statements or a loop over a constant (flag, name) table alike"""
        def sink(I, n, path, arg_nodes, env):
            args = [I.eval(a, env) for a in arg_nodes]
            I.emit(("sink", "name", ("tup", tuple(args)), core.loc(n)))
            return sym.var(sym.OK, sym.UNIT)
        prims = [(re.compile(sink_rx), sink), (re.compile(r"Serializer::is_human_readable$"), lambda I, n, p, a, e: sym.C(True))]
        env = {prm["lid"]: ("in", prm["name"]) for prm in fn.params}
        I, val, ex = wire.run_region(prog, fn.body, env, prims, depth=6)
        out = {}

        def walk(evs, conds):
            for e in evs:
                if e[0] == "alt":
                    for alt in e[1]:
                        walk(alt[1], conds + [alt[0]])
                elif e[0] == "rep":
                    walk(e[2], conds)
                elif e[0] == "sink":
                    bits = [b for b in (bit_of_cond(cnd) for cnd in conds) if b is not None]
                    nm = e[2][1][arg_idx]
                    if len(bits) == 1 and nm[0] == "c":
                        out[bits[-1]] = nm[1]
        walk(I.events, [])
        return out

    def const_bit(path_node):
        """integer bit of a flag constant (Faces::RIGHT / FaceFlags::RIGHT)"""
        I = wire.WireInterp(prog, prims=[], depth=4)
        t = I.eval(path_node, {})
        ints = []

        def rec(x):
            if isinstance(x, tuple) and x:
                if x[0] == "c" and isinstance(x[1], int):
                    ints.append(x[1])
                for y in x:
                    rec(y)
        rec(t)
        return ints[0] if len(ints) == 1 else None
    def hint_clause(ty, ser, smap):
        inst = f"{ty}:seq-length-hint"
        calls = [x for x in core.walk_fn(ser) if x.get("k") == "MethodCall" and (core.callee_generic(x) or "").endswith("Serializer::serialize_seq")]
        if not calls:
            return
        for call in calls:
            arg = core.strip(call["args"][0])
            if arg.get("k") == "Path" and (arg.get("def") or "").endswith("Option::None"):
                c.ok(R, inst)
                continue
            inner = core.strip(core.call_args(arg)[0]) if arg.get("k") == "Call" and core.call_args(arg) else None
            term = None
            if inner is not None:
                try:
                    callee = core.callee_generic(inner) if inner.get("k") in ("MethodCall", "Call") else None
                    if callee in prog.fns and prog.fns[callee].body is not None and len(prog.fns[callee].params) == 1:
                        f = prog.fns[callee]
                        I, term, _ = wire.run_region(prog, f.body, {f.params[0]["lid"]: ("in", "self")}, [], depth=6)
                    else:
                        env = {prm["lid"]: ("in", prm["name"]) for prm in ser.params}
                        term = wire.WireInterp(prog, prims=[], depth=6).eval(inner, env)
                except sym.Unsupported:
                    term = None

            def bits_of_self(t):
                if not isinstance(t, tuple):
                    return False
                if t[0] == "app" and t[1].endswith("::bits") and len(t[2]) == 1:
                    return t[2][0] == ("in", "self") or bits_of_self(t[2][0])
                if t[0] == "fld" and t[2] == "bits":
                    return True
                return False

            def find_count(t):
                if isinstance(t, tuple):
                    if t and t[0] == "app" and isinstance(t[1], str) and t[1].endswith("::count_ones"):
                        return t[2][0]
                    for y in t:
                        r = find_count(y)
                        if r is not None:
                            return r
                return None
            a = find_count(term) if term is not None else None
            mask = None
            if a is not None and bits_of_self(a):
                mask = -1
            elif a is not None and a[0] == "op" and a[1] == "&":
                l, r = a[2], a[3]
                if bits_of_self(l) and r[0] == "c" and isinstance(r[1], int):
                    mask = r[1]
                elif bits_of_self(r) and l[0] == "c" and isinstance(l[1], int):
                    mask = l[1]
            c.sample({"rule": R, "type": ty, "seq_hint": repr(term)[:200], "mask": mask})
            if mask is None:
                c.not_decided.append(f"{ty}: the serialize_seq length hint has a form the count rule does not evaluate ({repr(term)[:80]})")
                continue
            missing = [nm for b, nm in sorted(smap.items()) if mask != -1 and not (mask & b)]
            if missing:
                c.violation(R, f"{ty}|hint|{','.join(missing)}", f"{ty}: the length announced to serialize_seq counts the set bits under mask {mask:#b}, which leaves out {missing} although Serialize writes an element for them: for a set holding only such a flag the announced length is 0 and serde_json emits `[]` followed by the element — text that cannot be parsed back", core.loc(call), instance=inst)
            else:
                c.ok(R, inst)

    for ty, flags in (("rbx_types::faces::Faces", "rbx_types::faces::FaceFlags"), ("rbx_types::axes::Axes", "rbx_types::axes::AxisFlags")):
        ser = prog.impl_fn(SER, ty, "serialize")
        dbg = prog.impl_fn("core::fmt::Debug", ty, "fmt")
        try:
            smap = flag_names(ser, r"SerializeSeq::serialize_element$", 1)
            dmap = flag_names(dbg, r"::write$", -1)
        except sym.Unsupported as e:
            c.violation(R, f"{ty}|cannot-analyse", f"{ty}: Serialize / Debug are outside the symbolic model: {e}", ser.sp, instance=f"{ty}:ser-vs-visitor")
            continue
        vis = [i for i in prog.impls if i.get("trait") == VIS and i["self"].startswith(ty.rsplit("::", 1)[0] + "::serde_impl::")]
        vmap = {}
        for v in vis:
            f = impl_fn(prog, v, "visit_seq")
            if f is None:
                continue
            # the name table may sit in visit_seq itself or in a private helper it calls
            bodies = [f]
            for depth_ in range(2):
                for g_ in list(bodies):
                    for x in core.walk_fn(g_):
                        if x.get("k") in ("Call", "MethodCall"):
                            h = prog.fns.get(core.callee_generic(x) or "")
                            if h is not None and h.body is not None and h.crate == "rbx_types" and h not in bodies:
                                bodies.append(h)
            for n in (y for g_ in bodies for y in core.walk_fn(g_)):
                if n.get("k") == "Match" and n.get("src") == "Normal":
                    for arm in n["arms"]:
                        for alt in tables.pat_alts(arm["pat"]):
                            if alt[0] == "lit" and isinstance(alt[1], str):
                                # the flag constant this name selects: `flags |= FLAG` in the arm, or the arm's value
                                consts = [x for x in core.walk(arm["body"]) if x.get("k") == "Path" and x.get("def") and (x["def"].startswith(flags + "::") or x["def"].startswith(ty + "::")) and x.get("res", "").startswith(("AssocConst", "Const", "Def(AssocConst"))]
                                if not consts:
                                    consts = [x for x in core.walk(arm["body"]) if x.get("k") == "Path" and x.get("def") and (x["def"].startswith(flags + "::") or x["def"].startswith(ty + "::")) and x["def"].rsplit("::", 1)[-1].isupper()]
                                if len(consts) == 1:
                                    b = const_bit(consts[0])
                                    if b is not None:
                                        vmap[b] = alt[1]
        c.sample({"rule": R, "type": ty, "serialize": smap, "visitor": vmap, "debug": dmap})
        inst = f"{ty}:ser-vs-visitor"
        want = 6 if ty.endswith("Faces") else 3
        if smap and smap == vmap and len(set(smap.values())) == len(smap) == want:
            c.ok(R, inst)
        else:
            c.violation(R, f"{ty}|names", f"{ty}: Serialize writes {smap} but the human visitor reads {vmap}; the tables must be equal bijections over the {want} flags", ser.sp, instance=inst)
        if dmap == smap:
            c.ok(R, f"{ty}:debug")
        else:
            c.violation(R, f"{ty}|debug", f"{ty}: Debug names {dmap} differ from the serde names {smap}", dbg.sp, instance=f"{ty}:debug")
        # the element count announced to serialize_seq must count every flag that is then written: serde_json closes
        # the array at once for a count of 0, so an undercount of a one-element set produces text nobody can parse
        hint_clause(ty, ser, smap)
    # Tags
    enc = prog.fn("rbx_types::tags::Tags::encode")
    dec = prog.fn("rbx_types::tags::Tags::decode")
    e_sep = [core.lit_value(x) for x in core.walk_fn(enc) if x.get("k") == "Lit" and x["lit"]["lk"] in ("int", "str", "bytes")]
    d_sep = [core.lit_value(x) for x in core.walk_fn(dec) if x.get("k") == "Lit" and x["lit"]["lk"] in ("int", "str", "bytes")]
    c.sample({"rule": R, "tags_literals": {"encode": [str(v) for v in e_sep], "decode": [str(v) for v in d_sep]}})

    def zero_sep(v):
        return v == 0 or v == "\0" or v == (0,) or v == b"\0"
    chain = [x["m"] for x in core.walk_fn(dec) if x.get("k") == "MethodCall"]
    # operations that drop, duplicate or reorder elements of the decoded list (the list must be exactly the non-empty
    # NUL-separated pieces, in order): a closed list of the std adaptors / Vec methods that do so
    REORDER = {"dedup", "dedup_by", "dedup_by_key", "sort", "sort_by", "sort_by_key", "sort_unstable", "sort_unstable_by", "sort_unstable_by_key", "rev", "reverse",
               "take", "skip", "step_by", "take_while", "skip_while", "truncate", "pop", "remove", "swap", "swap_remove", "retain", "retain_mut", "drain", "last", "nth",
               "first", "chunks", "windows", "splitn", "rsplit", "rsplitn", "split_once", "rotate_left", "rotate_right", "insert", "filter_map", "flat_map", "find",
               "map_while", "scan", "fuse", "peekable", "cycle", "chain", "zip", "unzip", "partition", "max", "min", "clear", "split_off", "resize"}
    extra = [m for m in chain if m in REORDER]
    # the only test that may drop a piece is `is_empty()`
    tests = []
    for x in core.walk_fn(dec):
        if x.get("k") == "If":
            tests.append(x["c"])
        if x.get("k") == "MethodCall" and x["m"] == "filter" and x["args"] and core.strip(x["args"][0]).get("k") == "Closure":
            tests.append(core.strip(x["args"][0])["body"])
        if x.get("k") == "Match" and x.get("src") == "Normal":
            for arm in x["arms"]:
                if "guard" in arm:
                    tests.append(arm["guard"])

    def only_is_empty(t):
        t = core.strip(t)
        while t.get("k") == "Block" and not t["b"]["stmts"] and "expr" in t["b"]:
            t = core.strip(t["b"]["expr"])
        if t.get("k") == "Unary" and t["op"] == "!":
            return only_is_empty(t["e"])
        return t.get("k") == "MethodCall" and t["m"] == "is_empty" and not t["args"]
    bad_tests = [core.fingerprint(t, 4) for t in tests if not only_is_empty(t)]
    has_core = "split" in chain and any((core.callee(x) or "").endswith("String::from_utf8") for x in core.walk_fn(dec) if x.get("k") in ("Call", "MethodCall"))
    if not extra and not bad_tests and has_core:
        c.ok(R, "tags:decode-chain")
    else:
        c.violation(R, "tags|decode|" + ",".join(sorted(set(extra)) or (["test"] if bad_tests else ["shape"])), f"Tags::decode applies {sorted(set(extra))} / tests {bad_tests} on the decoded list; decoding must be split-on-NUL / drop empties / from_utf8 only, otherwise members are lost or reordered (e.g. dedup drops a tag that appears twice in a row)", dec.sp, instance="tags:decode-chain")
    echain = [x["m"] for x in core.walk_fn(enc) if x.get("k") == "MethodCall"]
    if set(echain) <= {"join", "into_bytes", "as_bytes", "to_vec", "iter"}:
        c.ok(R, "tags:encode-chain")
    else:
        c.violation(R, "tags|encode|" + ",".join(sorted(set(echain))), f"Tags::encode is no longer `members.join(NUL).into_bytes()` ({echain})", enc.sp, instance="tags:encode-chain")
    if any(zero_sep(v) for v in e_sep) and any(zero_sep(v) for v in d_sep):
        c.ok(R, "tags:separator")
    else:
        c.violation(R, "tags|separator", f"Tags::encode uses separators {e_sep}, decode splits on {d_sep}; both must use the NUL byte", enc.sp, instance="tags:separator")


def rule_matcolors(c, prog):
    """MaterialColors blob: a colour's position is its material's position in MATERIAL_ORDER, in encode and decode alike"""
    R = "C17.names"
    enc = prog.fn("rbx_types::material_colors::MaterialColors::encode")
    dec = prog.fn("rbx_types::material_colors::MaterialColors::decode")
    ORDER = "rbx_types::material_colors::MATERIAL_ORDER"
    MAT = "rbx_types::material_colors::TerrainMaterials"

    def peel(ty):
        ty = ty or ""
        while ty.startswith("&"):
            ty = ty[5:] if ty.startswith("&mut ") else ty[1:]
        return ty

    def is_store(x, want):
        """a write into the blob buffer (encode) or the colour map (decode)"""
        if x.get("k") == "MethodCall":
            rc = core.strip(x["recv"])
            while rc.get("k") in ("Index", "AddrOf", "Unary"):
                rc = core.strip(rc["l"] if rc.get("k") == "Index" else rc.get("e") or {})
            rty = peel(rc.get("ty"))
            if want == "blob":
                return rty.startswith("alloc::vec::Vec<u8>") and x["m"] in ("push", "extend", "extend_from_slice", "insert", "append", "resize", "copy_from_slice", "clone_from_slice", "fill", "splice", "write_all")
            return rty.startswith("alloc::collections::btree::map::BTreeMap<") and x["m"] in ("insert", "entry", "extend")
        if x.get("k") in ("Assign", "AssignOp") and want == "blob":
            l = core.strip(x["l"])
            return l.get("k") == "Index"
        return False

    def mentions_order(n):
        for y in core.walk(n):
            if y.get("k") == "Path" and y.get("def") == ORDER:
                return True
            if y.get("k") == "Cast" and peel(core.strip(y["e"]).get("ty")) == MAT:
                return True
        return False

    def loops(fn):
        """(description, node covering source and body) for each iteration in the function: for-loops and statements
        that drive a closure through an iterator chain"""
        out = []
        for n in core.walk_fn(fn):
            if n.get("k") == "DropTemps":
                continue
            fl = core.as_for(n)
            if fl is not None:
                out.append(("for " + core.fingerprint(fl[1], 3)[:60], n, fl[2]))
        for blk in core.walk_fn(fn):
            if blk.get("k") != "Block":
                continue
            for st in blk["b"]["stmts"] + ([{"k": "Expr", "e": blk["b"]["expr"]}] if "expr" in blk["b"] else []):
                e = st.get("e") or st.get("init")
                if e is None or core.as_for(e) is not None or (e.get("k") == "DropTemps" and core.as_for(e) is not None):
                    continue
                cl = [y for y in core.walk(e) if y.get("k") == "Closure"]
                if cl and core.strip(e).get("k") in ("MethodCall", "Call"):
                    out.append(("chain " + core.fingerprint(e, 2)[:60], e, e))
        return out

    for fn, want, what in ((enc, "blob", "writes a colour into the blob"), (dec, "map", "files a colour under a material")):
        inst = f"materialcolors:{fn.path.rsplit('::', 1)[-1]}-slots"
        n_it = 0
        bad = []
        for desc, whole, body in loops(fn):
            if not any(is_store(x, want) for x in core.walk(body)):
                continue
            n_it += 1
            if not mentions_order(whole):
                bad.append((desc, whole))
        collects = [x for x in core.walk_fn(fn) if x.get("k") == "MethodCall" and x["m"] == "collect" and mentions_order(x)]
        if bad:
            for desc, whole in bad:
                c.violation(R, f"materialcolors|{fn.path.rsplit('::', 1)[-1]}|slot-source", f"{fn.path}: the iteration `{desc}` {what} without referring to MATERIAL_ORDER or to the material's own discriminant: the slot it uses is a running count over something else, so a sparse map (some materials set, others not) puts colours into other materials' slots", core.loc(whole), instance=inst)
        elif n_it or collects:
            c.ok(R, inst)
        else:
            c.not_decided.append(f"{fn.path}: no iteration that {what} was recognised")

    # constants: prefix length, bytes per colour, total length, as far as their forms are plain
    from sa import bounds
    bounds.PROG = prog

    def int_lits(n):
        """constant integers in a comparison / argument: literals, or a named constant expression as a whole"""
        v = bounds.const_int(n)
        if v is not None:
            return [v]
        if n.get("k") == "Binary":
            for side in (n["l"], n["r"]):
                v = bounds.const_int(side)
                if v is not None:
                    return [v]
        return [core.lit_value(y) for y in core.walk(n) if y.get("k") == "Lit" and y["lit"]["lk"] == "int"]
    order_len = None
    for y in core.walk_fn(dec):
        if y.get("k") == "Path" and y.get("def") == ORDER:
            m = re.search(r";\s*(\d+)\]", y.get("ty") or "")
            if m:
                order_len = int(m.group(1))
    total = None
    for y in core.walk_fn(dec):
        if y.get("k") == "If":
            cmp_ = [z for z in core.walk(y["c"]) if z.get("k") == "Binary" and z["op"] in ("!=", "==") and any(w.get("k") == "MethodCall" and w["m"] == "len" for w in core.walk(z))]
            if cmp_ and int_lits(cmp_[0]):
                total = int_lits(cmp_[0])[0]
    chunk = skip = None
    for y in core.walk_fn(dec):
        if y.get("k") == "MethodCall" and y["m"] in ("chunks", "chunks_exact") and y["args"] and int_lits(y["args"][0]):
            chunk = int_lits(y["args"][0])[0]
        if y.get("k") == "MethodCall" and y["m"] == "skip" and y["args"] and int_lits(y["args"][0]) and any(z.get("k") == "MethodCall" and z["m"] in ("chunks", "chunks_exact") for z in core.walk(y["recv"])):
            skip = int_lits(y["args"][0])[0]
    prefix = None
    for y in core.walk_fn(enc, into_closures=False):
        if core.as_for(y) is not None:
            continue
    top = [st for st in enc.body["b"]["stmts"]] if enc.body.get("k") == "Block" else []
    for st in top:
        e = st.get("e")
        if e is None or core.as_for(e) is not None:
            continue
        for y in core.walk(e):
            if y.get("k") == "MethodCall" and y["m"] == "extend_from_slice" and is_store(y, "blob"):
                a = core.strip(y["args"][0])
                while a.get("k") in ("AddrOf",):
                    a = core.strip(a["e"])
                if a.get("k") == "Repeat":
                    m = re.search(r";\s*(\d+)\]", a.get("ty") or "")
                    prefix = (prefix or 0) + (int(m.group(1)) if m else 0)
                elif a.get("k") == "Array":
                    prefix = (prefix or 0) + len(a.get("es") or a.get("elems") or [])
    c.sample({"rule": R, "materialcolors": {"order_len": order_len, "decode_total": total, "decode_chunk": chunk, "decode_skip": skip, "encode_prefix": prefix}})
    if None in (order_len, total, chunk, skip, prefix):
        c.not_decided.append(f"MaterialColors blob constants: a form was not recognised (order_len={order_len}, total={total}, chunk={chunk}, skip={skip}, prefix={prefix})")
    elif chunk * skip == prefix and total == prefix + chunk * order_len and chunk == 3:
        c.ok(R, "materialcolors:constants")
    else:
        c.violation(R, "materialcolors|constants", f"MaterialColors: encode writes a {prefix}-byte prefix, decode skips {skip} chunks of {chunk} bytes and demands {total} bytes for {order_len} materials; these must satisfy skip*chunk == prefix and total == prefix + 3*materials", dec.sp, instance="materialcolors:constants")


def rule_brick(c, prog, R="C17.brick"):
    """BrickColor: number <-> colour is a bijection over the table, and a name selects the first colour carrying it"""
    c.rule(R, "BrickColor tables (read as tables, whatever their form — match arms or a lookup built once): from_number(v as u16) = Some(v) for every colour v; the name printed by Display for v is accepted by from_name and yields a colour with that same name, namely the FIRST colour of the table carrying it (the documented collision rule for Gold, Rust, Lilac, Deep orange); names of distinct colours otherwise differ")
    BC = "rbx_types::brick_color::BrickColor"
    adt = prog.adts.get(BC)
    if adt is None:
        raise core.AnchorMissing("BrickColor not found")
    order = [v["name"] for v in adt["variants"]]
    discr = {v["name"]: v["discr"] for v in adt["variants"]}

    def variant_of(e):
        for y in core.walk(e):
            if y.get("k") == "Path" and (y.get("def") or "").startswith(BC + "::") and y["def"].rsplit("::", 1)[-1] in discr:
                return y["def"].rsplit("::", 1)[-1]
        return None

    def lit_of(p):
        for y in core.walk(p) if isinstance(p, dict) and "k" in p else []:
            if y.get("k") == "Lit":
                return core.lit_value(y)
        if isinstance(p, dict) and p.get("k") == "Expr":
            return core.lit_value(p["e"])
        return None

    def table(fn, key_kind):
        """ordered [(key literal, variant)] of a lookup function, and how a repeated key is resolved ('first' | 'last')"""
        rows, mode = [], None
        for n in core.walk_fn(fn):
            if n.get("k") == "Match" and n.get("src") == "Normal" and len(n["arms"]) > 20:
                for arm in n["arms"]:
                    k = lit_of(arm["pat"])
                    v = variant_of(arm["body"])
                    if k is not None and v is not None:
                        rows.append((k, v))
                mode = "first"
        if rows:
            return rows, mode
        # a table built once: HashMap / BTreeMap filled by insert (a repeated key: last wins) or entry().or_insert (first wins),
        # in the function itself or in an initialiser it reaches (lazy_static / OnceLock)
        bodies = [fn]
        for g_ in list(bodies):
            for x in core.walk_fn(g_):
                pass
        cands = [f for f in prog.lib_fns() if f.body is not None and f.crate == "rbx_types" and "brick_color" in f.path and f is not fn]
        for g_ in [fn] + cands:
            ins = []
            for x in core.walk_fn(g_):
                if x.get("k") == "MethodCall" and x["m"] == "insert" and len(x["args"]) == 2 and "Map<" in (core.strip(x["recv"]).get("ty") or ""):
                    k, v = core.lit_value(core.strip(x["args"][0])), variant_of(x["args"][1])
                    if k is not None and v is not None:
                        ins.append((core.loc(x), k, v, "last"))
                if x.get("k") == "MethodCall" and x["m"] in ("or_insert", "or_insert_with") and core.strip(x["recv"]).get("k") == "MethodCall" and core.strip(x["recv"])["m"] == "entry":
                    k, v = core.lit_value(core.strip(core.strip(x["recv"])["args"][0])), variant_of(x["args"][0])
                    if k is not None and v is not None:
                        ins.append((core.loc(x), k, v, "first"))
            if len(ins) > 20:
                modes = {m_ for _, _, _, m_ in ins}
                return [(k, v) for _, k, v, _ in ins], (modes.pop() if len(modes) == 1 else "mixed")
        return [], None

    def resolve(rows, mode):
        out = {}
        for k, v in rows:
            if mode == "first":
                out.setdefault(k, v)
            else:
                out[k] = v
        return out
    # Display: variant -> name
    disp = prog.impl_fn("core::fmt::Display", BC, "fmt")
    names = {}
    from . import common as _common
    for n in _common.walk_inline(prog, disp.body, "rbx_types::brick_color", 2):      # the table may sit in a private `name()` that fmt prints
        if n.get("k") == "Match" and n.get("src") == "Normal":
            for arm in n["arms"]:
                v = core.pat_str(arm["pat"]).rsplit("::", 1)[-1]
                lits = [core.lit_value(y) for y in core.walk(arm["body"]) if y.get("k") == "Lit" and isinstance(core.lit_value(y), str)]
                if v in discr and lits:
                    names[v] = lits[0]
    num_rows, num_mode = table(prog.fn(BC + "::from_number"), "int")
    name_rows, name_mode = table(prog.fn(BC + "::from_name"), "str")
    c.floor(R, len(names), 200, "BrickColor names")
    if not num_rows or not name_rows or name_mode in (None, "mixed"):
        c.violation(R, "tables|cannot-read", f"BrickColor::from_number / from_name are in a form the table reader does not understand (rows: {len(num_rows)}, {len(name_rows)}; mode {name_mode})", prog.fn(BC + "::from_name").sp, instance="brickcolor:tables")
        return
    by_num = resolve(num_rows, num_mode)
    by_name = resolve(name_rows, name_mode)
    first_with = {}
    for v in order:
        first_with.setdefault(names.get(v), v)
    bad_num = [v for v in order if by_num.get(discr[v]) != v]
    if bad_num:
        c.violation(R, f"number|{bad_num[0]}", f"BrickColor::from_number({discr[bad_num[0]]}) gives {by_num.get(discr[bad_num[0]])}, not {bad_num[0]} whose number that is ({len(bad_num)} colours affected)", prog.fn(BC + "::from_number").sp, instance="brickcolor:number-bijection")
    else:
        c.ok(R, "brickcolor:number-bijection", len(order))
    bad_name = [(v, by_name.get(names.get(v))) for v in order if by_name.get(names.get(v)) != first_with.get(names.get(v))]
    if bad_name:
        v, got = bad_name[0]
        c.violation(R, f"name|{names.get(v)}", f"BrickColor::from_name({names.get(v)!r}) gives {got}; the table's first colour of that name is {first_with.get(names.get(v))} ({len(bad_name)} colours affected): for the colliding names (Gold, Rust, Lilac, Deep orange) the documented winner is the first one, which is what Roblox resolves the name to", prog.fn(BC + "::from_name").sp, instance="brickcolor:name-first-wins")
    else:
        c.ok(R, "brickcolor:name-first-wins", len(order))


SNIFF = re.compile(r"SerializeStruct(Variant)?::skip_field$|Deserializer::deserialize_any$|Deserializer::deserialize_ignored_any$|private::de::content::Content(Ref)?Deserializer|private::de::content::ContentVisitor|private::de::content::TaggedContentVisitor|private::de::FlatMapDeserializer")


def rule_selfdesc(c, prog, R="C17.selfdesc"):
    """bincode (and any format that is not self-describing) cannot tell a deserializer what comes next: code that asks
    (deserialize_any; the buffered `Content` behind #[serde(untagged)], internally tagged enums and flatten) works for
    JSON and MessagePack and fails for the compact encoding"""
    c.rule(R, "encodings whose shape depends on the value — a field left out by `skip_serializing_if` (SerializeStruct::skip_field), shape-sniffing deserialisation (Deserializer::deserialize_any, serde's buffered Content used by untagged / internally tagged enums and flatten) — are reached only where `deserializer.is_human_readable()` has been answered true — directly, or in every caller of the generated impl that contains it; elsewhere a value that decodes from JSON fails to decode from bincode")
    from sa import flow
    g = flow.CallGraph(prog)
    callers = {}
    for src, tgs in g.edges.items():
        for t in tgs:
            callers.setdefault(t, set()).add(src)

    def guarded_sites(fn, pred):
        """(guarded, unguarded) nodes of fn satisfying pred, where guarded = inside the then-branch of `if X.is_human_readable()`"""
        hr_then = set()
        hr_else = set()
        for n in core.walk_fn(fn):
            if n.get("k") == "If":
                cnd = core.strip(n["c"])
                neg = False
                while cnd.get("k") == "Unary" and cnd.get("op") in ("!", "Not"):
                    neg = not neg
                    cnd = core.strip(cnd["e"])
                if cnd.get("k") == "MethodCall" and cnd["m"] == "is_human_readable":
                    t_ids = {id(y) for y in core.walk(n["t"])}
                    f_ids = {id(y) for y in core.walk(n["f"])} if "f" in n else set()
                    hr_then |= (f_ids if neg else t_ids)
                    hr_else |= (t_ids if neg else f_ids)
        gs, us = [], []
        for n in core.walk_fn(fn):
            if pred(n):
                (gs if id(n) in hr_then else us).append(n)
        return gs, us
    n_sites = 0

    def check(fn, pred, depth, trail):
        nonlocal n_sites
        gs, us = guarded_sites(fn, pred)
        n_sites += len(gs) + len(us)
        bad = []
        for u in us:
            # an unguarded site inside a generated / helper Deserialize impl is fine if every caller of that impl is guarded
            cs = [prog.fns[p_] for p_ in callers.get(fn.path, ()) if p_ in prog.fns and prog.fns[p_].crate == "rbx_types" and prog.fns[p_].body is not None and not prog.fns[p_].path.startswith(fn.path)]
            owner = fn.d.get("root") if fn.dk == "Closure" else None
            # the serde impl of a public type is an entry point of its own: anyone can hand it any serializer, and
            # containers reach it through generic `serialize_field` calls that are not edges of the call graph
            mimpl = re.search(r"<impl serde_core::(ser::Serialize|de::Deserialize<'de>) for ([\w:]+)", fn.path)
            if mimpl:
                adt_ = prog.adts.get(mimpl.group(2))
                if adt_ is not None and "Public" in str(adt_.get("vis")):
                    cs = []
            if not cs or depth <= 0:
                bad.append((fn, u, trail))
                continue
            for cf in cs:
                sub = check(cf, lambda y, tgt=fn.path: y.get("k") in ("Call", "MethodCall") and (core.callee(y) == tgt), depth - 1, trail + [fn.path])
                bad += sub
        return bad
    seen = set()
    for fn in prog.lib_fns():
        if fn.crate != "rbx_types" or fn.body is None:
            continue
        if not any(x.get("k") in ("Call", "MethodCall") and SNIFF.search((core.callee(x) or "") + "|" + (core.callee_generic(x) or "")) for x in core.walk_fn(fn)):
            continue
        bad = check(fn, lambda y: y.get("k") in ("Call", "MethodCall") and bool(SNIFF.search((core.callee(y) or "") + "|" + (core.callee_generic(y) or ""))), 3, [])
        inst = f"sniff:{core.short(fn.path)}"
        if bad:
            bf, bn, trail = bad[0]
            key = f"sniff|{fn.path.split('::<impl')[0]}"
            if key in seen:
                continue
            seen.add(key)
            c.violation(R, key, f"{core.short(fn.path)} makes the encoding's shape depend on the value ({core.short(core.callee_generic(bn) or core.callee(bn) or '')}: a field that is sometimes left out, or a deserializer asked what comes next) without `is_human_readable()` having been answered true on the way{' (reached through ' + ' <- '.join(core.short(t_) for t_ in trail) + ')' if trail else ''}: JSON and MessagePack cope, the positional bincode encoding fails to decode or shifts the fields that follow", core.loc(bn), instance=inst)
        else:
            c.ok(R, inst)
    c.floor(R, n_sites, 1, "shape-sniffing deserialisation sites in rbx_types")


def rule_hooks(c, prog, R="C17.hooks"):
    """a derived Serialize and a derived Deserialize are inverse by construction; a field hook (`serialize_with`,
    `deserialize_with`, `with`, `skip_serializing_if`, `getter`) swaps in hand-written code on one side.  The pair
    stays inverse only when the other side has the matching hook — a hook on one side alone writes what the derived
    reader does not read back (or the reverse)."""
    c.rule(R, "derived serde impls of rbx_types types: the workspace functions a derived Serialize impl calls (field hooks such as serialize_with) have a counterpart on the derived Deserialize impl of the same type, and the reverse; a one-sided hook means the written form is not the one the derived counterpart reads")
    sides = {}
    for imp in prog.impls:
        tr = imp.get("trait") or ""
        if not re.search(r"serde(_core)?::(ser::Serialize|de::Deserialize)", tr) or "derive" not in (imp.get("x") or ""):
            continue
        me = imp.get("self") or ""
        if not me.startswith("rbx_types::") or "::_::" in me or "__" in me.rsplit("::", 1)[-1]:
            continue
        side = "ser" if "ser::Serialize" in tr else "de"
        hooks = set()
        prefixes = [it["path"] for it in imp["items"]]
        for path, f in prog.fns.items():
            if f.body is None or not any(path == p_ or path.startswith(p_ + "::") for p_ in prefixes):
                continue
            for x in core.walk_fn(f):
                if x.get("k") not in ("Call", "MethodCall"):
                    continue
                cal = core.callee(x) or ""
                g = prog.fns.get(cal)
                if g is None or g.crate not in core.LIB_CRATES or any(cal == p_ or cal.startswith(p_ + "::") for p_ in prefixes):
                    continue
                if re.search(r"as serde(_core)?::(ser::Serialize|de::Deserialize)", cal) or re.search(r"::(serialize|deserialize)$", cal) and " as serde" in cal:
                    continue
                if "impl serde" in cal or "::_::" in cal:
                    continue      # other generated serde code
                hooks.add(cal)
        sides.setdefault(me, {})[side] = hooks
    n = 0
    for me, sd in sorted(sides.items()):
        if "ser" not in sd or "de" not in sd:
            continue
        n += 1
        inst = f"hooks:{core.short(me)}"
        if bool(sd["ser"]) != bool(sd["de"]):
            which, hk = ("Serialize", sorted(sd["ser"])) if sd["ser"] else ("Deserialize", sorted(sd["de"]))
            c.violation(R, f"one-sided|{core.short(me)}|{which}", f"{me}: the derived {which} impl goes through {', '.join(core.short(h) for h in hk)} (a field hook) while the derived {'Deserialize' if which == 'Serialize' else 'Serialize'} impl of the same type has none: what one side writes is not what the other reads back — values the hook spells differently (omits, rewrites) do not survive serde encodings", prog.fns[hk[0]].sp, instance=inst)
        else:
            c.ok(R, inst)
    c.floor(R, n, 20, "rbx_types types with derived Serialize and Deserialize")


def run(c, prog):
    rule_hooks(c, prog)
    rule_owned(c, prog)
    rule_text(c, prog)
    rule_pair(c, prog)
    rule_names(c, prog)
    rule_matcolors(c, prog)
    rule_brick(c, prog)
    rule_selfdesc(c, prog)
    from . import C17_domain
    C17_domain.run(c, prog, which=("tags", "matcolors"))
    c.not_decided += ["value-exact survival through serde_json / bincode / rmp-serde (third-party number formatting)", "re-encoding equality of the allValues.json fixture"]
