"""Shared anchors and helpers for the rule modules."""
import os
import re

from sa import core, tables

TYPE_ENUM = "rbx_binary::types::Type"
VARIANT_TYPE = "rbx_types::variant::VariantType"
VARIANT = "rbx_types::variant::Variant"
SER_STATE = "rbx_binary::serializer::state::SerializerState::<'dom, 'db, W>"
DE_STATE = "rbx_binary::deserializer::state::DeserializerState::<'db, R>"


def find_fn(prog, regex):
    fs = prog.find_fns(regex)
    fs = [f for f in fs if f.dk != "Closure"]
    if len(fs) != 1:
        raise core.AnchorMissing(f"expected exactly one function matching /{regex}/, found {[f.path for f in fs][:5]}")
    return fs[0]


def vname(path):
    return path.rsplit("::", 1)[-1] if path else None


def readme_support(column):
    """Parse README.md's support table: {type name: mark} for the given column header."""
    path = os.path.join(core.REPO, "README.md")
    rows = {}
    header = None
    with open(path, encoding="utf-8") as fh:
        for line in fh:
            if not line.startswith("|"):
                continue
            cells = [c.strip() for c in line.strip().strip("|").split("|")]
            if cells and cells[0] == "Property Type":
                header = cells
                continue
            if header and not set(cells[0]) <= set(":-"):
                if column in header and len(cells) >= len(header):
                    rows[cells[0]] = cells[header.index(column)]
    if not rows:
        raise core.AnchorMissing("README.md support table not found")
    return rows


def binary_decoder_arms(prog):
    """{Type variant name: {VariantType name or '_': arm node}} from decode_prop_chunk's two-level match."""
    fn = find_fn(prog, r"deserializer::state::DeserializerState.*::decode_prop_chunk$")
    outer = tables.top_match(fn, "binary_type")
    arms = {}
    for arm in outer["arms"]:
        for alt in tables.pat_alts(arm["pat"]):
            if alt[0] != "v" or not alt[1].startswith(TYPE_ENUM + "::"):
                raise core.AnchorMissing(f"unexpected outer pattern {alt} in decode_prop_chunk")
            t = vname(alt[1])
            inner = core.strip(arm["body"])
            if inner.get("k") != "Match":
                raise core.AnchorMissing(f"decode_prop_chunk arm {t} is not an inner match on the canonical type")
            d = arms.setdefault(t, {})
            for ia in inner["arms"]:
                for ialt in tables.pat_alts(ia["pat"]):
                    if ialt[0] == "v":
                        d[vname(ialt[1])] = ia
                    else:
                        d["_"] = ia
    return fn, arms


def binary_encoder_arms(prog):
    """{Type variant name: arm node} from serialize_properties' match on prop_info.prop_type."""
    fn = find_fn(prog, r"serializer::state::SerializerState.*::serialize_properties$")
    for n in core.walk_fn(fn):
        if n.get("k") == "Match" and n.get("src") == "Normal" and n["e"].get("ty") == TYPE_ENUM:
            s = core.strip(n["e"])
            if s.get("k") == "Field" and s.get("f") == "prop_type":
                arms = {}
                for arm in n["arms"]:
                    for alt in tables.pat_alts(arm["pat"]):
                        if alt[0] == "v":
                            arms[vname(alt[1])] = arm
                        else:
                            arms["_"] = arm
                return fn, n, arms
    raise core.AnchorMissing("match on prop_info.prop_type not found in serialize_properties")


def const_value(prog, path, depth=3):
    """Literal value of a const/static item (bytes tuple, str, int), following simple references."""
    fn = prog.fns.get(path)
    if fn is None or fn.body is None or depth <= 0:
        return None
    return literal_of(prog, fn.body, depth - 1)


def literal_of(prog, n, depth=3):
    n = core.strip(n)
    k = n.get("k")
    if k == "Lit":
        v = n["lit"].get("v")
        if n["lit"]["lk"] == "bytes":
            return tuple(v)
        return v
    if k == "Array":
        vals = [literal_of(prog, a, depth) for a in n["args"]]
        if all(isinstance(v, int) for v in vals):
            return tuple(vals)
        return None
    if k == "Repeat":
        v = literal_of(prog, n["e"], depth)
        m = re.search(r";\s*(\d+)\]", n.get("ty", ""))
        if isinstance(v, int) and m:
            return tuple([v] * int(m.group(1)))
        return None
    if k == "Path" and n.get("res", "").startswith(("Const", "Static", "AssocConst")):
        return const_value(prog, n.get("inst") or n.get("def"), depth)
    if k == "Cast":
        return literal_of(prog, n["e"], depth)
    if k == "Unary" and n.get("op") == "-":
        v = literal_of(prog, n["e"], depth)
        return -v if isinstance(v, int) else None
    return None


LETS = {}   # lid -> init expression of the immutable single-binding lets of the function being described


def use_lets(fn):
    """Install the let environment of `fn`: `let x = e;` with an immutable plain binding makes later uses of
    x mean e (so hoisting an argument into a local does not change its description)."""
    global LETS
    LETS = {}
    if fn is None or fn.body is None:
        return
    for st in core.walk_lets(fn.body):
        p = st.get("pat") or {}
        if p.get("k") == "Binding" and "Mut" not in p.get("mode", "").split(",")[-1] and st.get("init") is not None and not st.get("els"):
            LETS[p["lid"]] = st["init"]


def _unlet(n, depth=0):
    n0 = core.strip(n)
    while n0.get("k") == "Path" and n0.get("res") == "local" and n0.get("lid") in LETS and depth < 8:
        n0 = core.strip(LETS[n0["lid"]])
        depth += 1
    return n0


def argdesc(prog, n):
    """Semantic role of an argument expression: ('const', value) | ('len', 'root.path') | ('place', 'root.path') | ('expr', fingerprint)"""
    n = _unlet(n)
    v = literal_of(prog, n)
    if v is not None:
        return ("const", v)
    n0 = core.strip(n)
    if n0.get("k") == "Cast":
        n0 = core.strip(n0["e"])
    if n0.get("k") == "MethodCall" and n0["m"] == "len" and not n0["args"]:
        root, path = core.place_root(n0["recv"])
        return ("len", ".".join([str(root)] + [p for p in path if not p.startswith(".")]))
    root, path = core.place_root(n0)
    if root is not None and all(not p.startswith(".") or p in (".as_ref()", ".as_slice()", ".as_str()", ".as_bytes()", ".borrow()") for p in path):
        return ("place", ".".join([str(root)] + [p for p in path if not p.startswith(".")]))
    return ("expr", core.fingerprint(n0, 5))


def param_lid_by_type(fn, pred):
    """lid of the single parameter whose type satisfies pred(type string)"""
    hits = [prm["lid"] for prm in fn.params if pred((prm.get("ty") or ""))]
    return hits[0] if len(hits) == 1 else None


def derives_from(fn, e, lid, depth=0):
    """the expression mentions the local `lid` directly or through immutable lets"""
    lets = {st["pat"].get("lid"): st["init"] for st in core.walk_lets(fn.body) if "init" in st and st["pat"].get("k") == "Binding"}
    seen = set()
    stack = [e]
    while stack and depth < 200:
        depth += 1
        x = stack.pop()
        for y in core.walk(x):
            if y.get("k") == "Path" and y.get("res") == "local":
                if y["lid"] == lid:
                    return True
                if y["lid"] in lets and y["lid"] not in seen:
                    seen.add(y["lid"])
                    stack.append(lets[y["lid"]])
    return False


def local_from_call(fn, e, callee_suffix):
    """the expression is (a let-bound local holding) the result of a call whose callee ends with callee_suffix"""
    lets = {st["pat"].get("lid"): st["init"] for st in core.walk_lets(fn.body) if "init" in st and st["pat"].get("k") == "Binding"}
    e0 = core.strip(e)
    for _ in range(4):
        if any(x.get("k") in ("Call", "MethodCall") and (core.callee_generic(x) or "").endswith(callee_suffix) for x in core.walk(e0)):
            return True
        if e0.get("k") == "Path" and e0.get("res") == "local" and e0["lid"] in lets:
            e0 = core.strip(lets[e0["lid"]])
            continue
        for y in core.walk(e0):
            if y.get("k") == "Path" and y.get("res") == "local" and y["lid"] in lets and any(x.get("k") in ("Call", "MethodCall") and (core.callee_generic(x) or "").endswith(callee_suffix) for x in core.walk(lets[y["lid"]])):
                return True
        break
    return False


def rule_builders(c, prog, R, crates):
    """option builders (`fn opt(self, v) -> Self`) keep every other option"""
    import re as _re
    from sa import sym, wire
    c.rule(R, "every public by-value builder method `fn x(self, ..) -> Self` of the codec option types returns a value whose fields are each either the corresponding field of `self` or computed from the method's own arguments (evaluated symbolically; `Self { f, ..self }`, `self.f = v; self` and helper forms alike): choosing one option must not reset another to its default")

    def nolt(t):
        return _re.sub(r"<'[\w_]+>|'[\w_]+ ", "", t or "")
    n = 0
    for f in prog.lib_fns():
        if f.body is None or f.crate not in crates or not (f.d.get("vis") or "").startswith("Public") or not f.params:
            continue
        p0 = f.params[0]
        sig = f.d.get("sig") or ""
        ret = sig.rsplit(" -> ", 1)[-1] if " -> " in sig else ""
        pty = p0.get("ty") or ""
        if not (p0.get("k") == "Binding" and p0.get("name") == "self" and not pty.startswith("&") and nolt(ret) == nolt(pty)):
            continue
        adt = prog.adts.get(nolt(pty).split("<")[0])
        if adt is None or adt.get("kind") != "Struct" or len(adt["variants"][0]["fields"]) < 2:
            continue
        n += 1
        inst = f"builder:{core.short(f.path)}"
        fields = [x["name"] for x in adt["variants"][0]["fields"]]
        self_t = ("st", adt["path"], tuple((x, ("fld", ("in", "self"), x)) for x in fields))
        env = {p0["lid"]: self_t}
        for prm in f.params[1:]:
            for b in core.walk(prm):
                if b.get("k") == "Binding":
                    env[b["lid"]] = ("in", "arg:" + b["name"])
        try:
            _, val, _ = wire.run_region(prog, f.body, env, [], depth=4)
        except sym.Unsupported as e:
            c.not_decided.append(f"{f.path}: builder body outside the symbolic model ({e})")
            continue
        if not (isinstance(val, tuple) and val and val[0] == "st"):
            c.not_decided.append(f"{f.path}: result is not a struct value")
            continue

        def mentions_arg(t):
            if isinstance(t, tuple):
                if t and t[0] == "in" and str(t[1]).startswith("arg:"):
                    return True
                return any(mentions_arg(x) for x in t)
            return False
        lost = [fn_ for fn_, v in val[2] if v != ("fld", ("in", "self"), fn_) and not mentions_arg(v)]
        if lost:
            c.violation(R, f"resets|{core.short(f.path)}|{','.join(lost)}", f"{f.path} returns a value whose `{', '.join(lost)}` is neither self's nor built from the method's arguments: an option chosen earlier on the same builder is silently reset (e.g. a reflection database or property behaviour set before this call)", f.sp, instance=inst)
        else:
            c.ok(R, inst)
    c.floor(R, n, 1, "builder methods")


def rule_configured_db(c, prog, R, crates):
    """the bundled database is consulted only to fill the default of an options value"""
    c.rule(R, "who may call `rbx_reflection_database::get()` in the codecs: only a constructor of an options value (a function without receiver whose result is the options type and whose `database` field the call fills); everything else reads the database the caller configured, so a custom database is honoured for class data, defaults and descriptors alike")
    n = 0
    for f in prog.lib_fns():
        if f.body is None or f.crate not in crates:
            continue
        for x in core.walk_fn(f):
            if x.get("k") in ("Call", "MethodCall") and (core.callee(x) or "").startswith("rbx_reflection_database::get"):
                n += 1
                inst = f"dbget:{core.short(f.path)}"
                sig = f.d.get("sig") or ""
                ret = sig.rsplit(" -> ", 1)[-1] if " -> " in sig else ""
                ctor = sig.startswith("fn()") and any(k in ret for k in ("Serializer<", "Deserializer<", "EncodeOptions<", "DecodeOptions<"))
                if ctor:
                    c.ok(R, inst)
                else:
                    c.violation(R, f"bundled-db|{core.short(f.path)}", f"{f.path} reads the bundled reflection database directly: with a database configured through `reflection_database(..)` this part of the codec still uses the bundled one (class tags, defaults or descriptors then come from two different databases)", core.loc(x), instance=inst)
    c.floor(R, n, 1, "calls of rbx_reflection_database::get in the codecs")


def _spk(n):
    parts = (n.get("sp") or "").split(":")
    try:
        return (int(parts[1]), int(parts[2]))
    except (IndexError, ValueError):
        return (0, 0)


def rule_scratch(c, prog, R, fns, what="value"):
    """a growable buffer (Vec<u8> / String) declared outside a loop, appended to and read inside it, starts every
    iteration empty: cleared before the first append of the iteration, or cleared after the last one on every way round"""
    c.rule(R, f"a growable buffer that is declared outside a per-{what} loop, appended to inside it (`x.to_writer(&mut buf)`, push / extend / encode_config_buf(.., &mut buf)) and read there starts every iteration empty — cleared before the iteration's first append, or after its last one with no `continue` that skips the clearing; otherwise what is written for a later {what} still contains the earlier ones' bytes")
    BUF = ("alloc::vec::Vec<u8>", "alloc::string::String")
    GROW = ("push", "push_str", "extend", "extend_from_slice", "append", "write_all", "resize", "insert", "insert_str", "write_str", "write_fmt")
    n = 0
    for fn in fns:
        if fn.body is None:
            continue
        for lp_node in core.walk_fn(fn, into_closures=False):
            fl = core.as_for(lp_node)
            if lp_node.get("k") == "DropTemps":
                continue
            if fl is not None:
                body = fl[2]
            elif lp_node.get("k") == "Loop" and lp_node.get("src") != "ForLoop":
                body = lp_node
            else:
                continue
            declared = set()
            for st in core.walk_lets(body):
                for b in core.walk(st["pat"]):
                    if b.get("k") == "Binding":
                        declared.add(b["lid"])
            fills, reads, clears = {}, {}, {}
            for x in core.walk(body, into_closures=False):
                if x.get("k") in ("MethodCall", "Call"):
                    args = core.call_args(x)
                    nm = (core.callee_generic(x) or "").rsplit("::", 1)[-1]
                    for i, a in enumerate(args):
                        is_mut = a.get("k") == "AddrOf" and a.get("mut")
                        base = core.strip(a)
                        while base.get("k") in ("AddrOf", "Unary"):
                            base = core.strip(base["e"])
                        ty = (base.get("ty") or "")
                        if not (base.get("k") == "Path" and base.get("res") == "local" and base["lid"] not in declared and ty.lstrip("&").replace("mut ", "").strip() in BUF):
                            continue
                        lid = base["lid"]
                        if i == 0 and x.get("k") == "MethodCall" and nm in ("clear",) or (i == 0 and nm == "truncate"):
                            clears.setdefault(lid, []).append(x)
                        elif is_mut or (i == 0 and x.get("k") == "MethodCall" and nm in GROW):
                            fills.setdefault(lid, []).append((base.get("name"), x))
                        else:
                            reads.setdefault(lid, []).append(x)
                if x.get("k") == "Assign" and core.strip(x["l"]).get("res") == "local":
                    clears.setdefault(core.strip(x["l"])["lid"], []).append(x)
            for lid in set(fills) & set(reads):
                n += 1
                name = fills[lid][0][0]
                inst = f"scratch:{core.short(fn.path).rsplit('::', 1)[-1]}:{name}"
                first_fill = min(_spk(x) for _, x in fills[lid])
                last_fill = max(_spk(x) for _, x in fills[lid])
                cl = sorted(_spk(x) for x in clears.get(lid, []))
                has_continue = any(y.get("k") == "Continue" for y in core.walk(body, into_closures=False))
                if cl and (cl[0] < first_fill or (cl[-1] > last_fill and not has_continue)):
                    c.ok(R, inst)
                else:
                    how = "never cleared in it" if not cl else "cleared only between two uses inside one iteration"
                    c.violation(R, f"carried|{core.short(fn.path).rsplit('::', 1)[-1]}|{name}", f"{fn.path} appends to `{name}` and reads it once per {what} inside a loop, but the buffer is declared outside that loop and {how}: what is written for the k-th {what} starts with the bytes of the ones before it", core.loc(fills[lid][0][1]), instance=inst)
    if n == 0:
        c.ok(R, "no-carried-scratch-buffers")


def rule_base64_whole(c, prog, R, crates=("rbx_xml",)):
    """binary data is base64-encoded as one piece"""
    c.rule(R, "every `base64::encode*` of the XML writers encodes a whole value: it is not applied to the pieces of a buffer (a loop or iterator over `chunks` / `windows` / `split_at` of the data) — each piece would end in its own `=` padding unless its length is a multiple of 3, and the concatenation is not the base64 of the value")
    PIECES = {"chunks", "chunks_exact", "rchunks", "windows", "split_at", "split", "splitn"}
    n = 0
    for f in prog.lib_fns():
        if f.body is None or f.crate not in crates:
            continue
        encs = [x for x in core.walk_fn(f) if x.get("k") == "Call" and (core.callee(x) or "").startswith("base64::encode")]
        if not encs:
            continue
        n += len(encs)
        bad = None
        for lp in core.walk_fn(f):
            if lp.get("k") == "DropTemps":
                continue
            fl = core.as_for(lp)
            if fl is not None and any(y.get("k") == "MethodCall" and y["m"] in PIECES and "[u8]" in ((core.strip(y["recv"]).get("ty") or "") + (y["recv"].get("aty") or "")).replace("alloc::vec::Vec<u8>", "[u8]") for y in core.walk(fl[1])):
                if any(any(z is e for z in core.walk(fl[2])) for e in encs):
                    bad = lp
            if lp.get("k") == "MethodCall" and lp["m"] in ("map", "for_each", "flat_map") and any(y.get("k") == "MethodCall" and y["m"] in PIECES for y in core.walk(lp["recv"])):
                if any(any(z is e for z in core.walk(a)) for a in lp["args"] for e in encs):
                    bad = lp
        inst = f"base64-encode:{core.short(f.path)}"
        if bad is not None:
            c.violation(R, f"piecewise-encode|{core.short(f.path)}", f"{f.path} base64-encodes a value piece by piece: every piece whose length is not a multiple of 3 ends in `=` padding, so the text written is not the base64 of the value (rbx_xml's own reader rejects it at the first `=`; other readers decode garbage)", core.loc(bad), instance=inst)
        else:
            c.ok(R, inst)
    c.floor(R, n, 1, "base64::encode sites in the XML writers")


# --- writer totality --------------------------------------------------------------------------------------------------
# explicit panic macros reachable from an encoder entry point.  (function, macro) -> the invariant that keeps the site
# dead; the reason must be a fact another rule decides, named here.
XML_ROOTS = r"^rbx_xml::serializer::encode_internal$|^rbx_xml::to_writer$|^rbx_xml::to_writer_default$"
BIN_ROOTS = r"^rbx_binary::serializer::Serializer::<'db>::serialize$|^rbx_binary::to_writer$"
WRITER_CRATES = ("rbx_xml", "rbx_binary", "rbx_types", "rbx_dom_weak", "rbx_reflection")
WRITER_PANIC_DISCHARGED = {
    ("rbx_binary::serializer::state::SerializerState::<'dom, 'db, W>::serialize_properties", "panic"): "the SharedString was registered in shared_string_ids when the value was collected (C01.sstr / C03.frame decide that every collected SharedString is registered before the PROP chunks are written)",
}


def _wild_arm_dead(prog, fn, node):
    """the innermost `_`/binding arm holding `node` is dead iff the sibling arms (without guards) name every variant of
    the matched enum"""
    best = None
    for m in core.walk_fn(fn):
        if m.get("k") != "Match" or m.get("src") != "Normal":
            continue
        for arm in m["arms"]:
            if arm["pat"].get("k") not in ("Wild", "Binding") or arm["pat"].get("sub"):
                continue
            if any(x is node for x in core.walk(arm["body"])):
                best = (m, arm)      # walk order is outer-to-inner: keep the innermost
    if best is None:
        return None
    m, arm = best
    ty = (m["e"].get("aty") or m["e"].get("ty", "")).lstrip("&").replace("mut ", "").strip()
    adt = prog.adts.get(ty.split("<")[0])
    if adt is None or not adt.get("variants"):
        return None
    named = set()
    for a in m["arms"]:
        if a is arm or a.get("guard"):
            continue
        for alt in tables.pat_alts(a["pat"]):
            if alt[0] in ("v", "ctor", "struct") and alt[1]:
                named.add(vname(alt[1]))
    missing = sorted({v["name"] for v in adt["variants"]} - named)
    return ty.split("<")[0], missing


def _accepted_variant_types(prog, fn, node):
    """for a wildcard arm over `Variant` preceded by a table lookup on the value's type whose miss leaves the function
    (`table(v.ty()).ok_or(..)?`, `match table(ty) { Some(x) => x, None => return Err(..) }`, `let Some(x) = .. else
    { return .. }`): the VariantTypes for which the table function returns Some — the only values that reach the match"""
    ty_lids = set()
    for st in core.walk_lets(fn.body):
        init = core.strip(st.get("init") or {})
        if st["pat"].get("k") == "Binding" and init.get("k") == "MethodCall" and init["m"] == "ty" and not init["args"]:
            ty_lids.add(st["pat"]["lid"])

    def is_ty(a):
        a = core.strip(a)
        return (a.get("k") == "MethodCall" and a["m"] == "ty" and not a["args"]) or (a.get("k") == "Path" and a.get("lid") in ty_lids)

    def diverges(e):
        e = core.strip(e)
        while e.get("k") == "Block" and not e["b"]["stmts"] and "expr" in e["b"]:
            e = core.strip(e["b"]["expr"])
        return e.get("k") in ("Ret", "Continue", "Break") or e.get("ty") == "!"
    for st in core.walk_lets(fn.body):
        init = st.get("init")
        if init is None:
            continue
        calls = [x for x in core.walk(init, into_closures=False) if x.get("k") == "Call" and x["args"] and is_ty(x["args"][0])]
        if not calls:
            continue
        x = calls[0]
        guarded = any(core.as_try(y) is not None for y in core.walk(init, into_closures=False))
        top = core.strip(init)
        if not guarded and top.get("k") == "Match" and any(z is x for z in core.walk(top["e"])):
            guarded = any((core.pat_str(a["pat"]).endswith("None") or a["pat"].get("k") == "Wild") and diverges(a["body"]) for a in top["arms"])
        if not guarded and (st.get("els") is not None or st.get("else") is not None):
            guarded = True
        if not guarded:
            continue
        tf = prog.fns.get(core.callee(x) or "")
        if tf is None or tf.body is None:
            continue
        acc = set()
        for m in core.walk_fn(tf):
            if m.get("k") == "Match" and m.get("src") == "Normal":
                for a in m["arms"]:
                    b = core.strip(a["body"])
                    if b.get("k") == "Call" and (core.callee(b) or "").endswith("Option::Some"):
                        for alt in tables.pat_alts(a["pat"]):
                            if alt[0] in ("v", "ctor", "struct") and alt[1]:
                                acc.add(vname(alt[1]))
        if not acc:
            # the table as data: a const slice of (VariantType, id) rows searched with find / position, plus explicit
            # `if ty == VariantType::X { return Some(..) }` cases in front of the search
            VT = "rbx_types::variant::VariantType::"
            for m in core.walk_fn(tf):
                if m.get("k") == "Path" and str(m.get("res", "")).startswith(("Const", "Static")):
                    cf = prog.fns.get(m.get("def") or "")
                    if cf is not None and cf.body is not None:
                        for y in core.walk(cf.body):
                            if y.get("k") == "Path" and (y.get("def") or "").startswith(VT):
                                acc.add(vname(y["def"]))
                if m.get("k") == "If":
                    cnd = core.strip(m["c"])
                    if cnd.get("k") == "Binary" and cnd.get("op") == "==" and any(z.get("k") == "Ret" and "Some" in core.fingerprint(z.get("e", {}), 3) for z in core.walk(m["t"])):
                        for side in (cnd["l"], cnd["r"]):
                            sd = core.strip(side)
                            if sd.get("k") == "Path" and (sd.get("def") or "").startswith(VT):
                                acc.add(vname(sd["def"]))
        if acc:
            return core.callee(x), acc
    return None


def rule_writer_total(c, prog, R, fmt):
    """the writer is a total function on the values the property quantifies over: no value makes it panic"""
    from sa import flow
    roots_rx, label, crates = (XML_ROOTS, "XML", WRITER_CRATES) if fmt == "xml" else (BIN_ROOTS, "binary", WRITER_CRATES)
    c.rule(R, f"every `todo!` / `unimplemented!` / `unreachable!` / `panic!` in code reachable from the {label} encoder entry points is enumerated; it must sit in a wildcard arm that is dead because the sibling arms name every variant of the matched enum (computed from the enum's definition), or behind a table lookup that rejects every value the match has no arm for (computed), or be listed with the invariant another rule decides — otherwise some value of a supported type makes the writer abort instead of writing it or returning an error")
    g = flow.CallGraph(prog)
    roots = [f.path for f in prog.find_fns(roots_rx)]
    if not roots:
        raise core.AnchorMissing(f"no {label} encoder entry point matches {roots_rx}")
    reach = g.reach(roots)
    n = 0
    for path in sorted(reach):
        fn = prog.fns[path]
        if fn.dk == "Closure" or fn.crate not in crates or fn.body is None:
            continue
        for s in flow.panic_sites(fn):
            if not (s["kind"].startswith("macro:") and s["macro"] in ("todo", "unimplemented", "unreachable", "panic")):
                continue
            n += 1
            inst = f"{fn.path}|{s['macro']}"
            dead = _wild_arm_dead(prog, fn, s["node"])
            if dead is not None and not dead[1]:
                c.ok(R, inst)
                continue
            if dead is not None and dead[0].endswith("variant::Variant"):
                acc = _accepted_variant_types(prog, fn, s["node"])
                if acc is not None:
                    left = sorted(set(dead[1]) & acc[1])
                    if not left:
                        c.ok(R, inst)
                    else:
                        c.violation(R, f"{fn.path}|{s['macro']}|{','.join(left)}", f"{fn.path}: `{core.short(acc[0])}` accepts {left} but the match that writes the value has no arm for {'them' if len(left) > 1 else 'it'}: such a value reaches `{s['macro']}!`", core.loc(s["node"]), instance=inst)
                    continue
            why = WRITER_PANIC_DISCHARGED.get((fn.path, s["macro"]))
            if why:
                c.ok(R, inst)
                continue
            miss = f" (no arm for {', '.join(dead[1])} of {core.short(dead[0])})" if dead else ""
            pth = g.path_to(reach, fn.path)
            c.violation(R, f"{fn.path}|{s['macro']}" + (f"|{','.join(dead[1])}" if dead else ""), f"{fn.path}: `{s['macro']}!` is reachable from the {label} writer{miss}: a DOM holding such a value makes the writer panic instead of writing it or returning an EncodeError; reachable via {' -> '.join(core.short(p) for p in pth[-4:])}", core.loc(s["node"]), instance=inst)
    c.floor(R, n, 1, f"explicit panic macros reachable from the {label} encoder")


def walk_inline(prog, node, module_prefix, depth=2, _seen=None):
    """nodes of `node` and of the bodies of the functions of `module_prefix` it calls (transitively up to `depth`): what
    an arm does is what it does itself or through a private helper it delegates to"""
    _seen = _seen if _seen is not None else set()
    for x in core.walk(node):
        yield x
        if depth > 0 and x.get("k") in ("Call", "MethodCall"):
            h = prog.fns.get(core.callee(x) or "")
            if h is not None and h.body is not None and h.path.startswith(module_prefix) and h.path not in _seen:
                _seen.add(h.path)
                yield from walk_inline(prog, h.body, module_prefix, depth - 1, _seen)
