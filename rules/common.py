"""Shared anchors and helpers for the rule modules."""
import os
import re

from sa import core, tables

TYPE_ENUM = "rbx_binary::types::Type"
VARIANT_TYPE = "rbx_types::variant::VariantType"
VARIANT = "rbx_types::variant::Variant"
SER_STATE = "rbx_binary::serializer::state::SerializerState::<'dom, 'db, W>"
DE_STATE = "rbx_binary::deserializer::state::DeserializerState::<'db, R>"


def find_fn(prog, regex):
    fs = prog.find_fns(regex)
    fs = [f for f in fs if f.dk != "Closure"]
    if len(fs) != 1:
        raise core.AnchorMissing(f"expected exactly one function matching /{regex}/, found {[f.path for f in fs][:5]}")
    return fs[0]


def vname(path):
    return path.rsplit("::", 1)[-1] if path else None


def readme_support(column):
    """Parse README.md's support table: {type name: mark} for the given column header."""
    path = os.path.join(core.REPO, "README.md")
    rows = {}
    header = None
    with open(path, encoding="utf-8") as fh:
        for line in fh:
            if not line.startswith("|"):
                continue
            cells = [c.strip() for c in line.strip().strip("|").split("|")]
            if cells and cells[0] == "Property Type":
                header = cells
                continue
            if header and not set(cells[0]) <= set(":-"):
                if column in header and len(cells) >= len(header):
                    rows[cells[0]] = cells[header.index(column)]
    if not rows:
        raise core.AnchorMissing("README.md support table not found")
    return rows


def binary_decoder_arms(prog):
    """{Type variant name: {VariantType name or '_': arm node}} from decode_prop_chunk's two-level match."""
    fn = find_fn(prog, r"deserializer::state::DeserializerState.*::decode_prop_chunk$")
    outer = tables.top_match(fn, "binary_type")
    arms = {}
    for arm in outer["arms"]:
        for alt in tables.pat_alts(arm["pat"]):
            if alt[0] != "v" or not alt[1].startswith(TYPE_ENUM + "::"):
                raise core.AnchorMissing(f"unexpected outer pattern {alt} in decode_prop_chunk")
            t = vname(alt[1])
            inner = core.strip(arm["body"])
            if inner.get("k") != "Match":
                raise core.AnchorMissing(f"decode_prop_chunk arm {t} is not an inner match on the canonical type")
            d = arms.setdefault(t, {})
            for ia in inner["arms"]:
                for ialt in tables.pat_alts(ia["pat"]):
                    if ialt[0] == "v":
                        d[vname(ialt[1])] = ia
                    else:
                        d["_"] = ia
    return fn, arms


def binary_encoder_arms(prog):
    """{Type variant name: arm node} from serialize_properties' match on prop_info.prop_type."""
    fn = find_fn(prog, r"serializer::state::SerializerState.*::serialize_properties$")
    for n in core.walk_fn(fn):
        if n.get("k") == "Match" and n.get("src") == "Normal" and n["e"].get("ty") == TYPE_ENUM:
            s = core.strip(n["e"])
            if s.get("k") == "Field" and s.get("f") == "prop_type":
                arms = {}
                for arm in n["arms"]:
                    for alt in tables.pat_alts(arm["pat"]):
                        if alt[0] == "v":
                            arms[vname(alt[1])] = arm
                        else:
                            arms["_"] = arm
                return fn, n, arms
    raise core.AnchorMissing("match on prop_info.prop_type not found in serialize_properties")


def const_value(prog, path, depth=3):
    """Literal value of a const/static item (bytes tuple, str, int), following simple references."""
    fn = prog.fns.get(path)
    if fn is None or fn.body is None or depth <= 0:
        return None
    return literal_of(prog, fn.body, depth - 1)


def literal_of(prog, n, depth=3):
    n = core.strip(n)
    k = n.get("k")
    if k == "Lit":
        v = n["lit"].get("v")
        if n["lit"]["lk"] == "bytes":
            return tuple(v)
        return v
    if k == "Array":
        vals = [literal_of(prog, a, depth) for a in n["args"]]
        if all(isinstance(v, int) for v in vals):
            return tuple(vals)
        return None
    if k == "Repeat":
        v = literal_of(prog, n["e"], depth)
        m = re.search(r";\s*(\d+)\]", n.get("ty", ""))
        if isinstance(v, int) and m:
            return tuple([v] * int(m.group(1)))
        return None
    if k == "Path" and n.get("res", "").startswith(("Const", "Static", "AssocConst")):
        return const_value(prog, n.get("inst") or n.get("def"), depth)
    if k == "Cast":
        return literal_of(prog, n["e"], depth)
    if k == "Unary" and n.get("op") == "-":
        v = literal_of(prog, n["e"], depth)
        return -v if isinstance(v, int) else None
    return None


LETS = {}   # lid -> init expression of the immutable single-binding lets of the function being described


def use_lets(fn):
    """Install the let environment of `fn`: `let x = e;` with an immutable plain binding makes later uses of
    x mean e (so hoisting an argument into a local does not change its description)."""
    global LETS
    LETS = {}
    if fn is None or fn.body is None:
        return
    for st in core.walk_lets(fn.body):
        p = st.get("pat") or {}
        if p.get("k") == "Binding" and "Mut" not in p.get("mode", "").split(",")[-1] and st.get("init") is not None and not st.get("els"):
            LETS[p["lid"]] = st["init"]


def _unlet(n, depth=0):
    n0 = core.strip(n)
    while n0.get("k") == "Path" and n0.get("res") == "local" and n0.get("lid") in LETS and depth < 8:
        n0 = core.strip(LETS[n0["lid"]])
        depth += 1
    return n0


def argdesc(prog, n):
    """Semantic role of an argument expression: ('const', value) | ('len', 'root.path') | ('place', 'root.path') | ('expr', fingerprint)"""
    n = _unlet(n)
    v = literal_of(prog, n)
    if v is not None:
        return ("const", v)
    n0 = core.strip(n)
    if n0.get("k") == "Cast":
        n0 = core.strip(n0["e"])
    if n0.get("k") == "MethodCall" and n0["m"] == "len" and not n0["args"]:
        root, path = core.place_root(n0["recv"])
        return ("len", ".".join([str(root)] + [p for p in path if not p.startswith(".")]))
    root, path = core.place_root(n0)
    if root is not None and all(not p.startswith(".") or p in (".as_ref()", ".as_slice()", ".as_str()", ".as_bytes()", ".borrow()") for p in path):
        return ("place", ".".join([str(root)] + [p for p in path if not p.startswith(".")]))
    return ("expr", core.fingerprint(n0, 5))


def param_lid_by_type(fn, pred):
    """lid of the single parameter whose type satisfies pred(type string)"""
    hits = [prm["lid"] for prm in fn.params if pred((prm.get("ty") or ""))]
    return hits[0] if len(hits) == 1 else None


def derives_from(fn, e, lid, depth=0):
    """the expression mentions the local `lid` directly or through immutable lets"""
    lets = {st["pat"].get("lid"): st["init"] for st in core.walk_lets(fn.body) if "init" in st and st["pat"].get("k") == "Binding"}
    seen = set()
    stack = [e]
    while stack and depth < 200:
        depth += 1
        x = stack.pop()
        for y in core.walk(x):
            if y.get("k") == "Path" and y.get("res") == "local":
                if y["lid"] == lid:
                    return True
                if y["lid"] in lets and y["lid"] not in seen:
                    seen.add(y["lid"])
                    stack.append(lets[y["lid"]])
    return False


def local_from_call(fn, e, callee_suffix):
    """the expression is (a let-bound local holding) the result of a call whose callee ends with callee_suffix"""
    lets = {st["pat"].get("lid"): st["init"] for st in core.walk_lets(fn.body) if "init" in st and st["pat"].get("k") == "Binding"}
    e0 = core.strip(e)
    for _ in range(4):
        if any(x.get("k") in ("Call", "MethodCall") and (core.callee_generic(x) or "").endswith(callee_suffix) for x in core.walk(e0)):
            return True
        if e0.get("k") == "Path" and e0.get("res") == "local" and e0["lid"] in lets:
            e0 = core.strip(lets[e0["lid"]])
            continue
        for y in core.walk(e0):
            if y.get("k") == "Path" and y.get("res") == "local" and y["lid"] in lets and any(x.get("k") in ("Call", "MethodCall") and (core.callee_generic(x) or "").endswith(callee_suffix) for x in core.walk(lets[y["lid"]])):
                return True
        break
    return False
