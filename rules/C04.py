"""C04 — the binary reader accepts any spec-conformant file.
C04.widen (required widening arms under the narrow wire type), C04.comp (compression detection = the document),
C04.disp (skip paths of PROP chunks; unknown chunks; object format), C04.ids (ids used as opaque keys)."""
import re

from sa import core, tables, ioseq, discipline as D
from . import common
from .C03_frame import doc_header_constants
from .common import vname

DS = r"deserializer::state::DeserializerState.*::"
NATURAL = {"Int32": "i32", "Int64": "i64", "Float32": "f32", "Float64": "f64"}


def reads_in(arm):
    out = []
    for n in core.walk(arm["body"]):
        if n.get("k") == "MethodCall" and (core.callee_generic(n) or "").startswith("rbx_binary::core::RbxReadExt::"):
            out.append(n["m"])
    return out


LOSSLESS_CALL = re.compile(r"core::convert::(From|Into)|^<[^>]*as core::convert::(From|Into)<|variant::Variant::\w+$|convert::num::<impl core::convert::From<")


def widening_impurities(body):
    """operations on the data flow from the value read to the value stored (the argument of add_property) that are not a
    lossless conversion: anything but From/Into, `as`, the Variant constructor and plain bindings"""
    lets = {}
    for st in core.walk_lets(body):
        if st.get("init") is not None and st["pat"].get("k") == "Binding":
            lets[st["pat"]["lid"]] = st["init"]
    stores = [x for x in core.walk(body) if x.get("k") in ("Call", "MethodCall") and (core.callee(x) or "").endswith("add_property")]
    bad = []

    def rec(e, depth=0):
        e = core.strip(e)
        k = e.get("k")
        if depth > 12:
            return
        if k == "Path":
            if e.get("res") == "local" and e.get("lid") in lets:
                rec(lets[e["lid"]], depth + 1)
            return
        if k in ("Cast", "AddrOf", "Unary", "DropTemps", "Field"):
            rec(e["e"], depth + 1)
            return
        if k == "Call":
            cal = core.callee(e) or ""
            if LOSSLESS_CALL.search(cal):
                for a in e["args"]:
                    rec(a, depth + 1)
                return
            bad.append(core.short(cal) or "call")
            return
        if k == "MethodCall":
            cal = core.callee(e) or ""
            if LOSSLESS_CALL.search(cal) or e["m"] in ("into", "clone"):
                rec(e["recv"], depth + 1)
                return
            bad.append(e["m"])
            for a in [e["recv"]] + e["args"]:
                rec(a, depth + 1)
            return
        if k == "Block" and "expr" in e["b"]:
            rec(e["b"]["expr"], depth + 1)
            return
        if k == "If":
            # which branch is taken is not part of the value's data flow; each branch must be lossless
            rec(e["t"], depth + 1)
            if "f" in e:
                rec(e["f"], depth + 1)
            return
        if k == "Match" and e.get("src") == "Normal":
            for arm in e["arms"]:
                rec(arm["body"], depth + 1)
            return
        if k == "Lit":
            return
        bad.append(k)
    for st in stores:
        args = core.call_args(st)
        vals = [a for a in args if "Variant" in (a.get("ty") or "") or a is args[-1]]
        for a in vals[-1:]:
            rec(a)
    return sorted(set(bad))


def rule_widen(c, prog):
    R = "C04.widen"
    c.rule(R, "a narrower numeric encoding stored for a wider declared property loads exactly: arms (Int32, Int64) and (Float32, Float64) exist under the NARROW wire type, read that type's array grammar and convert with a lossless From; every arm under wire type T reads T's grammar")
    fn, darms = common.binary_decoder_arms(prog)
    natural_read = {"Int32": "read_interleaved_i32_array", "Int64": "read_interleaved_i64_array", "Float32": "read_interleaved_f32_array", "Float64": "read_le_f64"}
    for wire, declared, conv in (("Int32", "Int64", "i64"), ("Float32", "Float64", "f64")):
        inst = f"widen:{wire}->{declared}"
        arm = darms.get(wire, {}).get(declared)
        if arm is None:
            misplaced = darms.get(declared, {}).get(wire)
            extra = f" (an arm ({declared}, {wire}) exists instead: it sits under the wide wire type and reads {reads_in(misplaced)} there, so a {wire} chunk for a {declared} property is rejected with PropTypeMismatch and a real {declared} chunk for a {wire}-declared property would be misread)" if misplaced else ""
            c.violation(R, f"missing|{wire}|{declared}", f"decode_prop_chunk has no arm (Type::{wire}, VariantType::{declared}): a property the database declares {declared} but that an older/other writer stored as {wire} does not load{extra}", fn.sp, instance=inst)
            continue
        rd = reads_in(arm)
        okr = rd == [natural_read[wire]]
        okc = any(x.get("k") == "Call" and re.search(rf"<impl core::convert::From<{NATURAL[wire]}> for {conv}>::from$", core.callee(x) or "") for x in core.walk(arm["body"])) or \
            any(x.get("k") == "Path" and re.search(rf"<{conv} as core::convert::From<{NATURAL[wire]}>>::from$|<impl core::convert::From<{NATURAL[wire]}> for {conv}>::from$", (x.get("inst") or x.get("defargs") or "")) for x in core.walk(arm["body"])) or \
            any(x.get("k") == "Cast" and x.get("ty") == conv and (core.strip(x["e"]).get("ty") == NATURAL[wire]) for x in core.walk(arm["body"]))
        impure = widening_impurities(arm["body"]) if okc else []
        if okr and okc and impure:
            c.violation(R, f"inexact|{wire}|{declared}", f"arm (Type::{wire}, VariantType::{declared}): the value stored is not just the lossless conversion of what was read — it passes through {impure[:3]}; every {NATURAL[wire]} is exactly representable as {conv}, and anything else (a decimal text, arithmetic, a fallback) changes non-dyadic values", core.loc(arm["body"]), instance=inst)
        elif okr and okc:
            c.ok(R, inst)
        else:
            c.violation(R, f"shape|{wire}|{declared}", f"arm (Type::{wire}, VariantType::{declared}) reads {rd} and {'converts losslessly' if okc else 'does not convert with From/as'}; expected [{natural_read[wire]}] then {conv}::from", core.loc(arm["body"]), instance=inst)
    # every arm under a numeric wire type reads that type's grammar
    for wire, arms in sorted(darms.items()):
        if wire not in natural_read:
            continue
        for decl, arm in sorted(arms.items()):
            if decl == "_":
                continue
            rd = reads_in(arm)
            inst = f"grammar:{wire}/{decl}"
            if rd == [natural_read[wire]]:
                c.ok(R, inst)
            else:
                c.violation(R, f"grammar|{wire}|{decl}", f"arm (Type::{wire}, VariantType::{decl}) reads {rd}; a chunk of wire type {wire} is laid out as {natural_read[wire]} (docs/binary.md), so this arm misreads it", core.loc(arm["body"]), instance=inst)


def _untyped(t):
    while isinstance(t, tuple) and t and t[0] == "cast":
        t = t[2]
    return t


def _untry(t):
    while isinstance(t, tuple) and t and t[0] == "try":
        t = t[1]
    return t


def _const_bytes(t):
    if t[0] == "c" and isinstance(t[1], tuple):
        return tuple(t[1])
    if t[0] == "vec" and all(sg[0] == "one" and sg[1][0] == "c" for sg in t[1]):
        return tuple(sg[1][1] for sg in t[1])
    return None


def rule_comp(c, prog):
    R = "C04.comp"
    c.rule(R, "Chunk::decode (symbolic paths): header = name[4] · compressed_len · len · reserved (little-endian u32s); compressed_len == 0 => the payload is `len` raw bytes; otherwise `compressed_len` bytes that are Zstandard iff they start with the documented magic 28 b5 2f fd, else LZ4; both decompressors receive the uncompressed length")
    from sa import sym, wire
    K = doc_header_constants()
    fn = prog.fn("rbx_binary::chunk::Chunk::decode")
    magic = common.const_value(prog, "rbx_binary::chunk::ZSTD_MAGIC_NUMBER")
    if magic == K["zstd"]:
        c.ok(R, "magic=doc")
    else:
        c.violation(R, "magic|value", f"ZSTD_MAGIC_NUMBER is {magic}; docs/binary.md says {K['zstd']}", fn.sp, instance="magic=doc")
    env = {p["lid"]: ("in", p["name"]) for p in fn.params}
    try:
        I, val, ex = wire.run_region(prog, fn.body, env, wire.BYTE_PRIMS, depth=8)
        paths = [pp for pp in sym.event_paths(I.events) if pp[2] is None]
    except sym.Unsupported as e:
        c.violation(R, "decode|cannot-analyse", f"Chunk::decode is outside the symbolic model: {e}", fn.sp, instance="decode:paths")
        return
    if not paths:
        c.violation(R, "decode|no-success-path", "Chunk::decode has no successful path", fn.sp, instance="decode:paths")
        return

    def le_u32(rid):
        return ("app", "core::num::<impl u32>::from_le_bytes", (("rd", rid),))
    raw_ok = comp_ok = 0
    problems = []
    succ = []
    for conds, evs, _x, _v in paths:
        for cs2, v in sym.value_alternatives(sym.resolve(val, conds)):
            if sym.is_var(v, sym.OK) and sym.consistent(conds + cs2):
                succ.append((conds + cs2, evs, v))
    for conds, evs, v in succ:
        reads = [e for e in evs if e[0] == "R"]
        sizes = [_untyped(e[4]) for e in reads]
        if len(reads) < 5 or sizes[:4] != [("c", 4)] * 4:
            problems.append(("header", f"a successful path reads {[sym.term_str(x, 4) for x in sizes]}; the chunk header is four 4-byte fields followed by the payload"))
            continue
        r_name, r_clen, r_len, r_res, r_pay = [e[2] for e in reads[:5]]
        CL, L = le_u32(r_clen), le_u32(r_len)
        okv = sym.is_var(v, sym.OK) and v[2] and v[2][0][0] == "st"
        data = sym.fld(v[2][0], "data") if okv else None
        name = sym.fld(v[2][0], "name") if okv else None
        if name != ("rd", r_name):
            problems.append(("name", "the chunk name is not the first header field"))
        cs = set(conds)
        is_zero = ("op", "==", CL, ("c", 0))
        if is_zero in cs:
            if sizes[4] == L and data == ("rd", r_pay) and len(reads) == 5:
                raw_ok += 1
            else:
                problems.append(("raw", f"with compressed_len == 0 the payload read has size {sym.term_str(sizes[4], 5)} and the data is {sym.term_str(data, 5) if data else None}; required: `len` raw bytes, undecoded"))
        elif sym.negate(is_zero) in cs:
            want_sz = CL
            alts = dict()
            if data is not None and data[0] == "phi":
                for cnd, x in data[1]:
                    alts[cnd] = x
            sw = [cnd for cnd in alts if cnd[0] == "app" and cnd[1].endswith("::starts_with")]
            good = sizes[4] == want_sz and len(reads) == 5 and len(sw) == 1
            if good:
                t = sw[0]
                good = t[2][0] == ("rd", r_pay) and _const_bytes(t[2][1]) == tuple(K["zstd"])
                z = _untry(alts[t])
                other = [x for cnd, x in alts.items() if cnd != t]
                l4 = _untry(other[0]) if len(other) == 1 else None
                good = good and z[0] == "app" and z[1] == "zstd::bulk::decompress" and z[2][0] == ("rd", r_pay) and _untyped(z[2][1]) == L
                good = good and l4 is not None and l4[0] == "app" and l4[1] == "lz4::block::decompress" and l4[2][0] == ("rd", r_pay) \
                    and sym.is_var(l4[2][1], sym.SOME) and _untyped(l4[2][1][2][0]) == L
            if good:
                comp_ok += 1
            else:
                problems.append(("compressed", f"with compressed_len != 0 the payload read has size {sym.term_str(sizes[4], 5)} and the data is {sym.term_str(data, 7) if data else None}; required: `compressed_len` bytes, zstd(payload, len) iff payload starts with {K['zstd']}, else lz4(payload, Some(len))"))
        else:
            problems.append(("dispatch", "a successful path does not branch on `compressed_len == 0`"))
    for kind, msg in sorted(set(problems)):
        c.violation(R, f"decode|{kind}", f"Chunk::decode: {msg}", fn.sp, instance=f"decode:{kind}")
    if raw_ok and not any(k in ("raw", "dispatch", "header") for k, _ in problems):
        c.ok(R, "raw-iff-zero")
        c.ok(R, "raw:no-decompress")
    if comp_ok and not any(k in ("compressed", "dispatch", "header") for k, _ in problems):
        c.ok(R, "zstd-iff-magic-else-lz4")
        c.ok(R, "decompress:uncompressed-length")
    if not raw_ok and not any(k == "raw" for k, _ in problems):
        c.violation(R, "raw|cond", "Chunk::decode has no successful path for compressed_len == 0", fn.sp, instance="raw-iff-zero")
    if not comp_ok and not any(k == "compressed" for k, _ in problems):
        c.violation(R, "detect|shape", "Chunk::decode has no successful path for compressed_len != 0", fn.sp, instance="zstd-iff-magic-else-lz4")


from .C13 import sp_key as C13_sp_key, is_try_ret as C13_is_try_ret


def rule_reforder(c, prog, R="C04.disp"):
    """references are resolved only when every instance chunk has been read"""
    fn = common.find_fn(prog, DS + "decode_prop_chunk$")
    INST = re.compile(r"HashMap<i32, rbx_binary::deserializer::state::Instance")
    own = set()     # locals bound by iterating the class's own referents
    for n in core.walk_fn(fn):
        if n.get("k") == "DropTemps":
            continue
        fl = core.as_for(n)
        if fl is None:
            continue
        its = [y for y in core.walk(fl[1]) if y.get("k") == "Field" and y.get("f") == "referents"]
        stack = [fl[0]]
        lids = []
        while stack:
            x = stack.pop()
            if isinstance(x, dict):
                if x.get("k") == "Binding":
                    lids.append(x["lid"])
                stack.extend(v for v in x.values() if isinstance(v, (dict, list)))
            elif isinstance(x, list):
                stack.extend(x)
        if its:
            # `for (value, referent) in values.zip(&type_info.referents)`: only the binding that comes from `.referents`
            pat = fl[0]
            if pat.get("k") == "Tuple" and len(pat.get("pats") or []) == 2:
                zipped = core.strip(fl[1])
                own_side = 1 if zipped.get("k") == "MethodCall" and zipped["m"] == "zip" and any(y.get("k") == "Field" and y.get("f") == "referents" for y in core.walk(zipped["args"][0])) else 0
                q = pat["pats"][own_side]
                own |= {b["lid"] for b in [q] if b.get("k") == "Binding"}
            else:
                own |= set(lids)
    eager = []
    for x in core.walk_fn(fn):
        if x.get("k") == "MethodCall" and x["m"] in ("get", "contains_key", "get_mut") and INST.search(((core.strip(x["recv"]).get("ty") or "") + (x["recv"].get("aty") or "")).replace("ahash::", "")) and x["args"]:
            key = core.strip(x["args"][0])
            while key.get("k") in ("AddrOf", "Unary"):
                key = core.strip(key["e"])
            # the instance a PROP value is stored ON is taken mutably (`get_mut`); a shared lookup under a key that is not
            # one of the class's own referents is the resolution of a reference target
            if x["m"] in ("get", "contains_key") and key.get("k") == "Path" and key.get("res") == "local" and key["lid"] not in own:
                eager.append(x)
    inst = "prop:reference-targets-resolved-late"
    if eager:
        c.violation(R, "ref-target|resolved-at-prop-time", f"decode_prop_chunk looks the TARGET of a reference up in the instance table while it decodes the PROP chunk ({len(eager)} site(s): Ref values, Content object values): a target whose INST chunk comes later in the file is not there yet, and the reference silently becomes null — the result depends on the order of instance and property chunks", core.loc(eager[0]), instance=inst)
    else:
        c.ok(R, inst)


def rule_bits(c, prog, R="C04.gram"):
    """bit-field types: bits the specification declares meaningless must not make the reader reject the file"""
    import os
    doc = open(os.path.join(core.REPO, "docs", "binary.md"), encoding="utf-8").read()
    fn, darms = common.binary_decoder_arms(prog)
    n = 0
    for ty in ("Faces", "Axes"):
        m = re.search(r"### " + ty + r"\b(.*?)(?=\n### )", doc, re.S)
        sect = m.group(1) if m else ""
        meaningless = re.search(r"remaining \w+ bits have no meaning", sect) is not None
        arm = darms.get(ty, {}).get(ty)
        if arm is None or not meaningless:
            continue
        n += 1
        inst = f"bits:{ty}"
        strict = [x for x in core.walk(arm["body"]) if x.get("k") == "Call" and (core.callee(x) or "").endswith(f"::{ty}::from_bits")]
        masked = any(y.get("k") == "Binary" and y["op"] == "&" for x in strict for y in core.walk(x)) or any(x.get("k") in ("Call", "MethodCall") and (core.callee(x) or "").endswith("from_bits_truncate") for x in core.walk(arm["body"]))
        errs = any(x.get("k") == "MethodCall" and x["m"] in ("ok_or", "ok_or_else") for x in core.walk(arm["body"]))
        if strict and errs and not masked:
            c.violation(R, f"strict-bits|{ty}", f"docs/binary.md says the unused high bits of a {ty} byte have no meaning, but the reader hands the raw byte to {ty}::from_bits and turns `None` into InvalidPropData: a conforming file with one of those bits set (e.g. 0xA1 for Faces, 0x45 for Axes) is rejected as a whole", core.loc(strict[0]), instance=inst)
        else:
            c.ok(R, inst)
    c.floor(R, n, 2, "bit-field types with bits the document calls meaningless")


def rule_lookup_skip(c, prog, R="C04.pre"):
    """the descriptor lookup of the binary reader (`find_canonical_property`) evaluated on every kind of descriptor the
    database holds: it may answer `no such property` for a canonical property marked DoesNotSerialize, and for nothing
    else that has a value type — a chunk named `size` / `Color3uint8` / `AttributesSerialize` resolves to a canonical
    property whose serialization is SerializesAs(..), a legacy name to one that Migrates"""
    from sa import sym, wire
    from . import C15_sites as S
    PSER = "rbx_reflection::database::PropertySerialization"
    PKIND = "rbx_reflection::database::PropertyKind"
    fn = common.find_fn(prog, r"deserializer::state::find_canonical_property$")
    D = ("in", "descriptors")
    prims = [(re.compile(r"core::find_property_descriptors$"), S.const_prim(sym.var(sym.SOME, D)))]
    env = {p["lid"]: ("in", p["name"]) for p in fn.params}
    try:
        I, val, ex = wire.run_region(prog, fn.body, env, prims, depth=3)
    except (sym.Unsupported, core.AnalysisError) as e:
        c.violation(R, "lookup|cannot-analyse", f"find_canonical_property is outside the symbolic model: {e}", fn.sp, instance="lookup:skips-only-non-serializing")
        return
    kind_t = sym.fld(sym.fld(D, "canonical"), "kind")
    dt_t = sym.fld(sym.fld(D, "canonical"), "data_type")
    rows = {}
    for kind, ser in (("Canonical", "Serializes"), ("Canonical", "DoesNotSerialize"), ("Canonical", "SerializesAs"), ("Canonical", "Migrate"), ("Alias", None)):
        def oracle(t, kind=kind, ser=ser):
            if t[0] == "is":
                x, v = t[1], t[2]
                if x == kind_t and v.startswith(PKIND + "::"):
                    return v == f"{PKIND}::{kind}"
                if x == dt_t:
                    return v.endswith("DataType::Value")
                if v.startswith(PSER + "::") and S.contains(x, kind_t):
                    return ser is not None and v == f"{PSER}::{ser}"
            return None
        try:
            evs, x = sym.taken_path(I.events, oracle)
            if x is not None and x[0] in ("return", "err"):
                out = x[1]
            else:
                out = val
            res = "None" if sym.is_var(out, sym.NONE) else ("Some" if sym.is_var(out, sym.SOME) else "?")
            while res == "?" and isinstance(out, tuple) and out and out[0] == "phi":
                for cnd, alt in out[1]:
                    if sym.eval_bool(cnd, oracle):
                        out = alt
                        break
                else:
                    break
                res = "None" if sym.is_var(out, sym.NONE) else ("Some" if sym.is_var(out, sym.SOME) else "?")
        except sym.Undetermined as e:
            res = f"undetermined ({e})"
        rows[f"{kind}{'/' + ser if ser else ''}"] = res
    c.sample({"rule": R, "find_canonical_property": rows})
    inst = "lookup:skips-only-non-serializing"
    want = {"Canonical/Serializes": "Some", "Canonical/DoesNotSerialize": "None", "Canonical/SerializesAs": "Some", "Canonical/Migrate": "Some", "Alias": "Some"}
    bad = {k: v for k, v in rows.items() if v != want[k] and not (k == "Canonical/DoesNotSerialize" and v == "Some")}
    if bad:
        k0 = sorted(bad)[0]
        c.violation(R, f"lookup|{k0}", f"find_canonical_property answers {bad[k0]} for a descriptor whose canonical property is {k0} (expected {want[k0]}): PROP chunks stored under the serialized name of such a property ({'size, Color3uint8, AttributesSerialize, archivable …' if 'SerializesAs' in k0 else 'the names this kind covers'}) are dropped on read, although the writer writes exactly those names", fn.sp, instance=inst)
    else:
        c.ok(R, inst)


def rule_prefilter(c, prog, R="C04.pre"):
    c.rule(R, "decode_prop_chunk leaves a PROP chunk unread only for the documented reasons (no type byte, unknown type byte, the descriptor lookup misses): no test over the wire type / declared type in front of the dispatch match returns Ok(()) — a pre-filter would drop pairs the dispatch has arms for (declared Color3 stored as Color3uint8, narrower numeric encodings)")
    rule_lookup_skip(c, prog, R)
    fn = common.find_fn(prog, DS + "decode_prop_chunk$")
    # the ways a PROP chunk is left unread are exactly: no type byte, unknown type byte, `Name` (handled apart), property
    # not found / not serializing (the descriptor lookup).  Any other `return Ok(())` in front of the dispatch `match` —
    # typically a pre-filter comparing the wire type with the declared type — drops chunks the dispatch has an arm for
    # (BasePart.Color is declared Color3 and stored as Color3uint8; Int32 for Int64; …)
    disp = None
    for n in core.walk_fn(fn, into_closures=False):
        if n.get("k") == "Match" and n.get("src") == "Normal" and (core.strip(n["e"]).get("ty") or "").endswith("rbx_binary::types::Type") and len(n["arms"]) >= 10:
            disp = n
            break
    if disp is None:
        raise core.AnchorMissing("decode_prop_chunk: dispatch match over the wire type not found")
    inside = {id(y) for y in core.walk(disp)}
    ty_locals = set()
    for st in core.walk_lets(fn.body):
        if st["pat"].get("k") == "Binding" and re.search(r"rbx_binary::types::Type$|variant_type::VariantType$|VariantType$", st["pat"].get("ty") or ""):
            ty_locals.add(st["pat"]["lid"])
    extra = []
    for n in core.walk_fn(fn, into_closures=False):
        if id(n) in inside or n.get("k") not in ("If", "Match") or n.get("src") in ("TryDesugar", "ForLoopDesugar"):
            continue
        if C13_sp_key(n) >= C13_sp_key(disp):
            continue
        cnd = n.get("c") or n.get("e") or {}
        # the descriptor lookup takes the wire type as an argument: its miss is the documented `property unknown` skip
        lookup_ids = set()
        for y in core.walk(cnd):
            if y.get("k") in ("Call", "MethodCall") and ((core.callee(y) or "").endswith("find_canonical_property") or "CanonicalProperty" in (y.get("ty") or "")):
                lookup_ids |= {id(z) for z in core.walk(y)}
        mentions = any(y.get("k") == "Path" and y.get("lid") in ty_locals and id(y) not in lookup_ids for y in core.walk(cnd))
        if not mentions:
            # a condition computed from the type locals through a let (`let widening = matches!((binary_type, expected)..)`)
            for y in core.walk(cnd):
                if y.get("k") == "Path" and y.get("res") == "local":
                    for st in core.walk_lets(fn.body):
                        if st["pat"].get("k") == "Binding" and st["pat"].get("lid") == y.get("lid") and st.get("init") is not None and any(z.get("k") == "Path" and z.get("lid") in ty_locals for z in core.walk(st["init"])):
                            mentions = True
        rets = [x for x in core.walk(n, into_closures=False) if x.get("k") == "Ret" and core.as_try(x) is None and not C13_is_try_ret(n, x)]
        if mentions and rets and any(core.fingerprint(r_.get("e", {}), 3).startswith("Result::Ok(") for r_ in rets):
            # the two documented skips are matches on read_u8() / try_into(), not on a type local
            extra.append(n)
    if extra:
        c.violation(R, "skip|pre-filter", f"decode_prop_chunk leaves the chunk unread on a condition over the wire type / declared type ({core.fingerprint(extra[0].get('c') or extra[0].get('e'), 4)[:80]}) before the dispatch: pairs the dispatch has arms for — a property declared Color3 and stored as Color3uint8, a narrower numeric encoding — are dropped", core.loc(extra[0]), instance="no-type-pre-filter")
    else:
        c.ok(R, "no-type-pre-filter")


def rule_disp(c, prog):
    R = "C04.disp"
    c.rule(R, "decode_prop_chunk returns Ok(()) — touching no instance — when the type byte is missing or unknown; chunk order is not assumed; INST object format 1 is accepted; unknown chunk names are skipped (see C13.trunc)")
    fn = common.find_fn(prog, DS + "decode_prop_chunk$")
    # (1) match chunk.read_u8() { Ok(b) => b, Err(_) => return Ok(()) }
    ok1 = ok2 = False
    first_effect = None
    for st in core.walk_lets(fn.body):
        init = core.strip(st.get("init", {})) if "init" in st else {}
        if init.get("k") == "Match" and init.get("src") == "Normal":
            sc = core.strip(init["e"])
            if sc.get("k") == "MethodCall" and sc["m"] == "read_u8":
                for arm in init["arms"]:
                    if "Err" in core.pat_str(arm["pat"]):
                        b = core.strip(arm["body"])
                        if b.get("k") == "Ret" and core.fingerprint(b["e"], 3).startswith("Result::Ok("):
                            ok1 = True
            if sc.get("k") == "MethodCall" and sc["m"] == "try_into":
                for arm in init["arms"]:
                    if "Err" in core.pat_str(arm["pat"]):
                        rets = [x for x in core.walk(arm["body"]) if x.get("k") == "Ret"]
                        if rets and all(core.fingerprint(r["e"], 3).startswith("Result::Ok(") for r in rets):
                            # no instance touched in that arm
                            if not any(x.get("k") == "MethodCall" and x["m"] in ("get_mut", "add_property") for x in core.walk(arm["body"])):
                                ok2 = True
    for label, ok in (("missing-type-byte=>skip", ok1), ("unknown-type-id=>skip", ok2)):
        if ok:
            c.ok(R, label)
        else:
            c.violation(R, f"skip|{label}", f"decode_prop_chunk: {label.replace('=>', ' must ')} the chunk with Ok(()) and without touching any instance", fn.sp, instance=label)
    # skip decisions happen before the first instance mutation (source order)
    order = []
    for n in core.walk_fn(fn, into_closures=False):
        if n.get("k") == "MethodCall" and n["m"] in ("read_u8", "try_into", "get_mut"):
            order.append(n["m"])
    if order[:2] == ["read_u8", "try_into"] or (order.index("get_mut") > order.index("try_into") if "get_mut" in order and "try_into" in order else False):
        c.ok(R, "skip-before-mutation")
    else:
        c.violation(R, "skip|order", f"decode_prop_chunk touches instances before deciding whether the chunk is skipped ({order[:4]})", fn.sp, instance="skip-before-mutation")
    rule_prefilter(c, prog)
    # INST: object_format is read and not rejected
    fi = common.find_fn(prog, DS + "decode_inst_chunk$")
    # the object-format byte: the single byte read between the class name (read_string) and the instance count
    # (read_le_u32); whatever the local is called, no branch on it may leave the function
    seq_reads = [n for n in core.walk_fn(fi, into_closures=False) if n.get("k") == "MethodCall" and n["m"] in ("read_string", "read_u8", "read_bool", "read_le_u32")]
    scope = [fi]
    if "read_string" not in [n["m"] for n in seq_reads]:
        # the header fields are read by a private helper of the module (`InstChunkHeader::decode(&mut chunk)?`)
        for x in core.walk_fn(fi, into_closures=False):
            if x.get("k") in ("Call", "MethodCall"):
                h = prog.fns.get(core.callee(x) or "")
                if h is not None and h.body is not None and h.path.startswith("rbx_binary::deserializer") and any(y.get("k") == "MethodCall" and y["m"] == "read_string" for y in core.walk_fn(h)):
                    scope.append(h)
                    seq_reads = [n for n in core.walk_fn(h, into_closures=False) if n.get("k") == "MethodCall" and n["m"] in ("read_string", "read_u8", "read_bool", "read_le_u32")]
                    break
    names = [n["m"] for n in seq_reads]
    of = None
    read_node = None
    if "read_string" in names:
        i0 = names.index("read_string")
        rest = seq_reads[i0 + 1:]
        if rest and rest[0]["m"] in ("read_u8", "read_bool"):
            read_node = rest[0]
    if read_node is not None:
        of = "unbound"
        of_name = None
        for g_ in scope:
            for st in core.walk_lets(g_.body):
                if "init" in st and any(x is read_node for x in core.walk(st["init"])) and st["pat"].get("k") == "Binding":
                    of = st["pat"]["lid"]
                    of_name = st["pat"].get("name")
            # read straight into a struct literal field: `Header { object_format: chunk.read_u8()?, .. }`
            for x in core.walk_fn(g_):
                if x.get("k") == "Struct":
                    for fx in x.get("fields") or []:
                        if any(y is read_node for y in core.walk(fx["e"])) or (of not in (None, "unbound") and core.strip(fx["e"]).get("lid") == of):
                            of_name = fx["f"]
                            if of == "unbound":
                                of = "field:" + fx["f"]
    rejects = False
    if of not in (None, "unbound"):
        def mentions(e):
            return any(x.get("lid") == of or (of_name and len(scope) > 1 and x.get("k") == "Field" and x.get("f") == of_name) for x in core.walk(e))
        for g_ in scope:
            for n in core.walk_fn(g_):
                if n.get("k") == "If" and mentions(n["c"]) and any(x.get("k") == "Ret" for x in core.walk(n["t"])):
                    rejects = True
                if n.get("k") == "Match" and mentions(n["e"]) and core.strip(n["e"]).get("k") in ("Path", "Field") and any(x.get("k") == "Ret" for x in core.walk(n)):
                    rejects = True
    if of is not None and not rejects:
        c.ok(R, "inst:object-format-accepted")
    else:
        c.violation(R, "inst|object-format", "decode_inst_chunk rejects (or no longer reads) the object format byte; service-format INST chunks must load", fi.sp, instance="inst:object-format-accepted")
    # no chunk-order state machine in Deserializer::deserialize: arms call decode_* directly
    fd = prog.fn("rbx_binary::deserializer::Deserializer::<'db>::deserialize")
    # (a boolean that only the loop's own condition reads — `while !reached_end` — is the loop's exit, not state about
    # which chunks have been seen)
    cond_only = set()
    for lp_ in core.walk_fn(fd):
        if lp_.get("k") == "Loop":
            for y in core.walk(lp_):
                if y.get("k") == "If":
                    cnd_ = core.strip(y["c"])
                    while cnd_.get("k") in ("DropTemps", "Unary"):
                        cnd_ = core.strip(cnd_["e"])
                    if cnd_.get("res") == "local" and cnd_.get("ty") == "bool":
                        reads = [z for z in core.walk_fn(fd) if z.get("k") == "Path" and z.get("lid") == cnd_["lid"]]
                        writes = [z for z in core.walk_fn(fd) if z.get("k") == "Assign" and core.strip(z["l"]).get("lid") == cnd_["lid"]]
                        if len(reads) - len(writes) == 1:
                            cond_only.add(cnd_["lid"])
    flags = [n for n in core.walk_fn(fd) if n.get("k") == "Assign" and core.strip(n["l"]).get("lid") not in cond_only]
    if not flags:
        c.ok(R, "dispatch:stateless")
    else:
        c.violation(R, "dispatch|state", "Deserializer::deserialize keeps state across chunks (assignments in the dispatch loop): chunk order must not be assumed", core.loc(flags[0]), instance="dispatch:stateless")


def rule_ids(c, prog):
    R = "C04.ids"
    c.rule(R, "class ids, referents and SharedString indices are opaque keys: looked up through maps / checked indexing, never used in arithmetic that assumes density or order")
    fn = common.find_fn(prog, DS + "decode_prop_chunk$")
    # type_id lookup is a checked map get with an error
    ok = False
    # every lookup in the class table is a checked `get` whose miss is an error (ok_or / ok_or_else / `?` / match),
    # never an index or an unwrap
    TI_RX = re.compile(r"HashMap<u32, rbx_binary::deserializer::state::TypeInfo\b")
    gets, idx, unwrapped = [], [], []
    for f2 in prog.lib_fns():
        if f2.crate != "rbx_binary" or f2.body is None or "deserializer::state" not in f2.path:
            continue

        def is_table(e):
            ty = (e.get("ty") or "") + " " + (e.get("aty") or "")
            return bool(TI_RX.search(ty)) or core.place_root(e)[1][-1:] == ["type_infos"]
        g2 = [n for n in core.walk_fn(f2) if n.get("k") == "MethodCall" and n["m"] in ("get", "get_mut") and is_table(n["recv"])]
        gets += g2
        idx += [n for n in core.walk_fn(f2) if n.get("k") == "Index" and is_table(n["l"])]
        unwrapped += [n for n in core.walk_fn(f2) if n.get("k") == "MethodCall" and n["m"] in ("unwrap", "expect") and any(core.strip(n["recv"]) is g for g in g2)]
    ok = bool(gets) and not idx and not unwrapped
    if ok:
        c.ok(R, "class-id:checked-lookup")
    else:
        c.violation(R, "class-id|lookup", "decode_prop_chunk no longer resolves the class id through `type_infos.get(&type_id).ok_or(..)`", fn.sp, instance="class-id:checked-lookup")
    a = prog.adt("rbx_binary::deserializer::state::DeserializerState")
    ftypes = {f["name"]: f["ty"] for f in a["variants"][0]["fields"]}
    for name, want in (("type_infos", "HashMap<u32,"), ("instances_by_ref", "HashMap<i32,")):
        t = ftypes.get(name, "")
        if want.replace(" ", "") in t.replace(" ", ""):
            c.ok(R, f"{name}:keyed-map")
        else:
            c.violation(R, f"{name}|type", f"DeserializerState.{name} is `{t}`; ids chosen by foreign writers are arbitrary and must key a map", a["sp"], instance=f"{name}:keyed-map")
    # SharedString index: checked get
    arm = common.binary_decoder_arms(prog)[1]["SharedString"]["SharedString"]
    fp = [core.fingerprint(x, 5) for x in core.walk(arm["body"]) if x.get("k") == "MethodCall" and x["m"] == "get"]
    idx = [x for x in core.walk(arm["body"]) if x.get("k") == "Index" and "shared_strings" in core.fingerprint(x, 4)]
    if any("shared_strings.get(" in f for f in fp) and not idx:
        c.ok(R, "sstr-index:checked")
    else:
        c.violation(R, "sstr|index", "SharedString indices are no longer resolved with a checked `shared_strings.get(i)` (a foreign index equal to the count would panic)", core.loc(arm["body"]), instance="sstr-index:checked")
    # PRNT: parents resolved through instances_by_ref, roots iff -1
    fp_ = common.find_fn(prog, DS + "decode_prnt_chunk$")
    from sa import decision

    def role(n):
        n0 = core.strip(n)
        if n0.get("k") == "LetExpr":
            # match arm `-1 => ..` on the parent referent
            p = n0["pat"]
            v = core.lit_value(p["e"]) if p.get("k") == "Expr" and isinstance(p.get("e"), dict) else None
            if v == -1:
                return "NULLPARENT"
            return "let:" + core.pat_str(p)
        if n0.get("k") == "Binary" and n0["op"] in ("==", "!=") and (core.lit_value(n0["r"]) == -1 or core.lit_value(n0["l"]) == -1):
            return "NULLPARENT" if n0["op"] == "==" else "!NULLPARENT"
        return "?" + core.fingerprint(n0, 4)

    def eff(n):
        n0 = core.strip(n)
        if n0.get("k") == "MethodCall" and n0["m"] == "push":
            root, path = core.place_root(n0["recv"])
            if (root, path) == ("self", ["root_instance_refs"]):
                return "root += id"
            if "children" in path:
                # the parent must be looked up through instances_by_ref
                return "children += id"
        return "·"
    loops = [core.as_for(n) for n in core.walk_fn(fp_, into_closures=False) if core.as_for(n) is not None and n.get("k") != "DropTemps"]
    ok = False
    got = None
    if len(loops) == 1:
        tb = decision.Tabler(namer=role, effect_namer=eff)
        t = {}
        for k, v in decision.table(tb.paths(loops[0][2])).items():
            cs = frozenset(("NULLPARENT", not val) if a == "!NULLPARENT" else (a, val) for a, val in k)
            t.setdefault(cs, set()).update((tuple(e for e in ef if e != "·"), ex) for ef, ex in v)
        got = {k: sorted(v) for k, v in t.items()}
        want = {frozenset({("NULLPARENT", True)}): [(("root += id",), None)], frozenset({("NULLPARENT", False)}): [(("children += id",), None)]}
        ok, _diff = decision.same_function(got, want)
        # `children` belongs to the instance found under the parent referent in instances_by_ref
        if ok and not any(x.get("k") == "MethodCall" and x["m"] == "get_mut" and core.place_root(x["recv"]) == ("self", ["instances_by_ref"]) for x in core.walk(loops[0][2])):
            ok = False
    if ok:
        c.ok(R, "prnt:null-parent=root")
    else:
        c.violation(R, "prnt|shape", f"decode_prnt_chunk no longer files `parent == -1` as a root and every other instance under its parent's children in PRNT order (decision table: {got})", fp_.sp, instance="prnt:null-parent=root")


def run(c, prog):
    rule_widen(c, prog)
    rule_comp(c, prog)
    rule_disp(c, prog)
    rule_reforder(c, prog)
    rule_ids(c, prog)
    # shared clauses: the reader-side scalar codecs equal the document's formulas (zig-zag, float rotation, interleaving, referent accumulation),
    # and a migrating legacy chunk never overwrites an explicit value whatever the chunk order
    from . import C01_alg, C15
    C01_alg.run(core.Alias(c, "C04"), prog)
    C15.rule_sites(core.Alias(c, "C04"), prog, full=False)
    # the reader consumes the documented layout: decoder arms are dual to the encoder arms (C01.arm) and those equal the document (C03.gram)
    from . import C01_arm, C03_gram
    C01_arm.run(core.Alias(c, "C04"), prog)
    C03_gram.run(c, prog, R="C04.gram")
    rule_bits(c, prog)
    c.not_decided += ["equality of the decoded DOM with the one described, for every foreign encoding (a run)", "third-party decompressors"]
