"""C02.tok — XmlType impls whose text is a space-separated token stream (NumberRange, NumberSequence, ColorSequence):
the writer emits number, separator, number, separator …; the reader splits the text on the same separator, parses every
piece as the type it was formatted from, and takes the pieces with successive `next()` calls.  Decided here: the k-th
piece the reader takes ends up in the field whose value the writer emitted k-th (per loop iteration for sequences), a
piece the reader discards is a constant of the writer, and the separator / empty-piece handling agree.

Writer side: symbolic events of write_xml (sa.sym).  Reader side: the locals bound from successive `next()` calls on the
piece iterator (directly, through `?`, `ok_or_else`, a `match` with a `break` arm, or a local closure wrapping them), in
program order, and the symbolic value of the struct built from them."""
import re

from sa import core, sym, wire
from . import C02_type as T

XT = T.XT


def token_types(prog):
    """XmlType impls whose read_xml splits the characters it read"""
    out = []
    for imp in prog.impls:
        if imp.get("trait") != XT:
            continue
        ty = imp["self"]
        try:
            rf = prog.impl_fn(XT, ty, "read_xml")
        except core.AnchorMissing:
            continue
        if any(x.get("k") == "MethodCall" and x["m"] in ("split", "split_whitespace", "split_ascii_whitespace", "split_terminator") for x in core.walk_fn(rf)):
            out.append(ty)
    return sorted(out)


def writer_tokens(prog, ty):
    """([(kind, term)] per iteration, looped?) — kind 'num' (display of a value) or 'sep' (literal text)"""
    I = T.XmlInterp(prog, prims=T.xml_prims(), depth=6, opaque=wire.OPAQUE)
    I.top = ty
    I.write_xml_of(ty, ("in", "value"), None)
    evs = I.events
    looped = False
    while len(evs) == 1 and evs[0][0] == "rep":
        looped = True
        evs = evs[0][2]
    toks = []
    def float_alt(e):
        """the `float` writer: INF / -INF / NAN for the three specials, Display of the value otherwise (a cascade of
        alternatives) — one number"""
        leaves = []

        def walk(evs_):
            for x in evs_:
                if x[0] == "alt":
                    for a in x[1]:
                        if a[2] == "err":
                            continue
                        if not walk(a[1]):
                            return False
                elif x[0] == "W" and x[1] == "chars":
                    leaves.append(x[2])
                else:
                    return False
            return True
        if not walk([e]):
            return None
        num = None
        for t in leaves:
            if t[0] in ("str", "display") and isinstance(t[-1], tuple) and t[-1][0] == "c" and t[-1][1] in ("INF", "-INF", "NAN", "+INF"):
                continue
            if t[0] == "display" and t[1] in ("f32", "f64"):
                if num is not None and num[2] != t[2]:
                    return None
                num = ("num", t[1], t[2])
                continue
            return None
        return num
    for e in evs:
        if e[0] != "W" or e[1] != "chars":
            if e[0] == "alt":
                # only error alternatives of `?` are tolerated
                if all(a[2] == "err" or not a[1] for a in e[1]):
                    continue
                fa = float_alt(e)
                if fa is not None:
                    toks.append(fa)
                    continue
            raise sym.Unsupported(f"writer event {e[0]}:{e[1] if len(e) > 1 else ''} in a token-stream type")
        t = e[2]
        if t[0] == "display":
            toks.append(("num", t[1], t[2]))
        elif t[0] == "str" and t[1][0] == "c":
            toks.append(("sep", None, t[1][1]))
        else:
            raise sym.Unsupported(f"writer text {sym.term_str(t, 3)}")
    return toks, looped


def field_path(t):
    """('color', 'r') for value.color.r / elem(value.keypoints).color.r; ('const', v) for a constant"""
    if t[0] == "c":
        return ("const", t[1])
    path = []
    while isinstance(t, tuple) and t and t[0] == "fld":
        path.append(t[2])
        t = t[1]
    return tuple(reversed(path))


def reader_tokens(prog, ty):
    """(ordered [lid] of locals bound from successive next() calls, separator, filters empties?, parse type, struct map
    {field path: token index}, looped?)"""
    rf = prog.impl_fn(XT, ty, "read_xml")
    sep = None
    filt = False
    ptype = None
    for x in core.walk_fn(rf):
        if x.get("k") == "MethodCall" and x["m"] == "split" and x["args"]:
            sep = core.lit_value(x["args"][0])
        if x.get("k") == "MethodCall" and x["m"] in ("split_whitespace", "split_ascii_whitespace"):
            sep, filt = " ", True
        if x.get("k") == "MethodCall" and x["m"] == "filter":
            filt = filt or any(y.get("k") == "MethodCall" and y["m"] == "is_empty" for y in core.walk(x))
        if x.get("k") == "MethodCall" and x["m"] == "parse":
            m = re.match(r"^core::result::Result<([\w:]+),", x.get("ty") or "")
            if m:
                ptype = T.norm_ty(m.group(1))
    # the piece iterator: a local whose type is an iterator chain over Split
    it_lids = set()
    for st in core.walk_lets(rf.body):
        if st["pat"].get("k") == "Binding" and st.get("init") is not None and any(y.get("k") == "MethodCall" and y["m"] in ("split", "split_whitespace", "split_ascii_whitespace") for y in core.walk(st["init"])):
            it_lids.add(st["pat"]["lid"])
    if not it_lids:
        raise sym.Unsupported("the piece iterator is not a named local")

    def is_next(n):
        return n.get("k") == "MethodCall" and n["m"] == "next" and core.strip(n["recv"]).get("lid") in it_lids
    # local closures that wrap next()
    wrappers = set()
    for st in core.walk_lets(rf.body):
        init = core.strip(st.get("init") or {})
        if st["pat"].get("k") == "Binding" and init.get("k") == "Closure" and any(is_next(y) for y in core.walk(init["body"])):
            wrappers.add(st["pat"]["lid"])

    def takes_piece(n):
        return is_next(n) or (n.get("k") == "Call" and core.strip(n["f"]).get("lid") in wrappers)
    order = []
    looped = False
    for n in core.walk_fn(rf, into_closures=False):
        if n.get("k") == "Loop" or core.as_for(n) is not None:
            looped = True
    # binders of a piece: `let x = ..next()..;` and `if let / while let Some(x) = ..next()..`
    binders = []
    for st in core.walk_lets(rf.body):
        init = st.get("init")
        if init is None or core.strip(init).get("k") == "Closure":
            continue
        binders.append((st["pat"], init))
    # `if let Some(_) = pieces.next() { return Err(too many) }` is the end-of-input test, not a piece that is taken
    end_tests = set()
    for n in core.walk_fn(rf, into_closures=False):
        if n.get("k") == "If":
            cnd = core.strip(n["c"])
            if cnd.get("k") == "LetExpr":
                t = core.strip(n["t"])
                while t.get("k") == "Block" and len(t["b"]["stmts"]) + (1 if "expr" in t["b"] else 0) == 1:
                    t = core.strip(t["b"]["expr"] if "expr" in t["b"] else t["b"]["stmts"][0].get("e", {}))
                if t.get("k") == "Ret" and "Err" in core.fingerprint(t.get("e", {}), 3):
                    end_tests.add(id(cnd))
    for n in core.walk_fn(rf, into_closures=False):
        if n.get("k") == "LetExpr" and id(n) not in end_tests:
            binders.append((n["pat"], n["init"]))
    alias = {}
    for pat, init in sorted(binders, key=lambda b: _spk(b[1])):
        k = sum(1 for y in core.walk(init, into_closures=False) if takes_piece(y))
        lids = _pat_lids(pat)
        if k == 0:
            # `let time = time?;` — the same piece under a new binding
            src = sorted({y["lid"] for y in core.walk(init) if y.get("k") == "Path" and y.get("res") == "local" and (y["lid"] in order or y["lid"] in alias)})
            if len(lids) == 1 and len(src) == 1:
                alias[lids[0]] = alias.get(src[0], src[0])
            continue
        if k > 1 or len(lids) != 1:
            raise sym.Unsupported("one statement takes several pieces")
        order.append(lids[0])
    # a stray next() outside a let (`match pieces.next() { None => {}, Some(_) => return Err }` is the end-of-input test)
    # the struct built from the pieces
    structs = [x for x in core.walk_fn(rf) if x.get("k") == "Struct" and x.get("def") and not x["def"].startswith("core::") and any(core.strip(y).get("lid") in order or core.strip(y).get("lid") in alias for f in x["fields"] for y in core.walk(f["e"]))]
    if not structs:
        raise sym.Unsupported("no struct is built from the pieces")
    lit = structs[0]
    env = {lid: ("tok", i) for i, lid in enumerate(order)}
    for a, root in alias.items():
        env[a] = ("tok", order.index(root))
    I = wire.WireInterp(prog, prims=[], depth=4)
    val = I.eval(lit, dict(env))
    fmap = {}

    def flat(t, path):
        if isinstance(t, tuple) and t and t[0] == "st":
            for f, v in t[2]:
                flat(v, path + (f,))
        elif isinstance(t, tuple) and t and t[0] == "tok":
            fmap[path] = t[1]
        else:
            fmap[path] = ("other", sym.term_str(t, 3))
    flat(val, ())
    return order, sep, filt, ptype, fmap, looped, lit


def count_guards(fn):
    """error exits of `fn` decided by nothing but the number of collected elements: `if <local>.len() <relop> <const>
    { return Err }` outside every loop — [(text of the condition, node)]"""
    out = []
    in_loop = set()
    for n in core.walk_fn(fn, into_closures=False):
        if n.get("k") == "Loop" or core.as_for(n) is not None:
            for y in core.walk(n):
                in_loop.add(id(y))
    for n in core.walk_fn(fn, into_closures=False):
        if n.get("k") != "If" or id(n) in in_loop:
            continue
        cnd = core.strip(n["c"])
        if cnd.get("k") != "Binary" or cnd.get("op") not in ("<", "<=", ">", ">=", "==", "!="):
            continue
        sides = [core.strip(cnd["l"]), core.strip(cnd["r"])]
        lens = [x for x in sides if x.get("k") == "MethodCall" and x["m"] in ("len", "count")]
        lits = [x for x in sides if core.lit_value(x) is not None]
        if len(lens) != 1 or len(lits) != 1:
            continue
        if not any(y.get("k") == "Ret" and "Err" in core.fingerprint(y.get("e", {}), 3) for y in core.walk(n["t"])):
            continue
        out.append((f"{core.fingerprint(lens[0]['recv'], 2)}.len() {cnd['op']} {core.lit_value(lits[0])}" if sides[0] is lens[0] else f"{core.lit_value(lits[0])} {cnd['op']} len", n))
    return out


def _pat_lids(p):
    out = []
    stack = [p]
    while stack:
        x = stack.pop()
        if isinstance(x, dict):
            if x.get("k") == "Binding":
                out.append(x["lid"])
            stack.extend(v for v in x.values() if isinstance(v, (dict, list)))
        elif isinstance(x, list):
            stack.extend(x)
    return out


def _spk(n):
    parts = (n.get("sp") or "").split(":")
    try:
        return (int(parts[1]), int(parts[2]))
    except (IndexError, ValueError):
        return (0, 0)


def run(c, prog, R="C02.tok"):
    c.rule(R, "XmlType impls that write a space-separated token stream: numbers and separators alternate; the reader splits on the same separator (dropping empty pieces when the writer ends with one), parses each piece as the type it was formatted from, and the k-th piece it takes is stored in the field the writer emitted k-th; a piece the reader discards is a constant of the writer")
    types = token_types(prog)
    c.floor(R, len(types), 1, "token-stream XmlType impls")
    for ty in types:
        inst = f"type:{ty}"
        try:
            wt, wl = writer_tokens(prog, ty)
            order, sep, filt, ptype, fmap, rl, lit = reader_tokens(prog, ty)
        except (sym.Unsupported, core.AnalysisError) as e:
            c.violation(R, f"cannot-establish|{ty}", f"XmlType for {core.short(ty)}: token-stream analysis does not apply: {e}", "", instance=inst)
            continue
        nums = [t for t in wt if t[0] == "num"]
        errs = []
        # alternation: every number is followed by a separator before the next number
        for i, t in enumerate(wt):
            if t[0] == "num" and i + 1 < len(wt) and wt[i + 1][0] == "num":
                errs.append(("adjacent", f"two numbers are written without a separator between them ({sym.term_str(t[2], 3)}, {sym.term_str(wt[i + 1][2], 3)})"))
        if wl and wt and wt[-1][0] != "sep":
            errs.append(("adjacent", "the last number of one keypoint and the first of the next are written without a separator"))
        seps = {t[2] for t in wt if t[0] == "sep"}
        if seps and (len(seps) != 1 or next(iter(seps)) != sep):
            errs.append(("separator", f"the writer separates with {sorted(seps)!r}, the reader splits on {sep!r}"))
        if wt and wt[-1][0] == "sep" and not filt:
            errs.append(("empty-piece", "the writer ends with a separator but the reader does not drop empty pieces"))
        if wl != rl:
            errs.append(("loop", f"writer {'loops' if wl else 'does not loop'} over keypoints, reader {'does' if rl else 'does not'}"))
        if len(nums) != len(order):
            errs.append(("count", f"the writer emits {len(nums)} numbers per {'keypoint' if wl else 'value'}, the reader takes {len(order)} pieces"))
        else:
            taken = {v: k for k, v in fmap.items() if isinstance(v, int)}
            for i, (kind, dty, term) in enumerate(nums):
                wp = field_path(term)
                rp = taken.get(i)
                # element paths: drop the container field of the looped collection (value.keypoints[i].time vs struct field time)
                wps = wp[-len(rp):] if rp and wp and wp[0] != "const" else wp
                if rp is None:
                    if wp and wp[0] == "const":
                        continue
                    errs.append(("dropped", f"piece {i} carries `{'.'.join(wp)}` but the reader stores it nowhere"))
                elif wp and wp[0] == "const":
                    errs.append(("field", f"piece {i} is the constant {wp[1]} in the writer but the reader stores it in `{'.'.join(rp)}`"))
                elif tuple(wps) != tuple(rp):
                    errs.append(("field", f"piece {i} is `{'.'.join(wp)}` in the writer but the reader stores it in `{'.'.join(rp)}`"))
                if ptype and dty not in (ptype,) and not (wp and wp[0] == "const"):
                    errs.append(("type", f"piece {i} is formatted from {dty} and parsed as {ptype}"))
            others = {k: v for k, v in fmap.items() if not isinstance(v, int)}
            for k, v in sorted(others.items()):
                errs.append(("field", f"field `{'.'.join(k)}` is not filled from a piece ({v[1]})"))
        c.sample({"rule": R, "type": ty, "writer": [(t[0], sym.term_str(t[2], 3) if t[0] == "num" else t[2]) for t in wt], "reader_fields": {".".join(k): v for k, v in fmap.items()}, "sep": sep})
        if errs:
            kind, msg = errs[0]
            c.violation(R, f"{kind}|{ty}", f"XmlType for {core.short(ty)}: {msg}", core.loc(lit), instance=inst)
        else:
            c.ok(R, inst)


def rule_count_domain(c, prog, R):
    """The number of keypoints: a count the writer emits without complaint and the reader refuses is a value that does
    not come back.  Not part of C02 (whose quantifier starts at two keypoints); it is part of C06, where the binary
    sibling accepts every count."""
    c.rule(R, "token-stream XmlType impls that loop over a collection: an error exit of the reader decided by nothing but the number of collected elements has a counterpart in the writer — otherwise the writer produces text its own reader refuses, for a value rbx_binary round-trips")
    n = 0
    for ty in token_types(prog):
        rf = prog.impl_fn(XT, ty, "read_xml")
        wf = prog.impl_fn(XT, ty, "write_xml")
        if not any(x.get("k") == "Loop" or core.as_for(x) is not None for x in core.walk_fn(rf, into_closures=False)):
            continue
        n += 1
        inst = f"count:{ty}"
        rg = count_guards(rf)
        wg = count_guards(wf)
        if rg and not wg:
            c.violation(R, f"count-domain|{ty}", f"XmlType for {core.short(ty)}: the reader refuses the text when `{rg[0][0]}`, the writer writes any number of keypoints without complaint: a value with that few keypoints is written (and round-trips through rbx_binary, which has no minimum) but the XML it produced is rejected, failing the whole file", core.loc(rg[0][1]), instance=inst)
        else:
            c.ok(R, inst)
    c.floor(R, n, 1, "looping token-stream XmlType impls")
