"""C06 — binary and XML decode to equivalent DOMs.
C06.desc: the two independent copies of find_property_descriptors have the same (kind x serialization) outcome table
(sibling comparison), and evaluated over every class x visible property of the bundled database they name the same
canonical and serialized descriptors.  C06.conv: off-type coercions accepted by the two writers agree."""
from sa import core, db as dbm, tables
from . import common
from .common import vname

PK = "rbx_reflection::database::PropertyKind"
PS = "rbx_reflection::database::PropertySerialization"


def variants_of(pat):
    out = []
    for alt in tables.pat_alts(pat):
        if alt[0] in ("v", "ctor", "struct") and alt[1]:
            out.append(vname(alt[1]))
        elif alt[0] == "_":
            out.append("_")
    return out


def classify_outcome(prog, body, canon_name):
    """outcome of one serialization arm: ('some', canonical_role, serialized_role) | ('none',) | ('panic',) | ('value', role)"""
    b = core.strip(body)
    # explicit return?
    rets = [x for x in core.walk(body) if x.get("k") == "Ret" and core.as_try(x) is None]
    macro = [x for x in core.walk(body) if x.get("k") == "Call" and (x.get("x") or "").find("unimplemented") >= 0]
    if macro:
        return ("panic",)
    target = core.strip(rets[0]["e"]) if rets else b
    while target.get("k") == "Block" and "expr" in target["b"]:
        target = core.strip(target["b"]["expr"])

    def role(e):
        e = core.strip(e)
        if e.get("k") == "Path" and e.get("res") == "local":
            return e["name"]
        if e.get("k") == "Path":
            return vname(e.get("def"))
        if e.get("k") == "Call":
            f = e["f"].get("def", "")
            if f.endswith("Option::Some") and e["args"]:
                return role(e["args"][0])
            if f.endswith("find_serialized_from_canonical"):
                return "FSFC"
        if e.get("k") == "MethodCall" and e["m"] in ("unwrap", "expect"):
            r = core.strip(e["recv"])
            if r.get("k") == "MethodCall" and r["m"] == "get":
                return "lookup(" + core.fingerprint(r["args"][0], 2).split(".")[0] + ")"
        return core.fingerprint(e, 3)
    if target.get("k") == "Path" and (target.get("def") or "").endswith("Option::None"):
        return ("none",)
    if target.get("k") == "Call" and (target["f"].get("def") or "").endswith("Option::Some"):
        inner = core.strip(target["args"][0])
        if inner.get("k") == "Tup" and len(inner["args"]) == 2:
            return ("some", role(inner["args"][0]), role(inner["args"][1]))
        if inner.get("k") == "Struct":
            f = {x["f"]: x["e"] for x in inner["fields"]}
            return ("some", role(f["canonical"]), role(f["serialized"]))
        return ("value", role(inner))
    return ("value", role(target))


def resolve_local(body_block, name, depth=4):
    """resolve a local's let-initialiser role inside an arm body (e.g. serialized_descriptor = lookup(serialized_name))"""
    for st in core.walk_lets(body_block):
        if st["pat"].get("name") == name and "init" in st:
            e = core.strip(st["init"])
            if e.get("k") == "MethodCall" and e["m"] in ("unwrap", "expect"):
                r = core.strip(e["recv"])
                if r.get("k") == "MethodCall" and r["m"] == "get":
                    return "lookup"
            if e.get("k") == "Call" and (core.callee(e) or "").endswith("find_serialized_from_canonical"):
                return "FSFC"
    return None


def ser_table(prog, match_node, descr_role):
    """{serialization variant: outcome} for a match on a PropertySerialization"""
    out = {}
    for arm in match_node["arms"]:
        oc = classify_outcome(prog, arm["body"], descr_role)
        oc = tuple(("lookup" if isinstance(x, str) and (x.startswith("lookup(") or resolve_local(arm["body"], x) == "lookup") else x) for x in oc)
        for v in variants_of(arm["pat"]):
            out.setdefault(v, oc)
    return out


def extract(prog, fn, helper=None):
    """table[(kind branch: 'Canonical'|'Alias', ser variant)] = normalised outcome (canonical role, serialized role)
       roles: 'found' (the descriptor met under the queried name), 'target' (the alias target), 'lookup' (same-class lookup
       of the SerializesAs name), None."""
    # the match on the found descriptor's kind
    top = None
    for n in core.walk_fn(fn):
        if n.get("k") == "Match" and n.get("src") == "Normal":
            ty = (n["e"].get("aty") or n["e"].get("ty") or "")
            if PK in ty and top is None:
                top = n
    if top is None:
        raise core.AnchorMissing(f"{fn.path}: match on PropertyKind not found")
    found_name = None
    sc = core.strip(top["e"])
    if sc.get("k") == "Field":
        found_name = core.strip(sc["e"]).get("name")
    table = {}
    other_kind = None
    for arm in top["arms"]:
        kinds = variants_of(arm["pat"])
        for kind in kinds:
            if kind == "Canonical":
                st = find_ser_table(prog, fn, arm["body"], helper)
                for sv, oc in st.items():
                    table[("Canonical", sv)] = normalise(oc, found_name, None)
            elif kind == "Alias":
                # the alias target
                tgt = None
                for s2 in core.walk_lets(arm["body"]):
                    e = core.strip(s2.get("init", {})) if "init" in s2 else {}
                    if e.get("k") == "MethodCall" and e["m"] in ("unwrap", "expect") and core.strip(e["recv"]).get("m") == "get":
                        tgt = s2["pat"].get("name")
                        break
                # the branch on the target's kind: `if let Canonical{..} = &target.kind {..} else {..}` or `match &target.kind`
                st = None
                non_canon = None
                for n2 in core.walk(arm["body"]):
                    if n2.get("k") == "If" and core.strip(n2["c"]).get("k") == "LetExpr":
                        le = core.strip(n2["c"])
                        if PK in (le["init"].get("aty") or le["init"].get("ty") or "") and "Canonical" in variants_of(le["pat"]):
                            st = find_ser_table(prog, fn, n2["t"], helper)
                            non_canon = classify_outcome(prog, n2["f"], tgt) if "f" in n2 else ("fallthrough",)
                    if n2.get("k") == "Match" and n2.get("src") == "Normal" and PK in (n2["e"].get("aty") or n2["e"].get("ty") or "") and n2 is not top:
                        for a3 in n2["arms"]:
                            ks = variants_of(a3["pat"])
                            if "Canonical" in ks:
                                st = find_ser_table(prog, fn, a3["body"], helper)
                            else:
                                non_canon = classify_outcome(prog, a3["body"], tgt)
                if st is None:
                    raise core.AnchorMissing(f"{fn.path}: Alias arm does not branch on the target's kind")
                for sv, oc in st.items():
                    table[("Alias", sv)] = normalise(oc, found_name, tgt)
                table[("Alias", "<target not canonical>")] = normalise(non_canon or ("fallthrough",), found_name, tgt)
            else:
                other_kind = classify_outcome(prog, arm["body"], None)
                table[("<other kind>", "")] = normalise(other_kind, found_name, None)
    return table


def find_ser_table(prog, fn, body, helper):
    for n in core.walk(body):
        if n.get("k") == "Match" and n.get("src") == "Normal" and PS in (n["e"].get("aty") or n["e"].get("ty") or ""):
            return ser_table(prog, n, None)
    # through the helper
    for n in core.walk(body):
        if n.get("k") == "Call" and helper is not None and core.callee(n) == helper.path:
            # helper(class, canonical, serialization): returns serialized; the caller wraps Some{canonical: arg1, serialized}
            hm = tables.top_match(helper)
            ht = ser_table(prog, hm, None)
            canon_arg = core.strip(n["args"][1]).get("name")
            out = {}
            for sv, oc in ht.items():
                # helper outcomes are ('value', role) or ('none',)
                if oc[0] == "value":
                    r = oc[1]
                    r = canon_arg if r == helper.params[1].get("name") else r
                    out[sv] = ("some", canon_arg, r)
                elif oc[0] == "none":
                    out[sv] = ("some", canon_arg, None)
                else:
                    out[sv] = oc
            return out
    raise core.AnchorMissing(f"{fn.path}: no match on PropertySerialization in the Canonical branch")


def normalise(oc, found_name, target_name):
    def r(x):
        if x is None:
            return None
        if x == found_name:
            return "found"
        if target_name is not None and x == target_name:
            return "target"
        if x == "lookup":
            return "lookup"
        return x
    if oc[0] == "some":
        return ("some", r(oc[1]), r(oc[2]))
    return oc


def evaluate(table, d, cls, name):
    """(canonical descriptor id, serialized descriptor id) or None / 'panic', following the extracted table on the database"""
    for ck in d.chain(cls):
        cl = d.classes[ck]
        p = cl.props.get(name)
        if p is None:
            continue
        if p.kind == "Canonical":
            oc = table.get(("Canonical", p.ser), table.get(("Canonical", "_")))
            tgt = None
            found = p
        elif p.kind == "Alias":
            tgt = cl.props.get(p.alias_for)
            if tgt is None:
                return "panic"
            if tgt.kind != "Canonical":
                oc = table.get(("Alias", "<target not canonical>"))
            else:
                oc = table.get(("Alias", tgt.ser), table.get(("Alias", "_")))
            found = p
        else:
            oc = table.get(("<other kind>", ""))
            found, tgt = p, None
        if oc is None:
            return "panic"
        if oc[0] == "none":
            return None
        if oc[0] == "panic":
            return "panic"
        if oc[0] != "some":
            return ("?", oc)
        ser_owner = tgt if p.kind == "Alias" else found

        def res(role):
            if role is None:
                return None
            if role == "found":
                return (ck, found.name)
            if role == "target":
                return (ck, tgt.name)
            if role == "lookup":
                sp = cl.props.get(ser_owner.ser_as) if ser_owner.ser_as else None
                return (ck, sp.name) if sp is not None else "panic"
            return ("?", role)
        return (res(oc[1]), res(oc[2]))
    return None


def rule_desc(c, prog):
    R = "C06.desc"
    c.rule(R, "sibling agreement of rbx_binary::core::find_property_descriptors (+ find_serialized_from_canonical) and rbx_xml::core::find_property_descriptors: equal (kind x serialization) outcome tables except the declared DoesNotSerialize difference, and equal (canonical, serialized) descriptors on every class x visible property name of the bundled database")
    bf = prog.fn("rbx_binary::core::find_property_descriptors")
    bh = prog.fn("rbx_binary::core::find_serialized_from_canonical")
    xf = prog.fn("rbx_xml::core::find_property_descriptors")
    bt = extract(prog, bf, bh)
    xt = extract(prog, xf, None)
    c.sample({"rule": R, "binary_table": {f"{k[0]}/{k[1]}": str(v) for k, v in sorted(bt.items())}, "xml_table": {f"{k[0]}/{k[1]}": str(v) for k, v in sorted(xt.items())}})
    declared = {"DoesNotSerialize": "binary returns the canonical descriptor with no serialized form, XML returns None; both readers/writers then drop the property",
                "_": "wildcard over the non_exhaustive enum: binary returns no serialized form, XML has `unimplemented!()` (dead: C16.oblig)",
                "<target not canonical>": "database error case (C16.data alias-canonical): both return None", "": "unknown PropertyKind (dead arm)"}
    for key in sorted(set(bt) | set(xt)):
        b, x = bt.get(key), xt.get(key)
        inst = f"row:{key[0]}/{key[1]}"
        if b == x:
            c.ok(R, inst)
        elif key[1] in declared and (key[1] != "DoesNotSerialize" or (b and b[0] == "some" and b[2] is None and x == ("none",))):
            c.ok(R, inst + ":declared-difference")
        else:
            c.violation(R, f"row|{key[0]}|{key[1]}", f"the two copies of find_property_descriptors disagree for a {key[0]} property with serialization {key[1]}: binary yields {b}, XML yields {x} — the same DOM would be written/read under different names by the two formats", xf.sp, instance=inst)
    c.floor(R, len(bt), 8, "table rows (binary)")
    # exhaustive evaluation over the database
    d = dbm.Database()
    n = 0
    diffs = []
    for ck in sorted(d.classes):
        names = set()
        for a in d.chain(ck):
            names |= set(d.classes[a].props)
        for nm in sorted(names):
            n += 1
            rb = evaluate(bt, d, ck, nm)
            rx = evaluate(xt, d, ck, nm)
            if rb == rx:
                continue
            # declared difference: DoesNotSerialize
            if rx is None and isinstance(rb, tuple) and rb[1] is None:
                continue
            diffs.append((ck, nm, rb, rx))
    c.rules[R]["obligations"] += n
    c.rules[R]["discharged"] += n - len(diffs)
    c.analysed["C06_desc_pairs_evaluated"] = n
    for ck, nm, rb, rx in diffs[:20]:
        c.violation(R, f"db|{ck}.{nm}", f"on the bundled database {ck}.{nm} resolves to {rb} through the binary copy and {rx} through the XML copy", "", instance=f"db:{ck}.{nm}")
    c.floor(R, n, 20000, "class x visible property pairs evaluated")


def rule_conv(c, prog):
    R = "C06.conv"
    c.rule(R, "off-type values accepted when writing are the same in both codecs: rbx_xml::conversion's (from, to) pairs vs the multi-variant encoder arms of the binary serialize_properties")
    conv = common.find_fn(prog, r"conversion::ConvertVariant>::try_convert_cow$|conversion::ConvertVariant for .*>::try_convert_cow$")
    m = tables.top_match(conv)
    xpairs = set()
    for arm in m["arms"]:
        p = arm["pat"]
        if p.get("k") == "Tuple" and len(p["pats"]) == 2:
            a, b = variants_of(p["pats"][0]), variants_of(p["pats"][1])
            for x in a:
                for y in b:
                    if x != "_" and y != "_":
                        xpairs.add((x, y))
    efn, em, earms = common.binary_encoder_arms(prog)
    bpairs = set()
    default = common.find_fn(prog, r"types::Type::to_default_rbx_type$")
    tm, _, _ = tables.simple_map(default)
    t2v = {vname(k[1]): vname(v[1]) for k, v in tm.items() if k[0] == "v"}
    for t, arm in earms.items():
        accepted = set()
        for n in core.walk(arm["body"]):
            if n.get("k") in ("Match", "If"):
                pats = [a["pat"] for a in n["arms"]] if n.get("k") == "Match" else ([core.strip(n["c"])["pat"]] if core.strip(n["c"]).get("k") == "LetExpr" else [])
                for p in pats:
                    for alt in tables.pat_alts(p):
                        if alt[0] == "ctor" and (alt[1] or "").startswith(common.VARIANT + "::"):
                            accepted.add(vname(alt[1]))
        for v in accepted:
            bpairs.add((v, t))
    natural = {("String", "String"), ("BinaryString", "String"), ("ContentId", "String"), ("Tags", "String"), ("Attributes", "String"), ("MaterialColors", "String"),
               ("Ref", "Ref"), ("OptionalCFrame", "OptionalCFrame")}
    boff = {(v, t) for v, t in bpairs if v != t and (v, t) not in natural}
    c.sample({"rule": R, "xml_conversions": sorted(xpairs), "binary_off_type": sorted(boff)})
    # map: binary off-type (variant, wire type) <-> xml (from, to)
    expect = {("Int32", "Int64"): ("Int32", "Int64"), ("Float32", "Float64"): ("Float32", "Float64"), ("Color3", "Color3uint8"): ("Color3", "Color3uint8"),
              ("Int32", "BrickColor"): ("Int32", "BrickColor"), ("EnumItem", "Enum"): ("EnumItem", "Enum")}
    tolerated_xml_only = {("Content", "ContentId"): "off-type input (Content given for a ContentId property) outside C06's quantifier",
                          ("ContentId", "Content"): "as above", ("BinaryString", "Tags"): "reader-side canonicalisation of blobs", ("BinaryString", "Attributes"): "reader-side",
                          ("BinaryString", "MaterialColors"): "reader-side", ("BinaryString", "String"): "string-family", ("String", "BinaryString"): "string-family",
                          ("String", "ContentId"): "string-family", ("ContentId", "String"): "string-family", ("Tags", "BinaryString"): "string-family writer side",
                          ("Attributes", "BinaryString"): "string-family writer side", ("MaterialColors", "BinaryString"): "string-family writer side",
                          ("String", "Tags"): "reader-side", ("BrickColor", "Int32"): "reader-side", ("Color3uint8", "Color3"): "reader-side canonicalisation (byte colour property read back as Color3)",
                          ("Int64", "Int32"): "narrowing on read when it fits", ("Float64", "Float32"): "narrowing on read", ("Enum", "EnumItem"): "reader-side"}
    for bp, xp in expect.items():
        inst = f"coercion:{bp[0]}->{bp[1]}"
        in_b, in_x = bp in boff, xp in xpairs
        if in_b and in_x:
            c.ok(R, inst)
        elif in_b != in_x:
            c.violation(R, f"coercion|{bp[0]}|{bp[1]}", f"writing a {bp[0]} into a {bp[1]} property is accepted by {'rbx_binary' if in_b else 'rbx_xml'} only: the same DOM serializes in one format and fails in the other", efn.sp if not in_b else conv.sp, instance=inst)
        else:
            c.violation(R, f"coercion|{bp[0]}|{bp[1]}|gone", f"neither codec accepts {bp[0]} for a {bp[1]} property any more (table out of date or coercion removed)", efn.sp, instance=inst)
    for bp in sorted(boff - set(expect)):
        c.violation(R, f"binary-only|{bp[0]}|{bp[1]}", f"rbx_binary accepts Variant::{bp[0]} in a {bp[1]} column; rbx_xml::conversion has no confirmed counterpart", efn.sp, instance=f"binary-only:{bp}")
    for xp in sorted(xpairs - set(expect.values())):
        if xp in tolerated_xml_only:
            c.ok(R, f"xml-only:{xp[0]}->{xp[1]}")
        else:
            c.violation(R, f"xml-only|{xp[0]}|{xp[1]}", f"rbx_xml converts {xp[0]} to {xp[1]}; unclassified against rbx_binary", conv.sp, instance=f"xml-only:{xp}")


def run(c, prog):
    rule_desc(c, prog)
    rule_conv(c, prog)
    # equivalence of the two decodings needs each codec's own round trip: the shared clauses are re-checked under C06
    from . import C01_alg, C01_arm, C02, C07
    a = core.Alias(c, "C06")
    C01_alg.run(a, prog)
    C01_arm.run(a, prog)
    C02.rule_twopass(a, prog)
    C02.rule_tags(a, prog)
    from . import C02_type
    C02_type.run(a, prog)
    C07.run_sanitisers(a, prog)
    c.not_decided += ["equality of decoded values across the two codecs (a pair of runs); follows from C01.arm, C02.type and C06.desc only as far as those clauses reach"]
