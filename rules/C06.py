"""C06 — binary and XML decode to equivalent DOMs.
C06.desc: the two independent copies of find_property_descriptors have the same (kind x serialization) outcome table
(sibling comparison), and evaluated over every class x visible property of the bundled database they name the same
canonical and serialized descriptors.  C06.conv: off-type coercions accepted by the two writers agree."""
from sa import core, db as dbm, tables
from . import common
from .common import vname

PK = "rbx_reflection::database::PropertyKind"
PS = "rbx_reflection::database::PropertySerialization"


def variants_of(pat):
    out = []
    for alt in tables.pat_alts(pat):
        if alt[0] in ("v", "ctor", "struct") and alt[1]:
            out.append(vname(alt[1]))
        elif alt[0] == "_":
            out.append("_")
    return out


def term_contains(t, atom):
    if t == atom:
        return True
    if isinstance(t, tuple):
        return any(term_contains(x, atom) for x in t)
    return False


def extract_sym(prog, fn):
    """The (kind x serialization) outcome table of a find_property_descriptors copy, by *running it symbolically* on
    one concrete scenario per row (sa.sym): the descriptor found under the queried name, the alias target and the
    SerializesAs target are tagged struct values handed out by a model of `properties.get(..)`; workspace helpers are
    inlined by the interpreter, so how the body is split into functions, match vs if-let, early returns etc. do not
    matter.  Rows: ('Canonical', sv) / ('Alias', sv) / ('Alias', '<target not canonical>') / ('<other kind>', '')."""
    import re as _re
    from sa import sym, wire
    PD = "rbx_reflection::database::PropertyDescriptor"
    CD = "rbx_reflection::database::ClassDescriptor"
    C = sym.C
    svs = [v["name"] for v in prog.adt(PS)["variants"]]

    def ser_term(sv, tag):
        if sv == "SerializesAs":
            return sym.var(PS + "::SerializesAs", ("in", f"sername:{tag}"))
        if sv == "Migrate":
            return sym.var(PS + "::Migrate", ("in", f"migration:{tag}"))
        return sym.var(PS + "::" + sv)

    def kind_term(kind, sv, tag):
        if kind == "Canonical":
            return ("varn", PK + "::Canonical", (("serialization", ser_term(sv, tag)),))
        if kind == "Alias":
            return ("varn", PK + "::Alias", (("alias_for", ("in", "aliasname")),))
        return sym.var(PK + "::" + kind)

    def desc(tag, kind):
        return ("st", PD, (("name", C(tag)), ("kind", kind), ("data_type", ("in", "dt:" + tag)), ("scriptability", ("in", "s")), ("tags", ("in", "t"))))

    def run(found_kind, target_kind):
        FOUND = desc("found", found_kind)
        TARGET = desc("target", target_kind) if target_kind is not None else None
        CLASS = ("st", CD, (("name", ("in", "class_name")), ("properties", ("in", "props")), ("superclass", sym.var(sym.NONE)), ("tags", ("in", "ct")), ("default_properties", ("in", "dp"))))

        def p_get(I, n, path, arg_nodes, env):
            recv = I.eval(arg_nodes[0], env)
            key = I.eval(arg_nodes[1], env)
            if recv == ("in", "props"):
                if term_contains(key, ("in", "sername:found")):
                    return sym.var(sym.SOME, desc("lookup", ("in", "kind:lookup")))
                if term_contains(key, ("in", "sername:target")):
                    return sym.var(sym.SOME, desc("lookup", ("in", "kind:lookup")))
                if term_contains(key, ("in", "aliasname")):
                    return sym.var(sym.SOME, TARGET) if TARGET is not None else sym.var(sym.NONE)
                return sym.var(sym.SOME, FOUND)
            if recv[0] == "fld" and recv[2] == "classes":
                return sym.var(sym.SOME, CLASS)
            return ("app", path, (recv, key))
        prims = [(_re.compile(r"HashMap::<K, V, S(, A)?>::get$"), p_get)]
        env = {prm["lid"]: ("in", prm["name"]) for prm in fn.params}
        I, val, ex = wire.run_region(prog, fn.body, env, prims, depth=8)
        # every way the scenario can end: a row whose result depends on something beyond (kind, serialization) — e.g. on
        # what the SerializesAs target looks like — has several
        pts = []
        try:
            for cs, v, lp in sym.value_points(I.events, val):
                if v is not None and v not in pts:
                    pts.append(v)
        except Exception:
            pts = []
        # a `?` that gives up on a condition the scenario does not fix (the *shape* of the SerializesAs target, say)
        def cond_exits(evs, out):
            for e in evs:
                if e[0] == "alt":
                    for alt in e[1]:
                        if alt[2] in ("err", "return") and alt[0] is not True:
                            out.append(alt[0])
                        cond_exits(alt[1], out)
                elif e[0] == "rep":
                    cond_exits(e[2], out)
            return out
        if cond_exits(I.events, []):
            pts = pts + [sym.var(sym.NONE)]
        run.points = pts
        return val, ex

    def outcome(val, ex):
        if ex is not None and ex.kind != "return":
            return ("panic",)
        v = val
        if v is None:
            return ("?",)
        if sym.is_var(v, sym.ERR) or v == ("var", sym.ERR, ("panic",)):
            return ("panic",)
        if sym.is_var(v, sym.NONE):
            return ("none",)
        if sym.is_var(v, sym.SOME):
            inner = v[2][0]

            def role(t):
                if sym.is_var(t, sym.NONE):
                    return None
                if sym.is_var(t, sym.SOME):
                    return role(t[2][0])
                if t[0] == "st" and t[1] == PD:
                    return dict(t[2])["name"][1]
                return "?" + sym.term_str(t, 3)
            if inner[0] == "tup" and len(inner[1]) == 2:
                return ("some", role(inner[1][0]), role(inner[1][1]))
            if inner[0] == "st":
                f = dict(inner[2])
                if "canonical" in f and "serialized" in f:
                    return ("some", role(f["canonical"]), role(f["serialized"]))
        return ("?" + sym.term_str(v, 4),)

    table = {}
    problems = []

    def attempt(key, fk, tk):
        try:
            val, ex = run(fk, tk)
        except sym.Unsupported as e:
            if "no feasible match arm" in str(e):
                return      # no arm for a variant outside the declared ones: row absent
            problems.append((key, str(e)))
            return
        except sym.Exit as e:
            table[key] = ("panic",) if e.kind == "err" else ("?",)
            return
        o = outcome(val, ex)
        alts = []
        for v in getattr(run, "points", []):
            o2 = outcome(v, None)
            if o2 not in alts:
                alts.append(o2)
        if len(alts) > 1 and o[0] != "panic":
            o = ("depends",) + tuple(sorted(alts, key=repr))
        table[key] = o
    for sv in svs + ["_"]:
        s_ = sv if sv != "_" else "__Unlisted"
        attempt(("Canonical", sv), kind_term("Canonical", s_, "found"), None)
        attempt(("Alias", sv), kind_term("Alias", None, "found"), kind_term("Canonical", s_, "target"))
    attempt(("Alias", "<target not canonical>"), kind_term("Alias", None, "found"), kind_term("Alias", None, "target"))
    attempt(("<other kind>", ""), kind_term("__Unlisted", None, "found"), None)
    if problems:
        raise core.AnalysisError(f"{fn.path}: outside the symbolic model: {problems[:2]}")
    return table


def evaluate(table, d, cls, name):
    """(canonical descriptor id, serialized descriptor id) or None / 'panic', following the extracted table on the database"""
    for ck in d.chain(cls):
        cl = d.classes[ck]
        p = cl.props.get(name)
        if p is None:
            continue
        if p.kind == "Canonical":
            oc = table.get(("Canonical", p.ser), table.get(("Canonical", "_")))
            tgt = None
            found = p
        elif p.kind == "Alias":
            tgt = cl.props.get(p.alias_for)
            if tgt is None:
                return "panic"
            if tgt.kind != "Canonical":
                oc = table.get(("Alias", "<target not canonical>"))
            else:
                oc = table.get(("Alias", tgt.ser), table.get(("Alias", "_")))
            found = p
        else:
            oc = table.get(("<other kind>", ""))
            found, tgt = p, None
        if oc is None:
            return "panic"
        if oc[0] == "none":
            return None
        if oc[0] == "panic":
            return "panic"
        if oc[0] != "some":
            return ("?", oc)
        ser_owner = tgt if p.kind == "Alias" else found

        def res(role):
            if role is None:
                return None
            if role == "found":
                return (ck, found.name)
            if role == "target":
                return (ck, tgt.name)
            if role == "lookup":
                sp = cl.props.get(ser_owner.ser_as) if ser_owner.ser_as else None
                return (ck, sp.name) if sp is not None else "panic"
            return ("?", role)
        return (res(oc[1]), res(oc[2]))
    return None


def rule_desc(c, prog):
    R = "C06.desc"
    c.rule(R, "sibling agreement of rbx_binary::core::find_property_descriptors (+ find_serialized_from_canonical) and rbx_xml::core::find_property_descriptors: equal (kind x serialization) outcome tables except the declared DoesNotSerialize difference, and equal (canonical, serialized) descriptors on every class x visible property name of the bundled database")
    bf = prog.fn("rbx_binary::core::find_property_descriptors")
    xf = prog.fn("rbx_xml::core::find_property_descriptors")
    bt = extract_sym(prog, bf)
    xt = extract_sym(prog, xf)
    c.sample({"rule": R, "binary_table": {f"{k[0]}/{k[1]}": str(v) for k, v in sorted(bt.items())}, "xml_table": {f"{k[0]}/{k[1]}": str(v) for k, v in sorted(xt.items())}})
    declared = {"DoesNotSerialize": "binary returns the canonical descriptor with no serialized form, XML returns None; both readers/writers then drop the property",
                "_": "wildcard over the non_exhaustive enum: binary returns no serialized form, XML has `unimplemented!()` (dead: C16.oblig)",
                "<target not canonical>": "database error case (C16.data alias-canonical): both return None", "": "unknown PropertyKind (dead arm)"}
    for key in sorted(set(bt) | set(xt)):
        b, x = bt.get(key), xt.get(key)
        inst = f"row:{key[0]}/{key[1]}"
        if b == x:
            c.ok(R, inst)
        elif key[1] in declared and (key[1] != "DoesNotSerialize" or (b and b[0] == "some" and b[2] is None and x == ("none",))):
            c.ok(R, inst + ":declared-difference")
        else:
            c.violation(R, f"row|{key[0]}|{key[1]}", f"the two copies of find_property_descriptors disagree for a {key[0]} property with serialization {key[1]}: binary yields {b}, XML yields {x} — the same DOM would be written/read under different names by the two formats", xf.sp, instance=inst)
    c.floor(R, len(bt), 8, "table rows (binary)")
    # exhaustive evaluation over the database (when a row's outcome depends on something the table does not capture the
    # row itself has been reported above and the per-name comparison would only repeat it several thousand times)
    d = dbm.Database()
    n = 0
    diffs = []
    conditional = any(v and v[0] == "depends" for v in list(bt.values()) + list(xt.values()))
    for ck in ([] if conditional else sorted(d.classes)):
        names = set()
        for a in d.chain(ck):
            names |= set(d.classes[a].props)
        for nm in sorted(names):
            n += 1
            rb = evaluate(bt, d, ck, nm)
            rx = evaluate(xt, d, ck, nm)
            if rb == rx:
                continue
            # declared difference: DoesNotSerialize
            if rx is None and isinstance(rb, tuple) and rb[1] is None:
                continue
            diffs.append((ck, nm, rb, rx))
    c.rules[R]["obligations"] += n
    c.rules[R]["discharged"] += n - len(diffs)
    c.analysed["C06_desc_pairs_evaluated"] = n
    for ck, nm, rb, rx in diffs[:20]:
        c.violation(R, f"db|{ck}.{nm}", f"on the bundled database {ck}.{nm} resolves to {rb} through the binary copy and {rx} through the XML copy", "", instance=f"db:{ck}.{nm}")
    if not conditional:
        c.floor(R, n, 20000, "class x visible property pairs evaluated")


def rule_name(c, prog, R="C06.name"):
    """the instance name is not a database property: both readers must deliver the `Name` they find for every class"""
    c.rule(R, "the XML reader delivers the `Name` element to the instance name for every class: either it handles the name `Name` before and independently of the reflection lookup (as rbx_binary's PROP reader does), or that lookup resolves `Name` to a canonical, serializing descriptor called `Name` on every class of the bundled database")
    fn = prog.fn("rbx_xml::deserializer::deserialize_properties")
    # (A) a test of the element's name against the literal "Name" that is not nested under the descriptor's `Some` arm
    lookups = [x for x in core.walk_fn(fn) if x.get("k") == "Call" and (core.callee(x) or "").endswith("find_canonical_property_descriptor")]
    if not lookups:
        raise core.AnchorMissing("deserialize_properties: no find_canonical_property_descriptor call")
    desc_lids = set()
    for st in core.walk_lets(fn.body):
        if st.get("init") is not None and any(x is lookups[0] for x in core.walk(st["init"])) and st["pat"].get("k") == "Binding":
            desc_lids.add(st["pat"]["lid"])
    under_desc = set()
    for n in core.walk_fn(fn):
        if n.get("k") in ("If", "Match"):
            cond = n.get("c") or n.get("e") or {}
            if any(y.get("k") == "Path" and y.get("lid") in desc_lids for y in core.walk(cond)):
                under_desc |= {id(y) for y in core.walk(n)}
    special = [n for n in core.walk_fn(fn) if n.get("k") == "Binary" and n.get("op") == "==" and "Name" in (core.lit_value(n["l"]), core.lit_value(n["r"])) and id(n) not in under_desc]
    special += [n for n in core.walk_fn(fn) if n.get("k") == "Match" and n.get("src") == "Normal" and id(n) not in under_desc and any(core.lit_value(a["pat"].get("e") or {}) == "Name" or (a["pat"].get("k") == "Lit" and (a["pat"].get("lit") or {}).get("v") == "Name") for a in n["arms"])]
    # the writer's half: `Name` is written by a call of its own with the literal name, outside the loop that resolves
    # every DOM key through the database — or that lookup resolves `Name` on every class
    wfn = prog.fn("rbx_xml::serializer::serialize_instance")
    in_loops = set()
    for n in core.walk_fn(wfn):
        if core.as_for(n) is not None and n.get("k") != "DropTemps":
            in_loops |= {id(y) for y in core.walk(core.as_for(n)[2])}
    direct = [n for n in core.walk_fn(wfn) if n.get("k") == "Call" and (core.callee(n) or "").endswith("types::write_value_xml") and len(n["args"]) >= 3 and core.lit_value(n["args"][2]) == "Name" and id(n) not in in_loops]
    if direct:
        c.ok(R, "xml-writer:Name-written-directly")
    else:
        xt_w = extract_sym(prog, prog.fn("rbx_xml::core::find_property_descriptors"))
        d_w = dbm.Database()
        lost_w = []
        for ck in sorted(d_w.classes):
            r = evaluate(xt_w, d_w, ck, "Name")
            if not (isinstance(r, tuple) and isinstance(r[1], tuple)):
                lost_w.append(ck)
        if lost_w:
            c.violation(R, "xml-writer|Name|" + ",".join(lost_w), f"rbx_xml writes `Name` through the reflection lookup like any property; for {len(lost_w)} database classes ({', '.join(lost_w)}) that lookup finds no serializing `Name`, so with the default options the element is not written at all and the instance comes back named after its class (ErrorOnUnknown refuses to write such an instance)", wfn.sp, instance="xml-writer:Name-written-directly")
        else:
            c.ok(R, "xml-writer:Name-written-directly")
    if special:
        c.ok(R, "xml-reader:Name-before-lookup")
        return
    xt = extract_sym(prog, prog.fn("rbx_xml::core::find_property_descriptors"))
    d = dbm.Database()
    lost = []
    for ck in sorted(d.classes):
        r = evaluate(xt, d, ck, "Name")
        if not (isinstance(r, tuple) and isinstance(r[0], tuple) and r[0][1] == "Name"):
            lost.append(ck)
    c.rules[R]["obligations"] += len(d.classes)
    c.rules[R]["discharged"] += len(d.classes) - len(lost)
    if lost:
        c.violation(R, "xml-reader|Name|" + ",".join(lost), f"rbx_xml reads the `Name` element through the reflection lookup like any property; for {len(lost)} database classes ({', '.join(lost)}) that lookup finds no serializing `Name` (the class is rooted at Object, or shadows Instance.Name with a property that does not serialize), so the element is dropped as unknown and the instance is named after its class — rbx_binary keeps the name; with ErrorOnUnknown the reader rejects what the writer wrote", core.loc(lookups[0]), instance="xml-reader:Name-before-lookup")
    else:
        c.ok(R, "xml-reader:Name-before-lookup")


def rule_conv(c, prog):
    R = "C06.conv"
    c.rule(R, "off-type values accepted when writing are the same in both codecs: rbx_xml::conversion's (from, to) pairs vs the multi-variant encoder arms of the binary serialize_properties")
    conv = common.find_fn(prog, r"conversion::ConvertVariant>::try_convert_cow$|conversion::ConvertVariant for .*>::try_convert_cow$")
    m = tables.top_match(conv)
    xpairs = set()
    for arm in m["arms"]:
        p = arm["pat"]
        if p.get("k") == "Tuple" and len(p["pats"]) == 2:
            a, b = variants_of(p["pats"][0]), variants_of(p["pats"][1])
            for x in a:
                for y in b:
                    if x != "_" and y != "_":
                        xpairs.add((x, y))
    efn, em, earms = common.binary_encoder_arms(prog)
    bpairs = set()
    default = common.find_fn(prog, r"types::Type::to_default_rbx_type$")
    tm, _, _ = tables.simple_map(default)
    t2v = {vname(k[1]): vname(v[1]) for k, v in tm.items() if k[0] == "v"}
    for t, arm in earms.items():
        accepted = set()
        for n in core.walk(arm["body"]):
            if n.get("k") in ("Match", "If"):
                pats = [a["pat"] for a in n["arms"]] if n.get("k") == "Match" else ([core.strip(n["c"])["pat"]] if core.strip(n["c"]).get("k") == "LetExpr" else [])
                for p in pats:
                    for alt in tables.pat_alts(p):
                        if alt[0] == "ctor" and (alt[1] or "").startswith(common.VARIANT + "::"):
                            accepted.add(vname(alt[1]))
        for v in accepted:
            bpairs.add((v, t))
    natural = {("String", "String"), ("BinaryString", "String"), ("ContentId", "String"), ("Tags", "String"), ("Attributes", "String"), ("MaterialColors", "String"),
               ("Ref", "Ref"), ("OptionalCFrame", "OptionalCFrame")}
    boff = {(v, t) for v, t in bpairs if v != t and (v, t) not in natural}
    c.sample({"rule": R, "xml_conversions": sorted(xpairs), "binary_off_type": sorted(boff)})
    # map: binary off-type (variant, wire type) <-> xml (from, to)
    expect = {("Int32", "Int64"): ("Int32", "Int64"), ("Float32", "Float64"): ("Float32", "Float64"), ("Color3", "Color3uint8"): ("Color3", "Color3uint8"),
              ("Int32", "BrickColor"): ("Int32", "BrickColor"), ("EnumItem", "Enum"): ("EnumItem", "Enum")}
    tolerated_xml_only = {("Content", "ContentId"): "off-type input (Content given for a ContentId property) outside C06's quantifier",
                          ("ContentId", "Content"): "as above", ("BinaryString", "Tags"): "reader-side canonicalisation of blobs", ("BinaryString", "Attributes"): "reader-side",
                          ("BinaryString", "MaterialColors"): "reader-side", ("BinaryString", "String"): "string-family", ("String", "BinaryString"): "string-family",
                          ("String", "ContentId"): "string-family", ("ContentId", "String"): "string-family", ("Tags", "BinaryString"): "string-family writer side",
                          ("Attributes", "BinaryString"): "string-family writer side", ("MaterialColors", "BinaryString"): "string-family writer side",
                          ("String", "Tags"): "reader-side", ("BrickColor", "Int32"): "reader-side", ("Color3uint8", "Color3"): "reader-side canonicalisation (byte colour property read back as Color3)",
                          ("Int64", "Int32"): "narrowing on read when it fits", ("Float64", "Float32"): "narrowing on read", ("Enum", "EnumItem"): "reader-side"}
    for bp, xp in expect.items():
        inst = f"coercion:{bp[0]}->{bp[1]}"
        in_b, in_x = bp in boff, xp in xpairs
        if in_b and in_x:
            c.ok(R, inst)
        elif in_b != in_x:
            c.violation(R, f"coercion|{bp[0]}|{bp[1]}", f"writing a {bp[0]} into a {bp[1]} property is accepted by {'rbx_binary' if in_b else 'rbx_xml'} only: the same DOM serializes in one format and fails in the other", efn.sp if not in_b else conv.sp, instance=inst)
        else:
            c.violation(R, f"coercion|{bp[0]}|{bp[1]}|gone", f"neither codec accepts {bp[0]} for a {bp[1]} property any more (table out of date or coercion removed)", efn.sp, instance=inst)
    for bp in sorted(boff - set(expect)):
        c.violation(R, f"binary-only|{bp[0]}|{bp[1]}", f"rbx_binary accepts Variant::{bp[0]} in a {bp[1]} column; rbx_xml::conversion has no confirmed counterpart", efn.sp, instance=f"binary-only:{bp}")
    for xp in sorted(xpairs - set(expect.values())):
        if xp in tolerated_xml_only:
            c.ok(R, f"xml-only:{xp[0]}->{xp[1]}")
        else:
            c.violation(R, f"xml-only|{xp[0]}|{xp[1]}", f"rbx_xml converts {xp[0]} to {xp[1]}; unclassified against rbx_binary", conv.sp, instance=f"xml-only:{xp}")


def run(c, prog):
    from . import C01 as _C01
    _C01.rule_uid(core.Alias(c, "C06"), prog)     # the binary reader regenerates a repeated nil UniqueId, the XML reader keeps it
    from . import C15 as _C15, C01_rot as _C01_rot
    _C15.rule_sites(core.Alias(c, "C06"), prog, full=False)     # both readers: explicit value always stored, migrated only when absent — else the formats disagree on which spelling wins
    _C01_rot.run(core.Alias(c, "C06"), prog)     # the binary format's rotation ids must denote the matrix the XML format spells out
    _C01_rot.rule_exact(c, prog, "C06.rot", "the binary writer (the XML writer spells out all nine components)")
    from . import C16 as _C16
    from sa import db as _dbm
    _C16.rule_sername(core.Alias(c, "C06"), prog, _dbm.Database())     # two canonical properties written under one name lose a value
    rule_desc(c, prog)
    from . import C07 as _C07
    _C07.rule_finish_fifo(core.Alias(c, "C06"), prog)     # `identical tree shape, order`: the binary reader keeps file order
    _C15.rule_one(core.Alias(c, "C06"), prog, _dbm.Database())     # canonical + alias on one instance: XML keeps the alias's value, binary the canonical one
    rule_name(c, prog)
    rule_conv(c, prog)
    common.rule_writer_total(core.Alias(c, "C06"), prog, "C02.total", "xml")     # the two encodings can only be equivalent where both exist
    common.rule_writer_total(core.Alias(c, "C06"), prog, "C01.total", "binary")
    # equivalence of the two decodings needs each codec's own round trip: the shared clauses are re-checked under C06
    from . import C01_alg, C01_arm, C02, C07
    a = core.Alias(c, "C06")
    C01_alg.run(a, prog)
    C01_arm.run(a, prog)
    C02.rule_twopass(a, prog)
    C02.rule_tags(a, prog)
    from . import C02_type
    C02_type.run(a, prog)
    from . import C02_tok
    C02_tok.run(a, prog)
    C02_tok.rule_count_domain(c, prog, "C06.count")     # `arbitrary values of the declared type`: the binary codec has no minimum keypoint count
    from . import C05, C17_domain
    C05.rule_chars(c, prog, "C06.chars")     # the binary codec stores any text; the XML writer has to refuse or respell what XML cannot carry
    C17_domain.run(core.Alias(c, "C06"), prog, which=("font",))     # Some("") is None after a binary round trip and Some("") after an XML one
    C07.run_sanitisers(a, prog)
    c.not_decided += ["equality of decoded values across the two codecs (a pair of runs); follows from C01.arm, C02.type and C06.desc only as far as those clauses reach"]
