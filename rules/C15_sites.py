"""C15.sites / C15.win — the four places that apply PropertyMigration::perform, analysed by running each symbolically
(sa.sym) on a *migrating* scenario: the descriptor handed to the site is a concrete `Canonical { Migrate(MIG) }`,
`perform` is an opaque call, every store of a property (builder.add_property / props.insert / entry.insert /
write_value_xml / the value chosen for a binary column) is a sink.  Per site the paths give

   (facts, [sink (name, value)], exit)

from which the clauses are read: the migrated value goes under MIG.new_property_name and nowhere else, the legacy name
never stores on a migrating path that succeeded, the store of a migrated value happens only when the destination is
absent (explicit new value wins), and what happens when perform fails (sibling comparison).  How a site spells its
control flow (if-let / match / early return / `?` / Option plumbing / helpers) is irrelevant."""
import re

from sa import core, sym, wire
from . import common

PERFORM = "rbx_reflection::migration::PropertyMigration::perform"
PS = "rbx_reflection::database::PropertySerialization"
PK = "rbx_reflection::database::PropertyKind"
PD = "rbx_reflection::database::PropertyDescriptor"
MIG = ("in", "migration")
NEWNAME = sym.fld(MIG, "new_property_name")
C = sym.C


def contains(t, sub):
    if t == sub:
        return True
    if isinstance(t, (tuple, list)):
        return any(contains(x, sub) for x in t)
    return False


def facts(conds):
    out = []
    stack = list(conds)
    while stack:
        x = stack.pop()
        if isinstance(x, tuple) and x and x[0] == "and":
            stack.extend(x[1])
        else:
            out.append(x)
    return out


def unneg(f):
    """(atom, negated?) with `not` / `!` wrappers stripped"""
    neg = False
    g = f
    while isinstance(g, tuple) and g and (g[0] == "not" or (g[0] == "un" and g[1] == "!")):
        neg = not neg
        g = g[1] if g[0] == "not" else g[2]
    return g, neg


def opaque_prim(I, n, path, arg_nodes, env):
    args = tuple(I.eval(a, env) for a in arg_nodes)
    return ("app", path, args)


def sink_prim(name):
    def h(I, n, path, arg_nodes, env):
        args = [I.eval(a, env) for a in arg_nodes]
        I.emit(("sink", name, ("tup", tuple(args)), core.loc(n)))
        return sym.var(sym.OK, sym.UNIT) if name in ("write_value",) else sym.UNIT
    return h


def const_prim(value):
    def h(I, n, path, arg_nodes, env):
        for a in arg_nodes:
            I.eval(a, env)
        return value
    return h


def migrating_descriptor(tag="legacy"):
    kind = ("varn", PK + "::Canonical", (("serialization", sym.var(PS + "::Migrate", MIG)),))
    return ("st", PD, (("name", ("in", "legacy_name")), ("kind", kind), ("data_type", ("in", "dt")), ("scriptability", ("in", "s")), ("tags", ("in", "t"))))


def norm(t):
    """see through Option / Result plumbing: payload(optmap(r, m)) = m[some_payload(r) := payload(r)], fields of tuples"""
    if not isinstance(t, tuple) or not t:
        return t
    t = tuple(norm(x) if isinstance(x, tuple) else x for x in t)
    if t[0] == "payload" and isinstance(t[1], tuple) and t[1] and t[1][0] == "optmap" and t[3] in (0, "0"):
        r, m = t[1][1], t[1][2]
        return norm(sym.replace_term(m, ("some_payload", r), ("try", r)))
    if t[0] == "fld" and isinstance(t[1], tuple) and t[1] and t[1][0] in ("tup", "st"):
        v = sym.fld(t[1], t[2])
        if v != t:
            return norm(v)
    if t[0] == "is" and isinstance(t[1], tuple) and t[1] and t[1][0] == "optmap":
        return ("is", t[1][1], t[2])
    return t


def perform_terms(t, out=None):
    out = [] if out is None else out
    if isinstance(t, tuple):
        if t and t[0] == "app" and t[1] == PERFORM:
            out.append(t)
        for x in t:
            perform_terms(x, out)
    return out


def summarise(events, val=None):
    """[(facts, [(sink kind, argument terms)], exit kind, exit value)] over all paths; values that depend on an earlier
    event-free branch (phi terms) are split into their alternatives so that each path knows what it stores"""
    out = []
    for conds, evs, x, v in sym.event_paths(events, limit=4096):
        sink_evs = [e for e in evs if e[0] == "sink"]
        joint = ("tup", tuple(("tup", tuple(e[2][1])) for e in sink_evs))
        for cs, jt in sym.split_phis(joint, conds):
            sinks = [(e[1], tuple(norm(a) for a in args[1])) for e, args in zip(sink_evs, jt[1])]
            out.append(([norm(f) for f in facts(cs)], sinks, x, v))
    return out


def perform_state(fs, sinks=()):
    """'ok' | 'err' | 'infeasible' | None — what the path assumes about the result of perform (through `.ok()`,
    `.map(..)`, Option plumbing; a value obtained with `?` exists only on the success path)"""
    sts = set()
    for f in fs:
        g, neg = unneg(f)
        if isinstance(g, tuple) and g and g[0] == "is" and contains(g[1], PERFORM):
            if g[2] in (sym.OK, sym.SOME):
                sts.add("err" if neg else "ok")
            elif g[2] in (sym.ERR, sym.NONE):
                sts.add("ok" if neg else "err")
    if not sts:
        for k, a in sinks:
            if any(has_try_perform(x) for x in a):
                sts.add("ok")
    if len(sts) > 1:
        return "infeasible"
    return next(iter(sts)) if sts else None


def has_try_perform(t):
    if isinstance(t, tuple) and t:
        if t[0] == "try" and contains(t[1], PERFORM):
            return True
        return any(has_try_perform(x) for x in t)
    return False


def has_dest_absent_fact(fs, tests):
    """the path assumes the destination (new property) is absent: a negated / Vacant test from `tests`"""
    for f in fs:
        g, neg = unneg(f)
        if not isinstance(g, tuple) or not g:
            continue
        if g[0] == "app" and any(g[1].endswith(t) for t in tests["present"]) and contains(g, NEWNAME):
            if neg:
                return True
        if g[0] == "is" and contains(g[1], NEWNAME) and g[2].endswith("Entry::Vacant") and not neg:
            return True
        if g[0] == "is" and contains(g[1], NEWNAME) and g[2].endswith("Entry::Occupied") and neg:
            return True
    return False


def has_dest_present_fact(fs, tests):
    """the path assumes the destination (new property) is present already"""
    for f in fs:
        g, neg = unneg(f)
        if not isinstance(g, tuple) or not g:
            continue
        if g[0] == "app" and any(g[1].endswith(t) for t in tests["present"]) and contains(g, NEWNAME) and not neg:
            return True
        if g[0] == "is" and contains(g[1], NEWNAME) and ((g[2].endswith("Entry::Occupied") and not neg) or (g[2].endswith("Entry::Vacant") and neg)):
            return True
    return False


TESTS = {"present": ("InstanceBuilder::has_property", "::contains_key", "::contains")}
CANON_OF_KEY = ("in", "canonical_descriptor_of_this_key")


def has_other_spelling_fact(fs):
    """the path leaves this key alone because the SAME property is on the instance under its canonical spelling, which is
    another key (`canonical.name != property_name && instance.properties.contains_key(canonical.name)`): that key's own
    iteration carries the value, migration included.  Both halves are required — without the inequality the canonical
    key would skip itself."""
    present = differs = False
    stack = list(fs)
    while stack:
        f = stack.pop()
        g, neg = unneg(f)
        if not isinstance(g, tuple) or not g:
            continue
        if g[0] == "op" and g[1] == "&&" and not neg:
            stack.extend([g[2], g[3]])
            continue
        if g[0] == "and" and not neg:
            stack.extend(g[1])
            continue
        if g[0] == "app" and any(g[1].endswith(t) for t in TESTS["present"]) and contains(g, CANON_OF_KEY) and not neg:
            present = True
        if g[0] == "op" and g[1] in ("!=", "==") and contains(g, CANON_OF_KEY) and ((g[1] == "!=") != neg):
            differs = True
    return present and differs


def has_already_written_fact(fs):
    """the path leaves this key alone because an element of the same serialized name has been written for this instance
    (`!written.insert(name)` / `written.contains(name)` on a set local to the function)"""
    for f in fs:
        g, neg = unneg(f)
        if isinstance(g, tuple) and g and g[0] == "app" and isinstance(g[1], str) and ((g[1].endswith("HashSet::<T, S, A>::insert") or g[1].endswith("BTreeSet::<T, A>::insert")) and neg or (g[1].endswith(("Set::<T, S, A>::contains", "Set::<T, A>::contains")) and not neg)):
            return True
    return False


def analyse_paths(paths, name_idx, value_idx, store_kinds, loop_body=False):
    """per-site verdict dict from summarised paths"""
    res = {"migrated_store": 0, "bad_name": [], "unguarded": 0, "legacy_store_on_ok": 0, "err": set(), "ok_paths": 0, "legacy_store_on_err": 0, "legacy_store_on_err_unguarded": 0, "dropped_unmigrated": []}
    for fs, sinks, x, v in paths:
        st = perform_state(fs, sinks)
        stores = [(k, a) for k, a in sinks if k in store_kinds]
        if st == "ok" and any(has_try_perform(x) for k, a in stores for x in a) and not any(unneg(f)[0][0] == "is" and contains(unneg(f)[0], PERFORM) for f in fs if isinstance(unneg(f)[0], tuple) and unneg(f)[0]):
            res["err"].add("hard error (returns Err)")      # `perform(..)?`: the failure leaves through the error exit
        mig_stores = [(k, a) for k, a in stores if perform_terms(a[value_idx])]
        if st is None and not stores and x not in ("err",) and not (loop_body and x == "return") and not (x == "return" and v is not None and not sym.is_var(v, sym.OK) and v != sym.UNIT) and not has_dest_present_fact(fs, TESTS) and not has_other_spelling_fact(fs) and not has_already_written_fact(fs):
            # the legacy value is let go without an attempt to migrate it although nothing says the new property is there
            res["dropped_unmigrated"].append([sym.term_str(f, 3) for f in fs][:4])
        if st == "ok":
            res["ok_paths"] += 1
            for k, a in mig_stores:
                res["migrated_store"] += 1
                if not contains(a[name_idx], NEWNAME):
                    res["bad_name"].append(sym.term_str(a[name_idx], 4))
                if not has_dest_absent_fact(fs, TESTS):
                    res["unguarded"] += 1
            for k, a in stores:
                if not perform_terms(a[value_idx]) and contains(a[name_idx], ("in", "legacy_name")):
                    res["legacy_store_on_ok"] += 1
        elif st == "err":
            if x in ("return", "err") and v is not None and not sym.is_var(v, sym.OK):
                res["err"].add("hard error (returns Err)")
            elif x == "err":
                res["err"].add("hard error (returns Err)")
            elif any(not perform_terms(a[value_idx]) for k, a in stores):
                res["err"].add("stores the unmigrated value")
                res["legacy_store_on_err"] += 1
                if not has_dest_absent_fact(fs, TESTS):
                    res["legacy_store_on_err_unguarded"] += 1
            else:
                res["err"].add("stores nothing (drops / skips the property)")
    return res


# ------------------------------------------------------------------------------------------------ the four sites

def site_binary_reader(prog):
    fn = prog.fn("rbx_binary::deserializer::state::add_property")
    CP = "rbx_binary::deserializer::state::CanonicalProperty"
    cp = ("st", CP, (("name", ("in", "legacy_name")), ("ty", ("in", "ty")), ("migration", sym.var(sym.SOME, sym.var(PS + "::Migrate", MIG)))))
    roles = {}
    for prm in fn.params:
        ty = prm.get("ty") or ""
        if "CanonicalProperty" in ty:
            roles[prm["lid"]] = cp
        elif ty.endswith("variant::Variant"):
            roles[prm["lid"]] = ("in", "value")
        else:
            roles[prm["lid"]] = ("in", prm["name"])
    prims = [(re.compile(r"InstanceBuilder::add_property$"), sink_prim("store"))]
    I, val, ex = wire.run_region(prog, fn.body, roles, prims, depth=6, opaque={PERFORM, "rbx_dom_weak::instance::InstanceBuilder::has_property"}, split_try=lambda t: contains(t, PERFORM))
    paths = summarise(I.events)
    res = analyse_paths(paths, 1, 2, {"store"})
    res["err_paths"] = err_paths_need_absent(paths)
    return fn, res


def site_xml_writer(prog):
    fn = prog.fn("rbx_xml::serializer::serialize_instance")
    desc = migrating_descriptor()
    prims = [(re.compile(r"types::write_value_xml$"), sink_prim("write_value")),
             (re.compile(r"XmlEventWriter::<W>::write$"), const_prim(sym.var(sym.OK, sym.UNIT))),
             (re.compile(r"core::find_serialized_property_descriptor$"), const_prim(sym.var(sym.SOME, desc))),
             (re.compile(r"EncodeOptions::<'db>::use_reflection$"), const_prim(C(True))),
             (re.compile(r"core::find_canonical_property_descriptor$"), const_prim(sym.var(sym.SOME, CANON_OF_KEY))),
             (re.compile(r"ConvertVariant::try_convert_ref$|ConvertVariant::try_convert_cow$"), const_prim(sym.var(sym.OK, ("in", "converted")))),
             (re.compile(r"^rbx_xml::serializer::serialize_instance$"), const_prim(sym.var(sym.OK, sym.UNIT)))]
    env = {p["lid"]: ("in", p["name"]) for p in fn.params}
    I, val, ex = wire.run_region(prog, fn.body, env, prims, depth=5, opaque={PERFORM, "rbx_xml::serializer::EmitState::<'db>::map_id"})
    # the property loop: the rep whose body applies perform
    loops = []

    def find(evs):
        for e in evs:
            if e[0] == "rep":
                if any(contains(x, PERFORM) for x in e[2]):
                    loops.append(e)
                find(e[2])
            elif e[0] == "alt":
                for alt in e[1]:
                    find(alt[1])
    find(I.events)
    if len(loops) != 1:
        raise core.AnchorMissing(f"serialize_instance: expected one loop applying PropertyMigration::perform, found {len(loops)}")
    paths = summarise(loops[0][2])
    # sink args: (writer, state, name, value)
    return fn, analyse_paths(paths, 2, 3, {"write_value"}, loop_body=True)


def site_binary_writer(prog):
    fn = common.find_fn(prog, r"serializer::state::SerializerState.*::serialize_properties$")
    clos = [n for n in core.walk_fn(fn) if n.get("k") == "Closure" and any(x.get("k") == "MethodCall" and core.callee(x) == PERFORM for x in core.walk(n["body"]))]
    inner = [n for n in clos if not any(m is not n and any(y is m for y in core.walk(n["body"])) for m in clos)]
    if len(inner) != 1:
        raise core.AnchorMissing(f"serialize_properties: expected one closure applying PropertyMigration::perform, found {len(inner)}")
    clo = inner[0]
    env = {}
    # captured locals: prop_info with a migration
    for x in core.walk(clo["body"]):
        if x.get("k") == "Path" and x.get("res") == "local" and x.get("lid") not in env:
            ty = (x.get("ty") or "") + (x.get("aty") or "")
            if "PropInfo" in ty:
                env[x["lid"]] = ("st", "rbx_binary::serializer::state::PropInfo", (("migration", sym.var(sym.SOME, MIG)), ("default_value", ("in", "default")), ("aliases", ("in", "aliases")),
                                                                                    ("serialized_name", ("in", "sername")), ("prop_type", ("in", "ptype"))))
    for prm in clo.get("params", []):
        p = prm.get("pat") or prm
        if p.get("k") == "Binding":
            env[p["lid"]] = ("in", "value")
    I, val, ex = wire.run_region(prog, clo["body"], env, [], depth=5, opaque={PERFORM})
    # the closure's *value* is what gets written to the column: turn value alternatives into store sinks
    paths = []
    for conds, evs, x, v in sym.event_paths(I.events):
        for cs2, alt in sym.value_alternatives(sym.resolve(val, conds) if val is not None else v):
            if sym.consistent(conds + cs2):
                paths.append((facts(conds + cs2), [("store", (NEWNAME, alt))], x, v))
    res = analyse_paths(paths, 0, 1, {"store"})
    res["unguarded"] = 0      # the destination of a column is fixed by collect_type_info / C08.own, not decided here
    return fn, res


def site_xml_reader(prog):
    fn = prog.fn("rbx_xml::deserializer::deserialize_properties")
    desc = migrating_descriptor()
    prims = [(re.compile(r"core::find_canonical_property_descriptor$"), const_prim(sym.var(sym.SOME, desc))),
             (re.compile(r"types::read_value_xml$"), const_prim(sym.var(sym.OK, sym.var(sym.SOME, ("in", "value"))))),
             (re.compile(r"ConvertVariant::try_convert$"), const_prim(sym.var(sym.OK, ("in", "value")))),
             (re.compile(r"DecodeOptions::<'db>::use_reflection$"), const_prim(C(True))),
             (re.compile(r"deserializer_core::XmlEventReader::<R>::"), opaque_prim),
             (re.compile(r"HashMap::<K, V, S(, A)?>::insert$|VacantEntry::<'a, K, V(, A)?>::insert$|OccupiedEntry::<'a, K, V(, A)?>::insert$|Entry::<'a, K, V(, A)?>::or_insert(_with)?$"), sink_prim("store"))]
    env = {p["lid"]: ("in", p["name"]) for p in fn.params}
    I, val, ex = wire.run_region(prog, fn.body, env, prims, depth=5, opaque={PERFORM}, split_try=lambda t: contains(t, PERFORM))
    loops = []

    def find(evs):
        for e in evs:
            if e[0] == "rep":
                if any(contains(x, PERFORM) for x in e[2]):
                    loops.append(e)
                find(e[2])
            elif e[0] == "alt":
                for alt in e[1]:
                    find(alt[1])
    find(I.events)
    if len(loops) != 1:
        raise core.AnchorMissing(f"deserialize_properties: expected one loop applying PropertyMigration::perform, found {len(loops)}")
    paths = summarise(loops[0][2])
    # stores: HashMap::insert(map, key, value) -> name idx 1, value idx 2; VacantEntry::insert(entry, value): the entry term carries the key
    norm = []
    for fs, sinks, x, v in paths:
        ns = []
        for k, a in sinks:
            if k == "store" and len(a) == 2:
                ns.append((k, (a[0], a[0], a[1])))
            else:
                ns.append((k, a))
        norm.append((fs, ns, x, v))
    res = analyse_paths(norm, 1, 2, {"store"}, loop_body=True)
    res["err_paths"] = err_paths_need_absent(norm)
    return fn, res


# ------------------------------------------------------------------------------------------------ explicit (non-migrating) scenario

def plain_descriptor():
    kind = ("varn", PK + "::Canonical", (("serialization", sym.var(PS + "::Serializes")),))
    return ("st", PD, (("name", ("in", "explicit_name")), ("kind", kind), ("data_type", ("in", "dt")), ("scriptability", ("in", "s")), ("tags", ("in", "t"))))


PRESENCE = ("InstanceBuilder::has_property", "::contains_key", "::contains", "Entry::Vacant", "Entry::Occupied", "::get", "::entry")


def presence_facts(fs):
    """facts of a path that test whether a property is already stored"""
    out = []
    for f in fs:
        g, neg = unneg(f)
        txt = repr(g)
        if any(p in txt for p in PRESENCE) and ("has_property" in txt or "Entry::" in txt or "contains_key" in txt or "props" in txt):
            out.append(sym.term_str(g, 4) if hasattr(sym, "term_str") else txt[:80])
    return out


def analyse_explicit(paths, name_idx, value_idx):
    """an explicit (non-migrating) property value: every path stores it, and no path's decision to store looks at what
    is already there (a later explicit value must replace an earlier migrated one)"""
    res = {"paths": 0, "stores": 0, "silent_skips": 0, "guarded": []}
    for fs, sinks, x, v in paths:
        if x not in (None, "continue"):
            continue        # error exits and the end of the element list are not paths of one explicit property
        res["paths"] += 1
        st = [(k, a) for k, a in sinks if k == "store" and contains(a[value_idx], ("in", "value"))]
        cond_st = [(k, a) for k, a in sinks if k == "store_if_absent" and contains(a[value_idx], ("in", "value"))]
        pf = presence_facts(fs)
        if cond_st and not st:
            # `entry(name).or_insert(value)`: stored only if nothing is there — a decision on presence
            pf = list(pf) + ["entry(..).or_insert(value)"]
            st = cond_st
        if st:
            res["stores"] += 1
        else:
            res["silent_skips"] += 1
        if pf:
            res["guarded"].append(pf[0])
    return res


def explicit_binary_reader(prog):
    fn = prog.fn("rbx_binary::deserializer::state::add_property")
    CP = "rbx_binary::deserializer::state::CanonicalProperty"
    cp = ("st", CP, (("name", ("in", "explicit_name")), ("ty", ("in", "ty")), ("migration", sym.var(sym.NONE))))
    roles = {}
    for prm in fn.params:
        ty = prm.get("ty") or ""
        if "CanonicalProperty" in ty:
            roles[prm["lid"]] = cp
        elif ty.endswith("variant::Variant"):
            roles[prm["lid"]] = ("in", "value")
        else:
            roles[prm["lid"]] = ("in", prm["name"])
    prims = [(re.compile(r"InstanceBuilder::add_property$"), sink_prim("store"))]
    I, val, ex = wire.run_region(prog, fn.body, roles, prims, depth=6, opaque={PERFORM, "rbx_dom_weak::instance::InstanceBuilder::has_property"})
    return fn, analyse_explicit(summarise(I.events), 1, 2)


def explicit_xml_reader(prog):
    fn = prog.fn("rbx_xml::deserializer::deserialize_properties")
    desc = plain_descriptor()
    prims = [(re.compile(r"core::find_canonical_property_descriptor$"), const_prim(sym.var(sym.SOME, desc))),
             (re.compile(r"types::read_value_xml$"), const_prim(sym.var(sym.OK, sym.var(sym.SOME, ("in", "value"))))),
             (re.compile(r"ConvertVariant::try_convert$"), const_prim(sym.var(sym.OK, ("in", "value")))),
             (re.compile(r"DecodeOptions::<'db>::use_reflection$"), const_prim(C(True))),
             (re.compile(r"deserializer_core::XmlEventReader::<R>::"), opaque_prim),
             (re.compile(r"VacantEntry::<'a, K, V(, A)?>::insert$|Entry::<'a, K, V(, A)?>::or_insert(_with)?$"), sink_prim("store_if_absent")),
             (re.compile(r"HashMap::<K, V, S(, A)?>::insert$|OccupiedEntry::<'a, K, V(, A)?>::insert$"), sink_prim("store"))]
    env = {p["lid"]: ("in", p["name"]) for p in fn.params}
    I, val, ex = wire.run_region(prog, fn.body, env, prims, depth=5, opaque={PERFORM})
    loops = []

    def find(evs):
        for e in evs:
            if e[0] == "rep":
                if any(contains(x, ("in", "value")) for x in e[2]):
                    loops.append(e)
                find(e[2])
            elif e[0] == "alt":
                for alt in e[1]:
                    find(alt[1])
    find(I.events)
    outer = [l for l in loops if not any(l is not m and contains(m[2], l) for m in loops)]
    if len(outer) != 1:
        raise core.AnchorMissing(f"deserialize_properties: expected one property loop storing the value read, found {len(outer)}")
    paths = summarise(outer[0][2])
    normp = []
    for fs, sinks, x, v in paths:
        ns = [((k, (a[0], a[0], a[1])) if k in ("store", "store_if_absent") and len(a) == 2 else (k, a)) for k, a in sinks]
        normp.append((fs, ns, x, v))
    return fn, analyse_explicit(normp, 1, 2)


def err_paths_need_absent(paths, store_kinds=("store",)):
    """paths on which a failed perform() ends decoding with an error: how many of them know that the destination is absent"""
    total = blind = 0
    for fs, sinks, x, v in paths:
        if perform_state(fs, sinks) != "err":
            continue
        hard = x == "err" or (x == "return" and v is not None and not sym.is_var(v, sym.OK))
        if not hard:
            continue
        total += 1
        if not has_dest_absent_fact(fs, TESTS):
            blind += 1
    return total, blind
