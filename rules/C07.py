"""C07 — serializer output is deterministic.  C07.hash (hash-ordered iteration reachable from the serializers must be
order-insensitive or sanitised by a sort before any use that reaches the output), C07.ord (containers that must stay
ordered), C07.ref (no clocks / RNG / Ref formatting on serializer paths), C07.fix (readers rebuild order deterministically)."""
import re

from sa import decision, core, flow, discipline as D
from . import common

HASH_ITER = re.compile(
    r"(std::collections::hash::(map::HashMap|set::HashSet)::<.*>::(iter|iter_mut|keys|values|values_mut|into_keys|into_values|drain|retain|extract_if)$)"
    r"|(<&?('\w+ )?(mut )?(std::collections::hash::(map::HashMap|set::HashSet)|ahash::hash_(map::AHashMap|set::AHashSet)|hashbrown::\w+::Hash(Map|Set))<.*> as core::iter::traits::collect::IntoIterator>::into_iter$)"
    r"|(hashbrown::\w+::Hash(Map|Set)::<.*>::(iter|iter_mut|keys|values|values_mut|drain|retain)$)")
SORT = re.compile(r"(core|alloc)::slice::<impl \[T\]>::(sort|sort_by|sort_by_key|sort_by_cached_key|sort_unstable|sort_unstable_by|sort_unstable_by_key)$")
NONDET = re.compile(r"(std::time::(SystemTime|Instant)::now|rand::|rbx_types::unique_id::UniqueId::now|rbx_types::referent::Ref::new$|std::thread::current|std::process::id|core::fmt::Pointer|std::collections::hash::map::RandomState::new|std::env::)")

SER_ROOTS = r"^rbx_binary::serializer::Serializer::<'db>::serialize$|^rbx_binary::to_writer$|^rbx_xml::serializer::encode_internal$|^rbx_xml::to_writer$|^rbx_xml::to_writer_default$"

# (function (closure root), container field root) -> (classification, sanitiser requirement)
SITES = {
    ("rbx_binary::serializer::state::SerializerState::<'dom, 'db, W>::collect_type_info", "instance.properties"):
        ("order-insensitive except shared_strings.push", "sort-shared-strings"),
    ("rbx_xml::serializer::serialize_instance", "instance.properties"):
        ("collected into property_buffer", "sort-before-drain"),
}


def iter_sites(prog, g, roots):
    reach = g.reach(roots)
    out = []
    for path in sorted(reach):
        fn = prog.fns[path]
        for i, cal, gen, t in D.mir_calls(fn):
            if cal and HASH_ITER.search(cal):
                out.append((path, i, cal, t))
    return reach, out


def container_root(prog, fn, t):
    """source-level root of the iterated container, from the HIR node at the same span"""
    sp = t.get("sp")
    root_fn = prog.fns.get(fn.d.get("root")) if fn.dk == "Closure" else fn
    best = None
    for n in core.walk_fn(root_fn):
        if n.get("sp") == sp or (n.get("sp") or "").startswith((sp or "?").rsplit(":", 2)[0]):
            if n.get("k") == "MethodCall" and n["m"] in ("iter", "keys", "values", "drain", "iter_mut", "values_mut", "into_iter", "retain"):
                r, p = core.place_root(n["recv"])
                best = ".".join([str(r)] + [x for x in p if not x.startswith(".")])
                break
    if best is None:
        for n in core.walk_fn(root_fn):
            fl = core.as_for(n)
            if fl is not None and (fl[1].get("sp") == sp or sp and sp.split(":")[1] == (fl[1].get("sp") or "::").split(":")[1]):
                r, p = core.place_root(fl[1])
                best = ".".join([str(r)] + [x for x in p if not x.startswith(".")])
    return best


def first_match_exit(prog, root_fn, cr):
    """description of a value-bearing early exit in the for-loop of `root_fn` that iterates container `cr`, or None"""
    for n in core.walk_fn(root_fn):
        if n.get("k") == "DropTemps":
            continue
        fl = core.as_for(n)
        if fl is None:
            continue
        r, p = core.place_root(fl[1])
        here = ".".join([str(r)] + [x for x in p if not x.startswith(".")])
        if here != cr:
            continue
        for y in core.walk(fl[2], into_closures=False):
            if y.get("k") == "Ret" and y.get("e") is not None and core.as_try(y) is None:
                fp = core.fingerprint(y["e"], 3)
                if "Err(" in fp or any(core.as_try(w) is not None and any(v is y for v in core.walk(w)) for w in core.walk(fl[2])):
                    continue
                return f"`return {fp[:50]}`"
            if y.get("k") == "Break" and y.get("e") is not None:
                return f"`break {core.fingerprint(y['e'], 3)[:50]}`"
    return None


def run_sanitisers(c, prog):
    R = "C07.hash"
    c.rule(R, "order-sensitive results of hash iteration are sanitised: the XML property buffer is sorted by property name before it is drained; binary shared strings are sorted by content hash after the traversal and before SSTR indices are assigned")
    # sanitiser 1: XML property buffer sorted between extend and drain
    fn = prog.fn("rbx_xml::serializer::serialize_instance")
    cfg = D.CFG(fn)
    from .domutil import local_root
    buf_params = [i + 1 for i, prm in enumerate(fn.params) if "alloc::vec::Vec<" in (prm.get("ty") or "")]

    def on_buffer(t):
        r = local_root(fn, t["args"][0], depth=12) if t.get("args") else None
        return r is not None and r[0] in buf_params
    # fills of the buffer parameter: extend(..) or push(..) (a loop of pushes is the same fill)
    ext = [i for i, cal, gen, t in D.mir_calls(fn) if cal and re.search(r"(Vec::<T, A>::(extend|push|extend_from_slice|append|insert)|as core::iter::traits::collect::Extend<.*>>::extend)$", cal) and on_buffer(t)]
    drains = [i for i, cal, gen, t in D.mir_calls(fn) if cal and cal.endswith("Vec::<T, A>::drain") and on_buffer(t)]
    sorts = {i for i, cal, gen, t in D.mir_calls(fn) if cal and SORT.search(cal)}
    ok = bool(ext and drains and sorts) and all(cfg.must_pass(e, sorts, drains) for e in ext)
    # the sort key must be the property name (first tuple element): closure returns `*key` of pattern (key, _)
    key_ok = False
    for n in core.walk_fn(fn):
        if n.get("k") == "MethodCall" and n["m"].startswith("sort") and core.place_root(n["recv"])[0] in [prm.get("name") for prm in fn.params if "alloc::vec::Vec<" in (prm.get("ty") or "")]:
            clo = core.strip(n["args"][0]) if n["args"] else {}
            if clo.get("k") == "Closure":
                p = clo["params"][0]
                while p.get("k") in ("Ref", "Deref"):
                    p = p["p"]
                if p.get("k") == "Tuple" and p["pats"][0].get("k") == "Binding":
                    b = core.strip(clo["body"])
                    if b.get("lid") == p["pats"][0]["lid"]:
                        key_ok = True
            elif not n["args"]:
                key_ok = True   # plain sort() of (name, value) tuples orders by name first
    if ok and key_ok:
        c.ok(R, "sanitiser:xml-sort-before-drain")
    else:
        c.violation(R, "sanitiser|xml-sort", f"serialize_instance: the property buffer filled from the hash map is not sorted by the (unique) property name on every path before it is drained into the output (sort present={bool(sorts)}, dominates={ok}, key is the DOM property name={key_ok})", fn.sp, instance="sanitiser:xml-sort-before-drain")
    # sanitiser 2: shared_strings sorted before ids are assigned, ids assigned by enumerate over the sorted vec
    fn = common.find_fn(prog, r"serializer::state::SerializerState.*::add_instances$")
    cfg = D.CFG(fn)
    collects = [i for i, cal, gen, t in D.mir_calls(fn) if cal and cal.endswith("::collect_type_info")]
    sorts = {i for i, cal, gen, t in D.mir_calls(fn) if cal and SORT.search(cal)}
    sort_nodes = [n for n in core.walk_fn(fn) if n.get("k") == "MethodCall" and n["m"].startswith("sort") and core.place_root(n["recv"]) == ("self", ["shared_strings"])]
    dom = cfg.dominators()
    id_blocks = [i for i, cal, gen, t in D.mir_calls(fn) if cal and cal.endswith("HashMap::<K, V, S, A>::insert")]
    # `ids.extend(strings.iter().cloned().enumerate().map(|(i, s)| (s, i as u32)))` is the same assignment
    ext_nodes = []
    for n in core.walk_fn(fn):
        if n.get("k") == "MethodCall" and n["m"] == "extend" and core.place_root(n["recv"]) == ("self", ["shared_string_ids"]) and n["args"]:
            names_, base_ = [], core.strip(n["args"][0])
            while base_.get("k") == "MethodCall":
                names_.append(base_["m"])
                base_ = core.strip(base_["recv"])
            if "enumerate" in names_ and "shared_strings" in core.place_root(base_)[1] and core.place_root(base_)[0] == "self":
                ext_nodes.append(n)
    ext_spans = {n.get("sp") for n in ext_nodes}
    id_blocks += [i for i, cal, gen, t in D.mir_calls(fn) if t.get("sp") in ext_spans and cal and cal.endswith("::extend")]
    after_sort = set()
    for sb in sorts:
        after_sort |= cfg.reachable_from(sb) - {sb}
    ok_sort = bool(sorts) and bool(sort_nodes) and bool(id_blocks) and all(any(sb in dom.get(ib, ()) for sb in sorts) for ib in id_blocks) \
        and not any(ci in after_sort for ci in collects)
    # id assignment: only in add_instances, after the sort, from enumerate(self.shared_strings)
    assign_ok = False
    for n in core.walk_fn(fn):
        fl = core.as_for(n)
        if fl is not None:
            it = core.strip(fl[1])
            if it.get("k") == "MethodCall" and it["m"] == "enumerate" and core.place_root(it["recv"])[:2] == ("self", core.place_root(it["recv"])[1]) and "shared_strings" in core.place_root(it["recv"])[1]:
                if any(x.get("k") == "MethodCall" and x["m"] == "insert" and core.place_root(x["recv"]) == ("self", ["shared_string_ids"]) for x in core.walk(fl[2])):
                    assign_ok = True
    if ext_nodes:
        assign_ok = True
    # no other function stores a non-dummy id
    other_ids = []
    for f2 in prog.lib_fns():
        if f2.body is None or f2.path == fn.path or "serializer::state" not in f2.path:
            continue
        for x in core.walk_fn(f2):
            if x.get("k") == "MethodCall" and x["m"] == "insert" and core.place_root(x["recv"]) == ("self", ["shared_string_ids"]):
                if core.lit_value(x["args"][1]) != 0:
                    other_ids.append((f2.path, core.loc(x)))
    # SSTR chunk written by plain iteration over self.shared_strings (checked in C03.count); no sort elsewhere
    stray_sorts = []
    for f2 in prog.lib_fns():
        if f2.body is None or f2.path == fn.path:
            continue
        for x in core.walk_fn(f2):
            if x.get("k") == "MethodCall" and x["m"].startswith("sort") and core.place_root(x["recv"]) == ("self", ["shared_strings"]):
                stray_sorts.append(f2.path)
    if ok_sort and assign_ok and not other_ids and not stray_sorts:
        c.ok(R, "sanitiser:shared-strings-sorted-before-ids")
    else:
        c.violation(R, "sanitiser|sstr-sort", f"binary serializer: shared strings discovered in hash-iteration order must be sorted (by content hash) after the traversal and before SSTR indices are assigned from that sorted order (sort after traversal={ok_sort}, ids from enumerate(sorted)={assign_ok}, ids assigned elsewhere={other_ids}, re-sorted elsewhere={stray_sorts}): otherwise chunk order or the indices stored in PROP chunks depend on property-map iteration order", fn.sp, instance="sanitiser:shared-strings-sorted-before-ids")



def vec_kept_sorted(prog, adt, field):
    """every mutation of the Vec field `adt.field` keeps it sorted: `v.insert(i, x)` with `i` bound from the `Err(i)`
    of `v.binary_search*(..)` on the same field, or a `sort*` of the field later in the same function"""
    crate = adt.split("::", 1)[0]
    MUT = {"push", "insert", "extend", "extend_from_slice", "append", "push_back", "push_front", "swap", "reverse", "rotate_left", "rotate_right", "splice", "drain", "retain", "truncate", "remove", "swap_remove", "dedup", "sort", "sort_by", "sort_by_key", "sort_unstable", "sort_unstable_by", "sort_unstable_by_key", "clear"}
    ORDER_SAFE = {"retain", "truncate", "remove", "dedup", "clear", "drain", "sort", "sort_by", "sort_by_key", "sort_unstable", "sort_unstable_by", "sort_unstable_by_key"}
    seen = 0
    for fn in prog.lib_fns():
        if fn.crate != crate or fn.body is None:
            continue
        muts = []
        for n in core.walk_fn(fn):
            if n.get("k") == "MethodCall" and n["m"] in MUT and core.place_root(n["recv"])[1][-1:] == [field] and "alloc::vec::Vec<" in ((n["recv"].get("ty") or "") + (n["recv"].get("aty") or "")):
                muts.append(n)
        if not muts:
            continue
        sorts_after = [n for n in muts if n["m"].startswith("sort")]
        for n in muts:
            seen += 1
            if n["m"] in ORDER_SAFE:
                continue
            if n["m"] == "insert" and len(n["args"]) == 2:
                idx = core.strip(n["args"][0])
                # the index local is bound by a pattern over `<field>.binary_search*(..)`
                ok = False
                for m in core.walk_fn(fn):
                    pats = []
                    if m.get("k") == "LetExpr":
                        pats = [(m["pat"], m["init"])]
                    elif m.get("k") == "Match" and m.get("src") == "Normal":
                        pats = [(a["pat"], m["e"]) for a in m["arms"]]
                    for pat, init in pats:
                        i0 = core.strip(init)
                        if i0.get("k") == "MethodCall" and i0["m"].startswith("binary_search") and core.place_root(i0["recv"])[1][-1:] == [field]:
                            lids = _pat_lids(pat)
                            if idx.get("lid") in lids and "Err" in core.pat_str(pat):
                                ok = True
                if ok:
                    continue
            if sorts_after and any(_spk(x) > _spk(n) for x in sorts_after):
                continue
            return False
    return seen > 0


def _pat_lids(p):
    out, stack = [], [p]
    while stack:
        x = stack.pop()
        if isinstance(x, dict):
            if x.get("k") == "Binding" and "lid" in x:
                out.append(x["lid"])
            stack.extend(v for v in x.values() if isinstance(v, (dict, list)))
        elif isinstance(x, list):
            stack.extend(x)
    return out


def _spk(n):
    parts = (n.get("sp") or "").split(":")
    try:
        return (int(parts[1]), int(parts[2]))
    except (IndexError, ValueError):
        return (0, 0)


def _contains(t, sub):
    if t == sub:
        return True
    if isinstance(t, (tuple, list)):
        return any(_contains(x, sub) for x in t)
    return False


def rule_finish_fifo(c, prog, R="C07.fix", register=True):
    """the binary reader builds the tree in file order: roots in PRNT order, children appended in PRNT order"""
    if register:
        c.rule(R, "DeserializerState::finish walks the instances first-in first-out from the roots in PRNT order (queue operations push_back / pop_front only): a stack, or a pop from the other end, reverses sibling or root order")
    fn = common.find_fn(prog, r"deserializer::state::DeserializerState.*::finish$")
    qops = [cal.rsplit("::", 1)[-1] for i, cal, gen, t in D.mir_calls(fn) if cal and ("VecDeque::<T, A>::" in cal or "Vec::<T, A>::" in cal or "Vec::<T>::" in cal)]
    order_ops = [q for q in qops if q in ("push_back", "pop_front", "push_front", "pop_back", "pop", "push", "insert", "remove", "swap_remove", "reverse", "drain", "truncate")]
    if set(order_ops) <= {"push_back", "pop_front"} and "pop_front" in order_ops:
        c.ok(R, "binary-finish:fifo")
    else:
        c.violation(R, "finish|fifo", f"DeserializerState::finish uses the work-list operations {sorted(set(order_ops))}; the tree must be built first-in first-out over PRNT order (push_back / pop_front) — otherwise roots or siblings come back in another order than they were written", fn.sp, instance="binary-finish:fifo")


def run(c, prog):
    from . import C16 as _C16, C01 as _C01
    from sa import db as _dbm
    _C16.rule_sername(core.Alias(c, "C07"), prog, _dbm.Database())     # load/save fixed point: the reader files both under one canonical name, the next save orders them differently
    _C01.rule_uid(core.Alias(c, "C07"), prog)     # default-filled nil UniqueIds come back as UniqueId::now(): clock and RNG in the output of the next save
    from . import C12 as _C12
    _C12.rule_book(core.Alias(c, "C07"), prog, reader_rule=False)     # UniqueId::now() (clock + RNG) is reached only on a genuine collision: every removal releases its id
    g = flow.CallGraph(prog)
    roots = [f.path for f in prog.find_fns(SER_ROOTS)]
    if len(roots) < 4:
        raise core.AnchorMissing(f"serializer entry points: {roots}")
    R = "C07.hash"
    c.rule(R, "every iteration over a hash-ordered container in code reachable from the two serializers is enumerated; each site is in the confirmed table, and sites whose effects are order-sensitive are followed by a dominating sort before the data reaches the output")
    reach, sites = iter_sites(prog, g, roots)
    c.analysed["serializer_reachable_functions"] = len(reach)
    seen = set()
    for path, bb, cal, t in sites:
        fn = prog.fns[path]
        owner = fn.d.get("root") if fn.dk == "Closure" else path
        cr = container_root(prog, fn, t)
        key = (owner, cr)
        inst = f"{owner}|{cr}"
        fm = first_match_exit(prog, prog.fns[owner], cr)
        if fm is not None:
            # the loop hands out the first element that matches: whichever the hash order presents first wins, so the
            # result is order-dependent as soon as two elements can match — no table entry discharges that
            seen.add(key)
            c.violation(R, f"first-match|{core.short(owner)}|{cr}", f"{owner} walks the hash-ordered set `{cr}` and leaves with the first element that matches ({fm}): when two elements match — an instance carrying a property under two of its non-canonical spellings, e.g. Fire.size and Fire.size_xml, FormFactorPart.formFactor and formFactorRaw — the value written depends on the set's iteration order, i.e. on the process's hash seed", t.get("sp", ""), instance=inst)
        elif key in SITES:
            seen.add(key)
            c.ok(R, inst)
        else:
            c.violation(R, f"unclassified|{owner}|{cr}|{core.short(cal)}", f"{owner} iterates the hash-ordered container `{cr}` ({core.short(cal)}) on a path reachable from a serializer; its iteration order depends on hash seeds / insertion history and it is not a confirmed, sanitised site — output bytes may differ between runs or constructions of the same tree", t.get("sp", ""), instance=inst)
    for key in SITES:
        if key not in seen:
            c.violation(R, f"anchor|{key[0]}|{key[1]}", f"confirmed hash-iteration site {key} not found (table out of date)", "")
    c.floor(R, len(sites), 2, "hash iteration sites reachable from the serializers")
    run_sanitisers(c, prog)

    R = "C07.ord"
    c.rule(R, "containers whose iteration order reaches the output are ordered types (BTreeMap / Vec), so a change to a hash container shows up as a new unclassified hash iteration and here")
    want = {
        ("rbx_binary::serializer::state::TypeInfos", "values"): "alloc::collections::btree::map::BTreeMap<",
        ("rbx_binary::serializer::state::TypeInfo", "properties"): "alloc::collections::btree::map::BTreeMap<",
        ("rbx_binary::serializer::state::TypeInfo", "instances"): "alloc::vec::Vec<",
        ("rbx_binary::serializer::state::PropInfo", "aliases"): "alloc::collections::btree::set::BTreeSet<",
        ("rbx_binary::serializer::state::SerializerState", "relevant_instances"): "alloc::vec::Vec<",
        ("rbx_binary::serializer::state::SerializerState", "shared_strings"): "alloc::vec::Vec<",
        ("rbx_xml::serializer::EmitState", "shared_strings_to_emit"): "alloc::collections::btree::map::BTreeMap<",
        ("rbx_types::attributes::Attributes", "data"): "alloc::collections::btree::map::BTreeMap<",
        ("rbx_types::material_colors::MaterialColors", "inner"): "alloc::collections::btree::map::BTreeMap<",
        ("rbx_dom_weak::instance::Instance", "children"): "alloc::vec::Vec<",
    }
    for (adt, field), pref in sorted(want.items()):
        a = prog.adt(adt)
        f = [x for x in a["variants"][0]["fields"] if x["name"] == field]
        inst = f"{adt}.{field}"
        if f and f[0]["ty"].startswith(pref):
            c.ok(R, inst)
        elif f and "btree" in pref and f[0]["ty"].startswith("alloc::vec::Vec<") and vec_kept_sorted(prog, adt, field):
            # a vector whose every mutation is `insert` at the position `binary_search` reported (or is followed by a
            # sort) iterates in the order of its contents, like the B-tree container
            c.ok(R, inst)
        else:
            c.violation(R, f"type|{inst}", f"{inst} has type `{f[0]['ty'] if f else '?'}`; its iteration order reaches the serialized bytes and it must be an ordered container ({pref}…>)", a["sp"], instance=inst)

    R = "C07.ref"
    c.rule(R, "no clock, RNG, address or fresh-Ref source and no textual/ordering use of Ref values on serializer paths; referents are numbered in traversal order")
    bad = []
    for path in sorted(reach):
        for cal in sorted(g.ext.get(path, ())) + sorted(g.edges.get(path, ())):
            if NONDET.search(cal):
                bad.append((path, cal))
        fn = prog.fns[path]
        if fn.body is None:
            continue
    # lazy_static deref of the reflection database / string cache is allowed; SharedString::new hashes content only
    allow = {"rbx_types::unique_id::UniqueId::now"}  # reachable only via WeakDom::inner_insert which serializers never call
    bad = [(p, cal) for p, cal in bad if not (cal in allow and "dom::WeakDom" in p)]
    if not bad:
        c.ok(R, "no-nondeterministic-source")
    else:
        for p, cal in bad:
            c.violation(R, f"nondet|{p}|{core.short(cal)}", f"{p} (reachable from a serializer) calls {cal}: output would depend on time / randomness / process state", prog.fns[p].sp, instance="no-nondeterministic-source")
    ref_fmt = []
    for path in sorted(reach):
        fn = prog.fns[path]
        if fn.body is None or fn.crate not in ("rbx_binary", "rbx_xml"):
            continue
        for k, a in core.format_args(fn):
            if "referent::Ref" in a.get("ty", "") and "error" not in path.lower():
                ref_fmt.append((path, core.loc(a)))
        for n in core.walk_fn(fn):
            if n.get("k") == "MethodCall" and n["m"] in ("to_string", "cmp", "partial_cmp") and "referent::Ref" in (n["recv"].get("ty") or ""):
                ref_fmt.append((path, core.loc(n)))
    # Ref formatted only into error values (InnerError / EncodeError construction), never into the writer
    ref_fmt = [(p, l) for p, l in ref_fmt if "full_name_for" not in p]
    if not ref_fmt:
        c.ok(R, "no-ref-text")
    else:
        c.violation(R, "ref-text|" + ref_fmt[0][0], f"a Ref value (random u128) is formatted / compared on a serializer path: {ref_fmt[:3]}", ref_fmt[0][1], instance="no-ref-text")
    # xml referents: map_id is a monotone counter with insert-if-absent.  Decided on the symbolic value of the function
    # (sa.sym, helpers inlined) over a symbolic `self` built from the struct definitions, in the two worlds `id already
    # has a number` / `id has none`: which fields hold the table and the counter, what they are called and whether
    # they sit in EmitState or in a helper struct is irrelevant.
    fn = prog.fn("rbx_xml::serializer::EmitState::<'db>::map_id")
    from sa import sym as _sym, wire as _wire

    def sym_struct(ty, prefix, leaves, depth=0):
        ty = (ty or "").lstrip("&").replace("mut ", "").strip()
        base = ty.split("<")[0]
        adt = prog.adts.get(base)
        if adt is None or str(adt.get("kind")).lower() != "struct" or adt.get("crate") not in core.LIB_CRATES or depth > 3 or not adt.get("variants"):
            leaves[prefix] = ty
            return ("in", prefix)
        return ("st", base, tuple((f["name"], sym_struct(f["ty"], prefix + "." + f["name"], leaves, depth + 1)) for f in adt["variants"][0]["fields"]))

    def resolve(t, oracle):
        """choose the alternative of every phi under the oracle"""
        if not isinstance(t, tuple) or not t:
            return t
        if t[0] == "phi":
            for cnd, alt in t[1]:
                if _sym.eval_bool(cnd, oracle):
                    return resolve(alt, oracle)
            raise _sym.Undetermined("no alternative of a phi holds")
        return tuple(resolve(x, oracle) if isinstance(x, tuple) else ([resolve(y, oracle) for y in x] if isinstance(x, list) else x) for x in t)

    def strip_ref(t):
        while isinstance(t, tuple) and t and t[0] in ("deref", "ref", "copy", "clone") and len(t) >= 2:
            t = t[1]
        return t
    inst = "xml:map_id-counter"
    why = None
    try:
        leaves = {}
        selfp = [p_ for p_ in fn.params if p_["name"] == "self"]
        idp = [p_ for p_ in fn.params if (p_.get("ty") or "").endswith("referent::Ref")]
        if len(selfp) != 1 or len(idp) != 1:
            raise core.AnchorMissing("map_id: expected (&mut self, id: Ref)")
        S = sym_struct(selfp[0]["ty"], "self", leaves)
        maps = [k for k, ty in leaves.items() if re.search(r"Map<rbx_types::referent::Ref, u32", ty)]
        ctrs = [k for k, ty in leaves.items() if ty == "u32"]
        if len(maps) != 1 or len(ctrs) != 1:
            raise _sym.Unsupported(f"expected one Ref -> u32 table and one u32 counter in the writer state, found {maps} / {ctrs}")
        M, C0 = ("in", maps[0]), ("in", ctrs[0])
        ID = ("in", "id")

        def p_ins(I, n, path, arg_nodes, env):
            args = [I.eval(a, env) for a in arg_nodes]
            I.emit(("sink", "insert", ("tup", tuple(args)), core.loc(n)))
            return _sym.var(_sym.NONE)
        env = {p_["lid"]: (S if p_["name"] == "self" else (ID if p_ is idp[0] else ("in", p_["name"]))) for p_ in fn.params}

        class StateInterp(_wire.WireInterp):
            """writes to the state are events, so that what a path did before an early `return` is visible"""
            def assign(self, place, v, env_):
                super().assign(place, v, env_)
                if core.strip(place).get("k") == "Field" and not (isinstance(v, tuple) and v and v[0] == "st"):
                    self.emit(("sink", "assign", ("tup", (v,)), core.loc(place)))
        I = StateInterp(prog, prims=[(re.compile(r"Map::<.*>::insert$|Map<.*>::insert$"), p_ins)], depth=5, opaque=_wire.OPAQUE)
        val = None
        try:
            val = I.eval(fn.body, env)
        except _sym.Exit as e_:
            val = e_.value

        def lookups(t, out):
            if isinstance(t, tuple) and t:
                if t[0] == "app" and isinstance(t[1], str) and t[1].endswith(("::get", "::contains_key", "::get_mut")) and len(t[2]) >= 2 and strip_ref(t[2][0]) == M and strip_ref(t[2][1]) == ID:
                    out.append(t)
                for x in t:
                    lookups(x, out)
            elif isinstance(t, list):
                for x in t:
                    lookups(x, out)
            return out
        G = lookups(list(I.events) + [val], [])
        if not G:
            raise _sym.Unsupported("map_id does not look `id` up in the table")

        def leaf(t, path):
            for seg in path.split(".")[1:]:
                if not (isinstance(t, tuple) and t and t[0] == "st"):
                    return None
                t = dict(t[2]).get(seg)
            return t
        for hit in (True, False):
            def oracle(t, hit=hit):
                if t[0] == "is" and t[1] in G:
                    return hit if t[2] == _sym.SOME else ((not hit) if t[2] == _sym.NONE else None)
                if t[0] == "app" and t in G and t[1].endswith("contains_key"):
                    return hit
                return None
            evs, x = _sym.taken_path(I.events, oracle)
            sinks = [e for e in evs if e[0] == "sink"]
            ins = [e[2][1] for e in sinks if e[1] == "insert"]
            writes = [resolve(e[2][1][0], oracle) for e in sinks if e[1] == "assign"]
            # the write-back of a helper's `&mut self` stores a whole struct whose changed leaves were seen as writes inside
            writes = [w for w in writes if not (isinstance(w, tuple) and w and w[0] == "st")]
            rv = x[1] if (x is not None and x[0] == "return") else val
            v = strip_ref(resolve(rv, oracle)) if rv is not None else None
            if hit:
                if ins or writes:
                    why = "a referent that already has a number changes the table or the counter"
                    break
                if not (isinstance(v, tuple) and any(_contains(v, g) for g in G)):
                    why = f"for a referent that already has a number the function returns {_sym.term_str(v, 4)}, not the stored number"
                    break
            else:
                if len(ins) != 1 or strip_ref(ins[0][0]) != M or strip_ref(ins[0][1]) != ID or strip_ref(ins[0][2]) != C0:
                    why = f"a new referent is not filed as table[id] = counter (inserts: {[_sym.term_str(('tup', a), 4) for a in ins]})"
                    break
                if len(writes) != 1 or not (isinstance(writes[0], tuple) and writes[0][0] == "op" and writes[0][1] == "+" and C0 in writes[0][2:] and ("c", 1) in writes[0][2:]):
                    why = f"after a new referent the state is written as {[_sym.term_str(w, 4) for w in writes]}, not counter := counter + 1"
                    break
                if v != C0:
                    why = f"a new referent gets {_sym.term_str(v, 4)}, not the counter's value before the increment"
                    break
    except (_sym.Unsupported, _sym.Undetermined, core.AnalysisError) as e:
        why = f"outside the symbolic model: {e}"
    if why is None:
        c.ok(R, inst)
    else:
        c.violation(R, "xml|map_id", f"EmitState::map_id is no longer `the number already given to the referent, else (table[id] = counter; counter += 1; that number)`: {why} — XML referents would not be dense numbers in order of first use", fn.sp, instance=inst)

    R = "C07.fix"
    c.rule(R, "the readers rebuild child order without consulting hash order: binary finish() is a FIFO over PRNT order, no hash iteration in the decoders' tree construction")
    de_roots = [f.path for f in prog.find_fns(r"^rbx_binary::deserializer::Deserializer::<'db>::deserialize$|^rbx_xml::deserializer::decode_internal$")]
    dreach, dsites = iter_sites(prog, g, de_roots)
    # hash iteration inside the decoders that can influence insertion order
    bad = [(p, cal, t) for p, bb, cal, t in dsites if prog.fns[p].crate in ("rbx_binary", "rbx_xml")]
    ok_sites = {"rbx_xml::deserializer::deserialize_instance": "collects one hash map into another (property map): order-insensitive",
                "rbx_xml::deserializer::apply_referent_rewrites": "rewrites property values keyed by (instance, property): order-insensitive",
                "rbx_xml::deserializer::apply_shared_string_rewrites": "rewrites property values keyed by (instance, property): order-insensitive"}
    for p, cal, t in bad:
        owner = prog.fns[p].d.get("root") if prog.fns[p].dk == "Closure" else p
        inst = f"decoder-hash-iter|{owner}"
        if owner in ok_sites:
            c.ok(R, inst)
        else:
            c.violation(R, f"decoder-hash-iter|{owner}|{core.short(cal)}", f"{owner} iterates a hash container while decoding; if that order reaches insert order, load/save is not a fixed point", t.get("sp", ""), instance=inst)
    rule_finish_fifo(c, prog, R, register=False)
    c.not_decided += ["byte-identity of lz4/zstd output (deterministic libraries, trusted)", "logical equality of a re-read DOM (C01/C02)"]
