"""C12 — UniqueId uniqueness.  C12.book (who touches unique_ids / instances; reader rule), C12.coll (collision
decision in inner_insert / inner_remove), C12.gen (atomic index generation)."""
from sa import core, decision, discipline as D
from . import domutil as U
from .domutil import DOM

# sites outside rbx_dom_weak that structurally mutate Instance.properties of an instance already in a DOM
EXTERNAL_PROP_SITES = {
    ("rbx_xml::deserializer::apply_referent_rewrites", "structural:insert"): "inserts Variant::Ref values only (second pass of Ref resolution); a Ref is never a UniqueId",
    ("rbx_xml::deserializer::apply_shared_string_rewrites", "structural:insert"): "inserts Variant::SharedString values only",
}


def rule_book(c, prog, reader_rule=True):
    R = "C12.book"
    c.rule(R, "unique_ids and instances change only inside inner_insert / inner_remove (and construction), so every entry to / exit from a DOM passes the bookkeeping; outside rbx_dom_weak nobody replaces or structurally edits the property map of an instance that is already in a DOM")
    muts = U.all_mutations(prog, [U.F_UIDS, U.F_INSTANCES, U.F_PROPS])
    allowed = {
        (U.F_UIDS, DOM + "WeakDom::inner_insert", "structural:insert"), (U.F_UIDS, DOM + "WeakDom::inner_remove", "structural:remove"),
        (U.F_INSTANCES, DOM + "WeakDom::inner_insert", "structural:insert"), (U.F_INSTANCES, DOM + "WeakDom::inner_remove", "structural:remove"),
    }
    seen = set()
    for field in (U.F_UIDS, U.F_INSTANCES):
        for fn, cls, m in muts[field]:
            if cls.startswith(("element:", "capacity:")):
                continue
            seen.add((field, fn, cls))
            inst = f"{field}|{fn}|{cls}"
            if (field, fn, cls) in allowed:
                c.ok(R, inst)
            else:
                c.violation(R, inst, f"{fn} performs {cls} on {field} outside inner_insert/inner_remove: UniqueId bookkeeping is bypassed", m["sp"], instance=inst)
    for a in allowed - seen:
        c.violation(R, "anchor|" + "|".join(a), f"bookkeeping site disappeared: {a[1]} no longer performs {a[2]} on {a[0]} (ids are never recorded / never freed)", "")
    # inner_insert/inner_remove callers
    for path, fn in sorted(prog.fns.items()):
        if fn.crate not in core.LIB_CRATES or not fn.mir:
            continue
        for i, cal, t in U.calls_in(fn, r"WeakDom::inner_(insert|remove)$"):
            if not path.startswith(DOM):
                c.violation(R, f"caller|{path}", f"{path} calls {cal} from outside rbx_dom_weak::dom", t.get("sp", ""))
    if not reader_rule:
        return
    # reader rule
    n = 0
    for fn, cls, m in muts[U.F_PROPS]:
        if fn.startswith("rbx_dom_weak::"):
            continue
        if cls.startswith("element:"):
            continue
        n += 1
        inst = f"ext-props|{fn}|{cls}"
        if (fn, cls) in EXTERNAL_PROP_SITES:
            c.ok(R, inst)
        elif cls == "assign":
            c.violation(R, f"ext-props|{fn}|assign", f"{fn} assigns `instance.properties` wholesale on an instance that is already inside a WeakDom (after insert): a UniqueId arriving this way is never recorded in unique_ids and never checked for collision — two instances with the same UniqueId can coexist", m["sp"], instance=inst)
        else:
            c.violation(R, f"ext-props|{fn}|{cls}", f"{fn} performs {cls} on the property map of an instance already in a DOM; if the key can be `UniqueId` the DOM's id set goes stale", m["sp"], instance=inst)
    c.floor(R, n, 3, "external property-map mutation sites")
    # from_raw builds its own set and checks duplicates
    fr = prog.fn(DOM + "WeakDom::from_raw")
    ok = False
    for nn in core.walk_fn(fr):
        if nn.get("k") == "If":
            cnd = core.strip(nn["c"])
            if cnd.get("k") == "Unary" and cnd["op"] == "!" and core.strip(cnd["e"]).get("m") == "insert":
                if any(x.get("x", "") and "panic" in (x.get("x") or "") for x in core.walk(nn["t"])):
                    ok = True
    if ok:
        c.ok(R, "from_raw:duplicate-check")
    else:
        c.violation(R, "from_raw|dup", "from_raw no longer panics when `unique_ids.insert` reports a duplicate", fr.sp, instance="from_raw:duplicate-check")


def rule_coll(c, prog):
    R = "C12.coll"
    c.rule(R, "inner_insert: UniqueId present & already recorded => generate, record the new id, overwrite the property; present & new => record it; absent => nothing.  inner_remove frees exactly the id the instance holds")
    fn = prog.fn(DOM + "WeakDom::inner_insert")

    def role(n):
        n0 = core.strip(n)
        if n0.get("k") == "LetExpr":
            init = core.strip(n0["init"])
            if "UniqueId" in core.pat_str(n0["pat"]) and init.get("k") == "MethodCall" and init["m"] == "get" and "properties" in core.place_root(init["recv"])[1]:
                return "HAS"
        if n0.get("k") == "MethodCall" and n0["m"] == "contains" and core.place_root(n0["recv"])[1][-1:] == ["unique_ids"]:
            return "DUP"
        return "?" + core.fingerprint(n0, 4)

    def eff(n):
        n0 = core.strip(n)
        if n0.get("k") == "MethodCall":
            root = core.place_root(n0["recv"])
            if n0["m"] == "insert" and root[1][-1:] == ["unique_ids"]:
                a = core.strip(n0["args"][0])
                return "record(" + ("new" if a.get("name", "").startswith("new") or a.get("k") == "Path" and a.get("name") != "unique_id" else "own") + ")"
            if n0["m"] == "insert" and "properties" in root[1]:
                lits = [x["lit"].get("v") for x in core.walk(n0["args"][0]) if x.get("k") == "Lit"]
                key = lits[0] if len(lits) == 1 else core.fingerprint(n0["args"][0], 3)
                return f"props[{key}] := new"
            if n0["m"] == "insert" and root[1][-1:] == ["instances"]:
                return "instances.insert"
            if n0["m"] in ("unwrap", "expect"):
                inner = core.strip(n0["recv"])
                if inner.get("k") == "Call" and (core.callee(inner) or "").endswith("UniqueId::now"):
                    return "generate"
                return None
        if n0.get("k") == "Call" and (core.callee(n0) or "").endswith("UniqueId::now"):
            return "generate"
        return None

    tb = decision.Tabler(namer=role, effect_namer=lambda n: eff(n) or "·")
    rows = decision.table(tb.paths(fn.body))
    got = {}
    for k, v in rows.items():
        # the order of independent effects on one path is not part of the rule (the fresh id is bound by a let,
        # so `generate` necessarily precedes its two uses): compare effect multisets
        effs = sorted({tuple(sorted(e for e in ef if e != "·")) for ef, ex in v})
        got[frozenset(k)] = effs
    want = {
        frozenset({("HAS", True), ("DUP", True)}): [tuple(sorted(("instances.insert", "generate", "record(new)", "props[UniqueId] := new")))],
        frozenset({("HAS", True), ("DUP", False)}): [tuple(sorted(("instances.insert", "record(own)")))],
        frozenset({("HAS", False)}): [("instances.insert",)],
    }
    c.sample({"rule": R, "inner_insert_table": {" & ".join(sorted(("" if v else "!") + a for a, v in k)): [list(e) for e in v] for k, v in got.items()}})
    if got == want:
        c.ok(R, "inner_insert:table", 3)
    else:
        c.violation(R, "inner_insert|table", f"inner_insert's collision handling differs from the required table; got {[(sorted(k), v) for k, v in got.items()]}", fn.sp, instance="inner_insert:table")
    # `generate` must be evaluated on the DUP path before record(new): the let binding holds UniqueId::now()
    gen = [n for n in core.walk_fn(fn) if n.get("k") == "Call" and (core.callee(n) or "").endswith("UniqueId::now")]
    if len(gen) == 1:
        c.ok(R, "inner_insert:fresh-id-from-now")
    else:
        c.violation(R, "inner_insert|gen", "inner_insert does not obtain the replacement id from exactly one UniqueId::now() call", fn.sp, instance="inner_insert:fresh-id-from-now")
    # inner_remove
    rm = prog.fn(DOM + "WeakDom::inner_remove")
    ok = False
    for n in core.walk_fn(rm):
        if n.get("k") == "If" and core.strip(n["c"]).get("k") == "LetExpr":
            le = core.strip(n["c"])
            init = core.strip(le["init"])
            if "UniqueId" in core.pat_str(le["pat"]) and init.get("m") == "get" and core.place_root(init["recv"])[0] == "instance":
                bind = [p for p in core.pat_exprs(le["pat"])]
                for x in core.walk(n["t"]):
                    if x.get("k") == "MethodCall" and x["m"] == "remove" and core.place_root(x["recv"])[1][-1:] == ["unique_ids"]:
                        ok = True
    if ok:
        c.ok(R, "inner_remove:frees-own-id")
    else:
        c.violation(R, "inner_remove|free", "inner_remove does not remove the leaving instance's own UniqueId from unique_ids (ids of destroyed / transferred instances never become available again)", rm.sp, instance="inner_remove:frees-own-id")


def rule_gen(c, prog):
    R = "C12.gen"
    c.rule(R, "UniqueId::now takes its index from an atomic read-modify-write (fetch_add) on a process-wide static, never a load/store pair")
    fn = prog.fn("rbx_types::unique_id::UniqueId::now")
    calls = [(cal, t) for i, cal, g, t in D.mir_calls(fn) if cal and "core::sync::atomic::Atomic" in cal]
    names = [cal.rsplit("::", 1)[-1] for cal, _ in calls]
    if names == ["fetch_add"]:
        c.ok(R, "now:fetch_add")
    else:
        c.violation(R, "now|atomic", f"UniqueId::now uses atomic operations {names}; only a single fetch_add makes concurrently generated indices distinct", fn.sp, instance="now:fetch_add")
    # the struct literal's index field is that fetch_add's result
    lit = [n for n in core.walk_fn(fn) if n.get("k") == "Struct" and (n.get("def") or "").endswith("unique_id::UniqueId")]
    ok = False
    for n in lit:
        for f in n["fields"]:
            if f["f"] == "index":
                e = core.strip(f["e"])
                if e.get("k") == "MethodCall" and e["m"] == "fetch_add" and core.lit_value(e["args"][0]) == 1:
                    r = core.strip(e["recv"])
                    if r.get("res", "").startswith("Static") and r.get("def") in prog.statics:
                        ok = True
    if ok:
        c.ok(R, "now:index-field")
    else:
        c.violation(R, "now|index", "UniqueId::now does not set `index` to `STATIC.fetch_add(1, ..)` on a process-wide static", fn.sp, instance="now:index-field")
    # nobody else writes the static
    st = "rbx_types::unique_id::INDEX"
    users = []
    for path, f in prog.fns.items():
        if f.body is None:
            continue
        for n in core.walk_fn(f):
            if n.get("k") == "Path" and n.get("def") == st:
                users.append(path)
    if set(users) <= {"rbx_types::unique_id::UniqueId::now", st}:
        c.ok(R, "index-static:single-user")
    else:
        c.violation(R, "static|users", f"the index counter is touched outside UniqueId::now: {sorted(set(users))}", "", instance="index-static:single-user")


def run(c, prog):
    rule_book(c, prog)
    rule_coll(c, prog)
    rule_gen(c, prog)
    c.not_decided += ["collisions beyond the 2^32 index period (time/random)", "histories"]
