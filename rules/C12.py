"""C12 — UniqueId uniqueness.  C12.book (who touches unique_ids / instances; reader rule), C12.coll (collision
decision in inner_insert / inner_remove), C12.gen (atomic index generation)."""
from sa import core, decision, discipline as D
from . import domutil as U
from .domutil import DOM

# sites outside rbx_dom_weak that structurally mutate Instance.properties of an instance already in a DOM
EXTERNAL_PROP_SITES = {
    ("rbx_xml::deserializer::apply_referent_rewrites", "structural:insert"): "inserts Variant::Ref values only (second pass of Ref resolution); a Ref is never a UniqueId",
    ("rbx_xml::deserializer::apply_shared_string_rewrites", "structural:insert"): "inserts Variant::SharedString values only",
}


SAFE_VALUE_CTORS = {"rbx_types::variant::Variant::Ref": "a Ref is never a UniqueId", "rbx_types::variant::Variant::SharedString": "a SharedString is never a UniqueId"}


def inserts_only_non_id_values(prog, fn_path):
    """every `<instance>.properties.insert(key, value)` in the function stores a value built with a constructor that
    cannot be a UniqueId (second pass of Ref / SharedString resolution in the XML reader)"""
    f = prog.fns.get(fn_path)
    if f is None or f.body is None:
        return False
    ins = [x for x in core.walk_fn(f) if x.get("k") == "MethodCall" and x["m"] == "insert" and "properties" in core.place_root(x["recv"])[1] and len(x["args"]) == 2]
    if not ins:
        return False
    for x in ins:
        v = core.strip(x["args"][1])
        if not (v.get("k") == "Call" and v["f"].get("def") in SAFE_VALUE_CTORS):
            return False
    return True


def rule_book(c, prog, reader_rule=True):
    R = "C12.book"
    c.rule(R, "per public function of rbx_dom_weak::dom (private helpers inlined): every insertion into / removal from the instance map is followed on every path by the UniqueId bookkeeping test (`properties.get(\"UniqueId\")`, whose outcomes C12.coll checks), and unique_ids changes only in functions that also change the instance map; outside rbx_dom_weak nobody replaces or structurally edits the property map of an instance that is already in a DOM")
    muts = U.all_mutations(prog, [U.F_UIDS, U.F_INSTANCES, U.F_PROPS])
    api = U.api_fns(prog)
    n_ins = n_rem = 0
    for path, fn in sorted(api.items()):
        name = U.short_api(path)
        cfg = D.CFG(fn)
        ins = U.mutation_blocks(fn, U.F_INSTANCES, r"::insert$")
        rem = U.mutation_blocks(fn, U.F_INSTANCES, r"::remove$")
        uid_ins = U.mutation_blocks(fn, U.F_UIDS, r"::insert$")
        uid_rem = U.mutation_blocks(fn, U.F_UIDS, r"::remove$")
        tests = set()
        for i, cal, t in U.calls_in(fn, r"HashMap::<K, V, S(, A)?>::get$"):
            r = U.local_root(fn, t["args"][0], depth=16) if t.get("args") else None
            if r and U.F_PROPS in r[1]:
                tests.add(i)
        for kind, blocks, uid_blocks in (("insert", ins, uid_ins), ("remove", rem, uid_rem)):
            for k, b in enumerate(sorted(blocks)):
                if kind == "insert":
                    n_ins += 1
                else:
                    n_rem += 1
                inst = f"{kind}:{name}#{k + 1}"
                starts = cfg.blocks[b]["term"].get("targets", [])
                if tests and all(cfg.must_pass(s0, tests, cfg.returns) for s0 in starts):
                    c.ok(R, inst)
                else:
                    c.violation(R, f"{U.F_INSTANCES}|{path}|structural:{kind}", f"{name}: an instance {'enters' if kind == 'insert' else 'leaves'} the instance map on a path that does not pass the UniqueId bookkeeping (`properties.get(\"UniqueId\")` test): its id is never {'recorded / checked for collision' if kind == 'insert' else 'freed'}", cfg.blocks[b]["term"].get("sp", ""), instance=inst)
            if uid_blocks and not blocks:
                c.violation(R, f"{U.F_UIDS}|{path}|structural:{kind}", f"{name} performs {kind} on unique_ids without a matching {kind} on the instance map: the id set no longer mirrors the instances", fn.sp, instance=f"uids-{kind}:{name}")
            elif uid_blocks:
                c.ok(R, f"uids-{kind}:{name}")
    c.floor(R, n_ins, 3, "instance-map insertions in public functions (insert x2, transfer x2)")
    c.floor(R, n_rem, 3, "instance-map removals in public functions (destroy, transfer x2)")
    # mutation sites outside the owning module
    for field in (U.F_UIDS, U.F_INSTANCES):
        for fn, cls, m in muts[field]:
            if cls.startswith(("element:", "capacity:")):
                continue
            if not (fn.startswith(DOM) or fn.startswith("<" + DOM)):
                inst = f"{field}|{fn}|{cls}"
                c.violation(R, inst, f"{fn} performs {cls} on {field} outside rbx_dom_weak::dom: UniqueId bookkeeping is bypassed", m["sp"], instance=inst)
    if not reader_rule:
        return
    # reader rule
    n = 0
    for fn, cls, m in muts[U.F_PROPS]:
        if fn.startswith("rbx_dom_weak::"):
            continue
        if cls.startswith("element:"):
            continue
        n += 1
        inst = f"ext-props|{fn}|{cls}"
        if cls == "structural:insert" and inserts_only_non_id_values(prog, fn):
            c.ok(R, inst)
        elif cls == "assign":
            c.violation(R, f"ext-props|{fn}|assign", f"{fn} assigns `instance.properties` wholesale on an instance that is already inside a WeakDom (after insert): a UniqueId arriving this way is never recorded in unique_ids and never checked for collision — two instances with the same UniqueId can coexist", m["sp"], instance=inst)
        else:
            c.violation(R, f"ext-props|{fn}|{cls}", f"{fn} performs {cls} on the property map of an instance already in a DOM; if the key can be `UniqueId` the DOM's id set goes stale", m["sp"], instance=inst)
    c.floor(R, n, 3, "external property-map mutation sites")
    # from_raw builds its own set and checks duplicates
    fr = prog.fn(DOM + "WeakDom::from_raw")
    ok = False
    for nn in core.walk_fn(fr):
        if nn.get("k") == "If":
            cnd = core.strip(nn["c"])
            if cnd.get("k") == "Unary" and cnd["op"] == "!" and core.strip(cnd["e"]).get("m") == "insert":
                if any(x.get("x", "") and "panic" in (x.get("x") or "") for x in core.walk(nn["t"])):
                    ok = True
    if ok:
        c.ok(R, "from_raw:duplicate-check")
    else:
        c.violation(R, "from_raw|dup", "from_raw no longer panics when `unique_ids.insert` reports a duplicate", fr.sp, instance="from_raw:duplicate-check")
    # ... and registers the id of EVERY instance of the map: the registering loop ranges over the map itself, not over a
    # traversal from the root (the map may hold instances that are not descendants of the chosen root)
    reg_loops = []
    for nn in core.walk_fn(fr):
        if nn.get("k") == "DropTemps":
            continue
        fl = core.as_for(nn)
        if fl is not None and any(x.get("k") == "MethodCall" and x["m"] == "insert" and "HashSet<rbx_types::unique_id::UniqueId" in (core.strip(x["recv"]).get("ty") or "").replace("ahash::hash_set::A", "") for x in core.walk(fl[2])):
            reg_loops.append(fl)
    over_map = [fl for fl in reg_loops if any("HashMap<rbx_types::referent::Ref, rbx_dom_weak::instance::Instance" in (y.get("ty") or "").replace("ahash::hash_map::A", "") and y.get("k") in ("Path", "Field") for y in core.walk(fl[1])) and not any(y.get("k") == "MethodCall" and y["m"] in ("descendants", "descendants_of", "children", "filter", "take", "skip", "take_while", "skip_while") for y in core.walk(fl[1]))]
    if reg_loops and len(over_map) == len(reg_loops):
        c.ok(R, "from_raw:registers-every-instance")
    elif not reg_loops:
        c.not_decided.append("from_raw: no loop registering UniqueIds was recognised")
    else:
        c.violation(R, "from_raw|partial", "from_raw collects the UniqueIds from a traversal (or a filtered view) instead of from the whole `instances` map: an instance that is in the map but not below the chosen root keeps an id the DOM does not know, so a later insert / transfer of the same id is not seen as a collision", fr.sp, instance="from_raw:registers-every-instance")


def pat_binding_lids(p):
    out = []
    stack = [p]
    while stack:
        x = stack.pop()
        if isinstance(x, dict):
            if x.get("k") == "Binding" and "lid" in x:
                out.append(x["lid"])
            stack.extend(v for v in x.values() if isinstance(v, (dict, list)))
        elif isinstance(x, list):
            stack.extend(x)
    return out


def is_has_test(pat, init):
    init = core.strip(init)
    return "UniqueId" in core.pat_str(pat) and init.get("k") == "MethodCall" and init["m"] == "get" and "properties" in core.place_root(init["recv"])[1]


def insert_fns(prog, meth, field):
    """functions of the owning module that directly call `<..>.{field}.{meth}(..)`"""
    out = []
    for path, fn in sorted(prog.fns.items()):
        if fn.crate != "rbx_dom_weak" or fn.body is None or fn.dk == "Closure" or "::test" in path or not path.startswith(DOM):
            continue
        if any(n.get("k") == "MethodCall" and n["m"] == meth and core.place_root(n["recv"])[1][-1:] == [field] for n in core.walk_fn(fn, into_closures=False)):
            out.append(fn)
    return out


def rule_coll(c, prog):
    R = "C12.coll"
    c.rule(R, "the function that inserts into the instance map: UniqueId present & already recorded => generate (one UniqueId::now), record the new id, overwrite the property; present & new => record it; absent => nothing.  The function that removes from the map frees exactly the id the leaving instance holds")
    fns = insert_fns(prog, "insert", "instances")
    if not fns:
        raise core.AnchorMissing("no function of rbx_dom_weak::dom inserts into `instances`")
    for fn in fns:
        name = U.short_api(fn.path)
        new_lids, own_lids = set(), set()
        for st in core.walk_lets(fn.body):
            if "init" in st and any(x.get("k") == "Call" and (core.callee(x) or "").endswith("UniqueId::now") for x in core.walk(st["init"])):
                new_lids.update(pat_binding_lids(st["pat"]))
        for n in core.walk_fn(fn):
            if n.get("k") == "LetExpr" and is_has_test(n["pat"], n["init"]):
                own_lids.update(pat_binding_lids(n["pat"]))
            if n.get("k") == "Match" and n.get("src") in ("Normal", "Postfix"):
                for arm in n["arms"]:
                    if is_has_test(arm["pat"], n["e"]):
                        own_lids.update(pat_binding_lids(arm["pat"]))
        for _ in range(3):
            for st in core.walk_lets(fn.body):
                if "init" in st and not (set(pat_binding_lids(st["pat"])) & new_lids):
                    if any(x.get("k") == "Path" and x.get("lid") in own_lids for x in core.walk(st["init"])):
                        own_lids.update(pat_binding_lids(st["pat"]))
        own_lids -= new_lids

        def which(a):
            lids = {x.get("lid") for x in core.walk(a) if x.get("k") == "Path" and x.get("res") == "local"}
            if lids & new_lids:
                return "new"
            if lids & own_lids:
                return "own"
            return "?" + core.fingerprint(a, 3)

        def role(n):
            n0 = core.strip(n)
            if n0.get("k") == "LetExpr":
                if is_has_test(n0["pat"], n0["init"]):
                    return "HAS"
                n0 = core.strip(n0["init"])
            if n0.get("k") == "MethodCall" and core.place_root(n0["recv"])[1][-1:] == ["unique_ids"]:
                if n0["m"] == "contains" and which(n0["args"][0]) == "own":
                    return "DUP"
                if n0["m"] == "insert" and which(n0["args"][0]) == "own":
                    return "NEWID"     # insert-as-test: true = was absent and is now recorded
            return "?" + core.fingerprint(n0, 4)

        def eff(n):
            n0 = core.strip(n)
            if n0.get("k") == "MethodCall":
                root = core.place_root(n0["recv"])
                if n0["m"] == "insert" and root[1][-1:] == ["unique_ids"]:
                    return "record(" + which(n0["args"][0]) + ")"
                if n0["m"] == "insert" and "properties" in root[1]:
                    lits = [x["lit"].get("v") for x in core.walk(n0["args"][0]) if x.get("k") == "Lit"]
                    key = lits[0] if len(lits) == 1 else core.fingerprint(n0["args"][0], 3)
                    return f"props[{key}] := {which(n0['args'][1])}"
                if n0["m"] == "insert" and root[1][-1:] == ["instances"]:
                    return "instances.insert"
                if n0["m"] in ("unwrap", "expect"):
                    inner = core.strip(n0["recv"])
                    if inner.get("k") == "Call" and (core.callee(inner) or "").endswith("UniqueId::now"):
                        return "generate"
                    return None
            if n0.get("k") == "Call" and (core.callee(n0) or "").endswith("UniqueId::now"):
                return "generate"
            return None

        tb = decision.Tabler(namer=role, effect_namer=lambda n: eff(n) or "·")
        got = {}
        for pth in tb.paths(fn.body):
            cs = set(pth.conds)
            if any((a, not v) in cs for a, v in cs):
                continue
            effs = [e for e in pth.effects if e != "·" and not e.startswith("return")]     # the function returns ()
            # `if unique_ids.insert(own)`: the test and the recording are one operation
            if ("NEWID", True) in cs:
                cs.discard(("NEWID", True)); cs.add(("DUP", False)); effs.append("record(own)")
            if ("NEWID", False) in cs:
                cs.discard(("NEWID", False)); cs.add(("DUP", True))
            if any((a, not v) in cs for a, v in cs):
                continue
            # the order of independent effects on one path is not part of the rule (the fresh id is bound by a let,
            # so `generate` necessarily precedes its two uses): compare effect multisets
            got.setdefault(frozenset(cs), set()).add(tuple(sorted(effs)))
        got = {k: sorted(v) for k, v in got.items()}
        want = {
            frozenset({("HAS", True), ("DUP", True)}): [tuple(sorted(("instances.insert", "generate", "record(new)", "props[UniqueId] := new")))],
            frozenset({("HAS", True), ("DUP", False)}): [tuple(sorted(("instances.insert", "record(own)")))],
            frozenset({("HAS", False)}): [("instances.insert",)],
        }
        c.sample({"rule": R, "function": fn.path, "insert_table": {" & ".join(sorted(("" if v else "!") + a for a, v in k)): [list(e) for e in v] for k, v in got.items()}})
        if got == want:
            c.ok(R, "inner_insert:table", 3)
        else:
            c.violation(R, "inner_insert|table", f"{name}: the collision handling differs from the required table; got {[(sorted(k), v) for k, v in got.items()]}", fn.sp, instance="inner_insert:table")
        gen = [n for n in core.walk_fn(fn) if n.get("k") == "Call" and (core.callee(n) or "").endswith("UniqueId::now")]
        if len(gen) == 1:
            c.ok(R, "inner_insert:fresh-id-from-now")
        else:
            c.violation(R, "inner_insert|gen", f"{name} does not obtain the replacement id from exactly one UniqueId::now() call", fn.sp, instance="inner_insert:fresh-id-from-now")
    # removal
    rfns = insert_fns(prog, "remove", "instances")
    if not rfns:
        raise core.AnchorMissing("no function of rbx_dom_weak::dom removes from `instances`")
    for rm in rfns:
        ok = False
        for n in core.walk_fn(rm):
            cands = []
            if n.get("k") == "If" and core.strip(n["c"]).get("k") == "LetExpr":
                le = core.strip(n["c"])
                cands.append((le["pat"], le["init"], n["t"]))
            if n.get("k") == "Match" and n.get("src") in ("Normal", "Postfix"):
                for arm in n["arms"]:
                    cands.append((arm["pat"], n["e"], arm["body"]))
            for pat, init, body in cands:
                if is_has_test(pat, init):
                    lids = set(pat_binding_lids(pat))
                    for x in core.walk(body):
                        if x.get("k") == "MethodCall" and x["m"] == "remove" and core.place_root(x["recv"])[1][-1:] == ["unique_ids"]:
                            if any(y.get("k") == "Path" and y.get("lid") in lids for y in core.walk(x["args"][0])):
                                ok = True
        if ok:
            c.ok(R, "inner_remove:frees-own-id")
        else:
            c.violation(R, "inner_remove|free", f"{U.short_api(rm.path)} does not remove the leaving instance's own UniqueId from unique_ids (ids of destroyed / transferred instances never become available again)", rm.sp, instance="inner_remove:frees-own-id")


def rule_gen(c, prog):
    R = "C12.gen"
    c.rule(R, "UniqueId::now takes its index from an atomic read-modify-write (fetch_add) on a process-wide static, never a load/store pair")
    fn = prog.fn("rbx_types::unique_id::UniqueId::now")
    calls = [(cal, t) for i, cal, g, t in D.mir_calls(fn) if cal and "core::sync::atomic::Atomic" in cal]
    names = [cal.rsplit("::", 1)[-1] for cal, _ in calls]
    if names == ["fetch_add"]:
        c.ok(R, "now:fetch_add")
    else:
        c.violation(R, "now|atomic", f"UniqueId::now uses atomic operations {names}; only a single fetch_add makes concurrently generated indices distinct", fn.sp, instance="now:fetch_add")
    # the struct literal's index field is that fetch_add's result
    lit = [n for n in core.walk_fn(fn) if n.get("k") == "Struct" and (n.get("def") or "").endswith("unique_id::UniqueId")]
    ok = False
    for n in lit:
        for f in n["fields"]:
            if f["f"] == "index":
                e = core.strip(f["e"])
                if e.get("k") == "MethodCall" and e["m"] == "fetch_add" and core.lit_value(e["args"][0]) == 1:
                    r = core.strip(e["recv"])
                    if r.get("res", "").startswith("Static") and r.get("def") in prog.statics:
                        ok = True
    if ok:
        c.ok(R, "now:index-field")
    else:
        c.violation(R, "now|index", "UniqueId::now does not set `index` to `STATIC.fetch_add(1, ..)` on a process-wide static", fn.sp, instance="now:index-field")
    # nobody else writes the static
    st = "rbx_types::unique_id::INDEX"
    users = []
    for path, f in prog.fns.items():
        if f.body is None:
            continue
        for n in core.walk_fn(f):
            if n.get("k") == "Path" and n.get("def") == st:
                users.append(path)
    if set(users) <= {"rbx_types::unique_id::UniqueId::now", st}:
        c.ok(R, "index-static:single-user")
    else:
        c.violation(R, "static|users", f"the index counter is touched outside UniqueId::now: {sorted(set(users))}", "", instance="index-static:single-user")


def run(c, prog):
    rule_book(c, prog)
    rule_coll(c, prog)
    rule_gen(c, prog)
    c.not_decided += ["collisions beyond the 2^32 index period (time/random)", "histories"]
