"""C05 — XML written is spec-conformant; spec-conformant foreign XML is read.
C05.tags (docs/xml.md example elements vs writer/reader tag literals), C05.doc (document skeleton), C05.read (reader dispatch)."""
import re

from sa import core, spec, tables, ioseq
from . import common
from .C02 import xml_tag_names, XT
from .common import vname

UNSUPPORTED_DOC = {"QDir": "Studio-only", "QFont": "Studio-only"}
# doc heading -> element name used by this implementation when it differs from the heading
OUT_OF_TRAIT = {"Ref": "rbx_xml::types::referent", "SharedString": "rbx_xml::types::shared_string"}


def literals_of(prog, fn, depth=2):
    """string literals in a function body, following const paths (TAG_NAMES arrays) and workspace helper calls one level"""
    out = set()
    if fn is None or fn.body is None:
        return out
    for n in core.walk_fn(fn):
        if n.get("k") == "Lit" and n["lit"]["lk"] == "str":
            out.add(n["lit"]["v"])
        if n.get("k") == "Path" and n.get("res", "").startswith(("Const", "Static", "AssocConst")):
            f2 = prog.fns.get(n.get("inst") or n.get("def"))
            if f2 is not None and f2.body is not None:
                for m in core.walk(f2.body):
                    if m.get("k") == "Lit" and m["lit"]["lk"] == "str":
                        out.add(m["lit"]["v"])
        if depth > 0 and n.get("k") in ("Call", "MethodCall"):
            cal = core.callee(n)
            f2 = prog.fns.get(cal) if cal else None
            if f2 is not None and f2.crate == "rbx_xml" and ("types::" in f2.path):
                out |= literals_of(prog, f2, depth - 1)
    for p in fn.params or []:
        pass
    return out


def rule_tags(c, prog):
    R = "C05.tags"
    c.rule(R, "for every type element documented in docs/xml.md (examples parsed on every run): the element name is one this implementation writes for that type and accepts on read, and every child tag of the example appears in both the writer and the reader of that type")
    doc = spec.xml_type_elements()
    tags = xml_tag_names(prog)
    by_tag = {}
    for ty, tag in tags.items():
        by_tag.setdefault(tag, []).append(ty)
    rfn = prog.fn("rbx_xml::types::read_value_xml")
    n = 0
    for heading, (examples, body) in sorted(doc.items()):
        if heading in UNSUPPORTED_DOC:
            c.ok(R, f"unsupported:{heading}")
            continue
        if not examples:
            c.ok(R, f"no-example:{heading}")
            continue
        for ex in examples[:2]:
            el = ex if ex.tag != "wrap" else (list(ex)[0] if len(ex) else None)
            if el is None:
                continue
            n += 1
            root = el.tag
            children = [ch.tag for ch in el]
            inst = f"doc:{heading}<{root}>"
            if root in OUT_OF_TRAIT or heading in OUT_OF_TRAIT:
                mod = OUT_OF_TRAIT.get(root) or OUT_OF_TRAIT.get(heading)
                tagv = common.const_value(prog, mod + "::XML_TAG_NAME")
                if tagv == root:
                    c.ok(R, inst)
                else:
                    c.violation(R, f"root|{heading}|{root}", f"docs/xml.md shows <{root}> for {heading}; {mod}::XML_TAG_NAME is {tagv}", "docs/xml.md", instance=inst)
                continue
            impls = by_tag.get(root)
            if not impls:
                c.violation(R, f"root|{heading}|{root}", f"docs/xml.md documents the element <{root}> ({heading}) but no XmlType impl reads or writes that element name", "docs/xml.md", instance=inst)
                continue
            ok_any = False
            detail = None
            for ty in impls:
                w = prog.impl_fn(XT, ty, "write_xml")
                r = prog.impl_fn(XT, ty, "read_xml")
                wl, rl = literals_of(prog, w), literals_of(prog, r)
                missing_w = [t for t in children if t not in wl]
                missing_r = [t for t in children if t not in rl]
                if not missing_w and not missing_r:
                    ok_any = True
                else:
                    detail = (ty, missing_w, missing_r)
            if ok_any:
                c.ok(R, inst)
            else:
                ty, mw, mr = detail
                c.violation(R, f"children|{heading}|{root}", f"docs/xml.md lays out <{root}> with child elements {children}; the writer of {ty} never emits {mw} and/or the reader never expects {mr}", "docs/xml.md", instance=inst)
    c.floor(R, n, 25, "documented type elements with examples")


def rule_doc(c, prog):
    R = "C05.doc"
    c.rule(R, "encode_internal emits one <roblox version=\"4\">; serialize_instance emits <Item class referent>, exactly one <Properties> per Item on every path, children after it; referents are decimal u32 numbers (never `null`, unique by map_id); write_ref writes `null` iff the Ref is none")
    fn = prog.fn("rbx_xml::serializer::encode_internal")
    starts = []
    for x in core.walk_fn(fn):
        if x.get("k") == "Call" and (core.callee(x) or "").endswith("XmlEvent::<'a>::start_element"):
            starts.append(x)
    ok = False
    if len(starts) == 1 and core.lit_value(starts[0]["args"][0]) == "roblox":
        for x in core.walk_fn(fn):
            if x.get("k") == "MethodCall" and x["m"] == "attr" and core.lit_value(x["args"][0]) == "version" and core.lit_value(x["args"][1]) == "4":
                ok = True
    if ok:
        c.ok(R, "root:roblox-version-4")
    else:
        c.violation(R, "root|element", "encode_internal no longer opens exactly one <roblox version=\"4\"> element", fn.sp, instance="root:roblox-version-4")
    fn = prog.fn("rbx_xml::serializer::serialize_instance")

    def is_ev(n):
        if n.get("k") == "Call":
            cal = core.callee(n) or ""
            if cal.endswith("XmlEvent::<'a>::start_element"):
                return "start:" + str(core.lit_value(n["args"][0]))
            if cal.endswith("XmlEvent::<'a>::end_element"):
                return "end"
            if cal.endswith("types::write_value_xml"):
                return "value"
            if cal.endswith("serializer::serialize_instance"):
                return "child"
        return None
    sk = ioseq.skeleton(fn.body, is_ev)
    top = [(it[1] if it[0] == "call" else it[0]) for it in sk if it[0] != "ret"]
    want = ["start:Item", "start:Properties", "value", "for", "end", "for", "end"]
    if top == want:
        c.ok(R, "item:skeleton")
    else:
        c.violation(R, "item|skeleton", f"serialize_instance emits {top}; required: <Item> <Properties> Name, properties… </Properties> children… </Item> with exactly one Properties element on every path", fn.sp, instance="item:skeleton")
    fors = [it for it in sk if it[0] == "for"]
    if len(fors) == 2:
        inner1 = {c2[1] for c2 in ioseq.flat_calls(fors[0][3])}
        inner2 = {c2[1] for c2 in ioseq.flat_calls(fors[1][3])}
        if inner1 <= {"value"} and inner2 == {"child"} and core.place_root(fors[1][2])[0] == "instance":
            c.ok(R, "item:properties-then-children")
        else:
            c.violation(R, "item|loops", f"serialize_instance: first loop must only write property values, second must only recurse into instance.children(); got {inner1} / {inner2}", fn.sp, instance="item:properties-then-children")
    attrs = {}
    for x in core.walk_fn(fn):
        if x.get("k") == "MethodCall" and x["m"] == "attr":
            attrs[core.lit_value(x["args"][0])] = core.fingerprint(x["args"][1], 4)
    # referent attribute: the decimal text of the u32 returned by state.map_id(<this instance's id>)
    ref_ok = False
    lets = {st["pat"].get("lid"): st for st in core.walk_lets(fn.body) if "init" in st and st["pat"].get("k") == "Binding"}
    id_lid = common.param_lid_by_type(fn, lambda t: t.endswith("referent::Ref"))
    for x in core.walk_fn(fn):
        if x.get("k") == "MethodCall" and x["m"] == "attr" and core.lit_value(x["args"][0]) == "referent":
            def unfold(e, depth=0):
                e = core.strip(e)
                while e.get("k") in ("AddrOf", "Unary"):
                    e = core.strip(e["e"])
                if e.get("k") == "Path" and e.get("lid") in lets and depth < 5:
                    return unfold(lets[e["lid"]]["init"], depth + 1)
                return e
            v = unfold(x["args"][1])
            if v.get("k") == "MethodCall" and v["m"] == "to_string":
                e = unfold(v["recv"])
                ref_ok = e.get("k") == "MethodCall" and e["m"] == "map_id" and (e.get("ty") or "") == "u32" and core.strip(e["args"][0]).get("lid") == id_lid
    cls_ok = any(x.get("k") == "MethodCall" and x["m"] == "attr" and core.lit_value(x["args"][0]) == "class" and [p for p in core.place_root(x["args"][1])[1] if not p.startswith(".")][-1:] == ["class"] for x in core.walk_fn(fn))
    if cls_ok and set(attrs) == {"class", "referent"}:
        c.ok(R, "item:attributes")
    else:
        c.violation(R, "item|attributes", f"<Item> attributes are {attrs}; required class=instance.class, referent=<mapped id>", fn.sp, instance="item:attributes")
    if ref_ok:
        c.ok(R, "item:referent-is-u32-from-map_id")
    else:
        c.violation(R, "item|referent", "the Item referent is no longer the u32 returned by state.map_id(id) (digits only: never `null`, unique per instance)", fn.sp, instance="item:referent-is-u32-from-map_id")


def rule_read(c, prog):
    R = "C05.read"
    c.rule(R, "deserialize_root has arms for Item, External (skipped), Meta, SharedStrings; referents are opaque strings resolved in a second pass; ProtectedString reads as String; base64 text has all whitespace stripped before decoding at every site; unknown type elements are eaten")
    fn = prog.fn("rbx_xml::deserializer::deserialize_root")
    arms = {}
    for n in core.walk_fn(fn):
        if n.get("k") == "Match" and n.get("src") == "Normal" and "as_str" in core.fingerprint(n["e"], 4):
            for arm in n["arms"]:
                for alt in tables.pat_alts(arm["pat"]):
                    if alt[0] == "lit":
                        cal = [core.callee(x) for x in core.walk(arm["body"]) if x.get("k") in ("Call", "MethodCall")]
                        arms[alt[1]] = [core.short(x) for x in cal if x and ("deserialize" in x or "eat_unknown" in x)]
    want = {"Item": "deserialize_instance", "External": "eat_unknown_tag", "Meta": "deserialize_metadata", "SharedStrings": "deserialize_shared_string_dict"}
    for k, v in want.items():
        inst = f"root-arm:{k}"
        if any(v in x for x in arms.get(k, [])):
            c.ok(R, inst)
        else:
            c.violation(R, f"root-arm|{k}", f"deserialize_root: the <{k}> element is no longer handled by {v} (got {arms.get(k)})", fn.sp, instance=inst)
    a = prog.adt("rbx_xml::deserializer::ParseState")
    ft = {f["name"]: f["ty"] for f in a["variants"][0]["fields"]}
    if "HashMap<alloc::string::String, rbx_types::referent::Ref" in ft.get("referents_to_ids", "").replace("std::collections::hash::map::", "").replace("ahash::", ""):
        c.ok(R, "referents:opaque-strings")
    else:
        c.violation(R, "referents|type", f"ParseState.referents_to_ids is `{ft.get('referents_to_ids')}`; foreign files use arbitrary referent strings (e.g. RBX + UUID)", a["sp"], instance="referents:opaque-strings")
    # ProtectedString
    rv = prog.fn("rbx_xml::types::read_value_xml")
    ok = False
    for n in core.walk_fn(rv):
        if n.get("k") == "Match" and n.get("src") == "Normal":
            for arm in n["arms"]:
                e = arm["pat"].get("e", {})
                if "ProtectedStringDummy" in (e.get("defargs") or ""):
                    ok = any(x.get("k") == "Call" and (x["f"].get("def") or "").endswith("Variant::String") for x in common.walk_inline(prog, arm["body"], "rbx_xml::types::"))
    tagv = [common.const_value(prog, it["path"]) for imp in prog.impls if imp.get("trait") == XT and "ProtectedStringDummy" in imp["self"] for it in imp["items"] if it["name"] == "XML_TAG_NAME"]
    if ok and tagv == ["ProtectedString"]:
        c.ok(R, "ProtectedString->String")
    else:
        c.violation(R, "protected-string", "a <ProtectedString> element is no longer read as Variant::String", rv.sp, instance="ProtectedString->String")
    # base64 sites
    rb = common.find_fn(prog, r"deserializer_core::XmlEventReader.*::read_base64_characters$")
    # whitespace removed before decoding: a filter / retain whose predicate is a whitespace test, or a split on whitespace
    ok = any(x.get("k") == "MethodCall" and x["m"] in ("filter", "retain") and x["args"] and any(y.get("k") == "MethodCall" and y["m"] in ("is_whitespace", "is_ascii_whitespace") for y in core.walk(x["args"][0])) for x in core.walk_fn(rb)) \
        or any(x.get("k") == "MethodCall" and x["m"] in ("split_whitespace", "split_ascii_whitespace") for x in core.walk_fn(rb))
    if not ok:
        # an explicit loop: characters are copied into the text that is decoded under a whitespace test, and what is
        # decoded is that copy, not the characters as read
        tests = [x for x in core.walk_fn(rb) if x.get("k") == "If" and any(y.get("k") == "MethodCall" and y["m"] in ("is_whitespace", "is_ascii_whitespace") for y in core.walk(x["c"])) and any(y.get("k") == "MethodCall" and y["m"] in ("push", "push_str", "extend") for y in core.walk(x))]
        decs = [x for x in core.walk_fn(rb) if x.get("k") == "Call" and (core.callee(x) or "").startswith("base64::decode")]
        if tests and decs:
            built = {core.strip(y["recv"]).get("lid") for t_ in tests for y in core.walk(t_) if y.get("k") == "MethodCall" and y["m"] in ("push", "push_str", "extend")}
            arg = core.strip(decs[0]["args"][0])
            while arg.get("k") in ("AddrOf", "Unary"):
                arg = core.strip(arg["e"])
            ok = arg.get("lid") in built
    if ok:
        c.ok(R, "base64:whitespace-stripped")
    else:
        c.violation(R, "base64|strip", "read_base64_characters no longer removes every whitespace character before decoding (line-wrapped base64 from other writers would be rejected)", rb.sp, instance="base64:whitespace-stripped")
    # the text is decoded as one piece: base64 groups of four characters may straddle a line break, so decoding line
    # by line (or chunk by chunk) fails for every wrap width that is not a multiple of four
    dec = [x for x in core.walk_fn(rb) if x.get("k") == "Call" and (core.callee(x) or "").startswith("base64::decode")]
    in_iter = []
    for lp in core.walk_fn(rb):
        bodies = []
        fl = core.as_for(lp)
        if fl is not None and lp.get("k") != "DropTemps":
            bodies.append(fl[2])
        elif lp.get("k") == "Loop" and lp.get("src") != "ForLoop":
            bodies.append(lp)
        elif lp.get("k") == "Closure":
            bodies.append(lp["body"])
        for b in bodies:
            in_iter += [x for x in dec if any(y is x for y in core.walk(b))]
    if dec and not in_iter:
        c.ok(R, "base64:decoded-as-one-piece")
    else:
        c.violation(R, "base64|piecewise", "read_base64_characters decodes the text piece by piece (the decode call sits in a loop / iterator closure) or not at all: a base64 quantum split across two lines — any wrap width that is not a multiple of 4 — is rejected", rb.sp, instance="base64:decoded-as-one-piece")
    n_sites = 0
    for f in prog.lib_fns():
        if f.crate != "rbx_xml" or f.body is None or f.path == rb.path:
            continue
        # decoders only
        if "serializer" in f.path and "deserializer" not in f.path:
            continue
        for x in core.walk_fn(f):
            if x.get("k") == "Call" and (core.callee(x) or "").startswith("base64::decode"):
                n_sites += 1
                c.violation(R, f"base64|direct|{f.path}", f"{f.path} decodes base64 directly instead of going through read_base64_characters: whitespace inside the text (RFC 2045 line wrapping) is not tolerated there although it is for BinaryString", core.loc(x), instance=f"base64:{f.path}")
    users = [f.path for f in prog.lib_fns() if f.body is not None and any(x.get("k") == "MethodCall" and x["m"] == "read_base64_characters" for x in core.walk_fn(f))]
    c.floor(R, len(users), 2, "read_base64_characters users")
    # unknown type elements
    ok = False
    for n in core.walk_fn(rv):
        if n.get("k") == "Match" and n.get("src") == "Normal":
            for arm in n["arms"]:
                if arm["pat"].get("k") == "Wild":
                    ok = any(x.get("k") == "MethodCall" and x["m"] == "eat_unknown_tag" for x in common.walk_inline(prog, arm["body"], "rbx_xml::types::")) and not any(x.get("k") == "Ret" and core.as_try(x) is None and "Err" in core.fingerprint(x.get("e", {}), 3) for x in common.walk_inline(prog, arm["body"], "rbx_xml::types::"))
    if ok:
        c.ok(R, "unknown-type:eaten")
    else:
        c.violation(R, "unknown-type", "read_value_xml no longer skips unknown type elements with eat_unknown_tag", rv.sp, instance="unknown-type:eaten")


def text_sinks(prog):
    """{fn path: (fn, [call nodes])} — functions of rbx_xml that hand a string parameter of theirs to xml-rs as character
    data or CDATA"""
    sinks = []
    for f in prog.lib_fns():
        if f.crate != "rbx_xml" or f.body is None:
            continue
        for x in core.walk_fn(f):
            if x.get("k") == "Call" and re.search(r"xml::writer::events::XmlEvent::<'a>::(characters|cdata)$", core.callee(x) or "") and x["args"] and core.lit_value(x["args"][0]) is None:
                a = core.strip(x["args"][0])
                # text of the caller's choosing only: a string parameter itself (behind borrows / as_str / as_ref), not
                # text computed here (base64, formatted numbers), whose alphabet the producing call decides
                while a.get("k") in ("AddrOf", "Unary") or (a.get("k") == "MethodCall" and a["m"] in ("as_str", "as_ref", "deref", "borrow") and not a["args"]):
                    a = core.strip(a["e"] if "e" in a else a["recv"])
                plids = {lid for _n, (lid, t) in core.param_lids(f).items() if re.search(r"\bstr\b|String", t or "")}
                if a.get("k") == "Path" and a.get("lid") in plids:
                    sinks.append((f, x))
    byfn = {}
    for f, x in sinks:
        byfn.setdefault(f.path, (f, []))[1].append(x)
    return byfn


def rule_cr(c, prog, R="C05.cr"):
    """XML 1.0 section 2.11: a parser hands the application LF for every literal CR LF and lone CR, inside CDATA too.  A
    CR in a value therefore survives an independent parser only when written as the character reference &#13; outside
    CDATA.  xml-rs (trusted, DESIGN section 7) escapes & < > in character data and nothing in CDATA, so the function
    that hands text to it has to treat CR itself."""
    c.rule(R, "a function that hands non-constant text to xml-rs as character data or CDATA (XmlEvent::characters / ::cdata) tests that text for a carriage return (a '\\r' / \"&#13;\" / 0x0D literal or a control-character test on its path): xml-rs writes CR as a raw byte, which every conformant XML parser reads back as LF")
    byfn = text_sinks(prog)
    c.floor(R, len(byfn), 1, "functions handing caller-chosen text to xml-rs")

    def mentions_cr(fn, depth=2):
        for v in core.all_lits(fn.body):
            if v in ("\r", 13, "&#13;", "&#xD;", "&#xd;") or (isinstance(v, str) and ("\r" in v or "&#13;" in v or "&#xD;" in v.upper().replace("&#XD;", "&#xD;"))):
                return True
        for y in core.walk_fn(fn):
            if y.get("k") == "MethodCall" and y["m"] in ("is_control", "is_ascii_control"):
                return True
            if depth and y.get("k") in ("Call", "MethodCall"):
                g = prog.fns.get(core.callee(y) or "")
                if g is not None and g.crate == "rbx_xml" and g.body is not None and g.path != fn.path and mentions_cr(g, depth - 1):
                    return True
        return False
    for path, (f, xs) in sorted(byfn.items()):
        inst = f"{path}|carriage-return"
        if mentions_cr(f):
            c.ok(R, inst)
        else:
            kinds = sorted({(core.callee(x) or "").rsplit("::", 1)[-1] for x in xs})
            c.violation(R, f"{path}|raw-cr", f"{path} passes its text to xml-rs as {' / '.join(kinds)} without looking for a carriage return: a value containing CR (a script source with CRLF line endings, a name, a URI) is written as the raw byte 0x0D, which an independent XML parser normalises to LF — the document reads back to a different string", core.loc(xs[0]), instance=inst)


def rule_chars(c, prog, R="C06.chars"):
    """XML 1.0 section 2.2: U+0000-U+0008, U+000B, U+000C, U+000E-U+001F, U+FFFE and U+FFFF are not characters of any
    document, escaped or not.  Roblox strings are byte strings and rbx_binary stores them as they are; text containing
    one of those can only be written to XML by refusing it or by spelling it some other way, and either needs the
    function that hands the text to xml-rs (which writes it raw) to look for them."""
    c.rule(R, "a function that hands caller-chosen text to xml-rs as character data or CDATA looks at every character of it for the ones XML 1.0 cannot carry (a control-character test, or a comparison with a literal below U+0020 other than tab / LF / CR, on its path): otherwise the writer reports success on a document no XML parser accepts — its own reader included — for a string rbx_binary round-trips")
    byfn = text_sinks(prog)
    c.floor(R, len(byfn), 1, "functions handing caller-chosen text to xml-rs")

    def looks(fn, depth=2):
        scans = any(z.get("k") == "MethodCall" and z["m"] in ("chars", "bytes", "char_indices", "as_bytes") for z in core.walk_fn(fn))
        for v in core.all_lits(fn.body):
            if isinstance(v, str) and len(v) == 1 and (ord(v) < 0x20 and v not in "\t\n\r" or v in "\ufffe\uffff"):
                return True
            if isinstance(v, int) and not isinstance(v, bool) and v in (0x20, 0x1F, 0xFFFE, 0xFFFF, 0xFFFD) and scans:
                return True
        for y in core.walk_fn(fn):
            if y.get("k") == "MethodCall" and y["m"] in ("is_control", "is_ascii_control"):
                return True
            if depth and y.get("k") in ("Call", "MethodCall"):
                g = prog.fns.get(core.callee(y) or "")
                if g is not None and g.crate == "rbx_xml" and g.body is not None and g.path != fn.path and looks(g, depth - 1):
                    return True
        return False
    for path, (f, xs) in sorted(byfn.items()):
        inst = f"{path}|xml-chars"
        if looks(f):
            c.ok(R, inst)
        else:
            c.violation(R, f"{path}|unrepresentable-chars", f"{path} passes its text to xml-rs without looking for the characters XML 1.0 cannot carry: a String value or Name containing U+0001 (or NUL, U+000B, U+FFFE …) — legal in a Roblox string, round-tripped by rbx_binary — is written raw, the encode reports success, and the document is rejected by every XML parser including rbx_xml's own reader: the XML encoding of that DOM does not decode at all", core.loc(xs[0]), instance=inst)


def rule_scratch(c, prog, R="C05.scratch"):
    fns = [f for f in prog.lib_fns() if f.crate == "rbx_xml" and ("::serializer" in f.path or "::types::" in f.path)]
    common.rule_scratch(c, prog, R, fns, what="entry")


def run(c, prog):
    common.rule_base64_whole(c, prog, "C05.b64")
    rule_scratch(c, prog)
    rule_cr(c, prog)
    rule_tags(c, prog)
    rule_doc(c, prog)
    rule_read(c, prog)
    from . import C02
    C02.rule_twopass(core.Alias(c, "C05"), prog)     # `null` iff empty reference; forward references; dictionary defines every hash used
    C02.rule_name(core.Alias(c, "C05"), prog)
    C02.rule_float(c, prog, R="C05.float", foreign=True)     # alternative float spellings of another writer
    common.rule_writer_total(core.Alias(c, "C05"), prog, "C02.total", "xml")     # a value the writer aborts on has no document at all
    from . import C02_type
    from . import C02_tok
    C02_tok.run(core.Alias(c, "C05"), prog)     # token-stream types: separator, piece order
    C02_type.run(core.Alias(c, "C05"), prog)    # element names / layout written = element names / layout read, per type        # CDATA choice; adjacent text runs joined (ProtectedString / `]]>` splitting)
    c.not_decided += ["well-formedness as judged by an independent XML parser (xml-rs trusted)", "numeric spellings beyond INF/-INF/NAN", "indentation handling inside xml-rs"]
