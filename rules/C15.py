import re
import re
"""C15 — legacy property migration.  C15.tbl (perform() arms vs the bundled database), C15.sites (the four call sites)."""
from sa import core, db as dbm, tables, decision, flow
from . import common
from .common import vname

PERFORM = "rbx_reflection::migration::PropertyMigration::perform"
VARIANT_FROM = {  # type of the expression handed to `.into()` -> Variant kind
    "rbx_types::basic_types::Enum": "Enum", "rbx_types::font::Font": "Font", "rbx_types::basic_types::Color3uint8": "Color3uint8",
    "rbx_types::content::Content": "Content", "rbx_types::basic_types::Color3": "Color3", "bool": "Bool",
}


def perform_arms(c, prog):
    fn = prog.fn(PERFORM)
    m = tables.top_match(fn)
    arms = {}
    for arm in m["arms"]:
        for alt in tables.pat_alts(arm["pat"]):
            if alt[0] != "v":
                continue
            op = vname(alt[1])
            info = {"op": op, "input": None, "outputs": set(), "literals": None, "enum_outputs": set(), "node": arm}
            # the Variant kind(s) the arm accepts: every pattern the `input` parameter is matched against
            # (`if let Variant::X(..) = input` or `match input { Variant::X(..) => .. }`)
            in_lid = fn.params[1]["lid"] if len(fn.params) > 1 else None
            accepted = set()

            def variant_defs(p):
                out = set()
                stack = [p]
                while stack:
                    x = stack.pop()
                    if isinstance(x, dict):
                        if (x.get("def") or "").startswith(common.VARIANT + "::"):
                            out.add(vname(x["def"]))
                        stack.extend(v for v in x.values() if isinstance(v, (dict, list)))
                    elif isinstance(x, list):
                        stack.extend(x)
                return out
            for n in core.walk(arm["body"]):
                if n.get("k") == "LetExpr" and core.strip(n["init"]).get("lid") == in_lid:
                    accepted |= variant_defs(n["pat"])
                if n.get("k") == "Match" and n.get("src") == "Normal" and core.strip(n["e"]).get("lid") == in_lid:
                    for a2 in n["arms"]:
                        accepted |= variant_defs(a2["pat"])
            if len(accepted) == 1:
                info["input"] = next(iter(accepted))
            for n in core.walk(arm["body"]):
                # `.into()` producing the Variant
                if n.get("k") == "MethodCall" and n["m"] == "into" and n.get("ty") == common.VARIANT:
                    t = n["recv"].get("ty", "")
                    info["outputs"].add(VARIANT_FROM.get(t, t))
                    r = core.strip(n["recv"])
                    if r.get("k") == "Call" and (core.callee(r) or "").endswith("Enum::from_u32"):
                        v = core.lit_value(r["args"][0])
                        if v is not None:
                            info["enum_outputs"].add(v)
                if n.get("k") == "Match" and n.get("src") == "Normal" and n["e"].get("ty") == "u32":
                    lits = set()
                    for a2 in n["arms"]:
                        for al in tables.pat_alts(a2["pat"]):
                            if al[0] == "lit":
                                lits.add(al[1])
                    info["literals"] = lits
            arms[op] = info
    return fn, arms


def rule_tbl(c, prog, d):
    R = "C15.tbl"
    c.rule(R, "for every Migrate descriptor of the bundled database: the legacy type is the perform() arm's input type, the target resolves to a serialisable property whose serialized type is the arm's output type, and the arm's literal domain covers every item of the legacy enum; produced enum values exist in the target enum")
    fn, arms = perform_arms(c, prog)
    ops = {v["name"] for v in prog.adt("rbx_reflection::migration::MigrationOperation")["variants"]}
    for op in sorted(ops):
        if op in arms and arms[op]["input"] and len(arms[op]["outputs"]) == 1:
            c.ok(R, f"arm:{op}")
        else:
            c.violation(R, f"arm|{op}", f"perform(): arm for MigrationOperation::{op} not recognised (input {arms.get(op, {}).get('input')}, outputs {arms.get(op, {}).get('outputs')})", fn.sp, instance=f"arm:{op}")
    c.sample({"rule": R, "perform_arms": {op: {"input": a["input"], "output": sorted(a["outputs"]), "literals": (len(a["literals"]) if a["literals"] is not None else None)} for op, a in arms.items()}})
    n = 0
    for cl, p in sorted(d.all_props(), key=lambda x: (x[0].key, x[1].name)):
        if p.ser != "Migrate":
            continue
        n += 1
        pid = f"{cl.key}.{p.name}"
        a = arms.get(p.migrate_op)
        if a is None:
            c.violation(R, f"op|{pid}", f"{pid}: migration operation {p.migrate_op} has no arm in perform()", fn.sp, instance=f"db:{pid}")
            continue
        legacy = p.vtype()
        if legacy == a["input"]:
            c.ok(R, f"db:{pid}:input")
        else:
            c.violation(R, f"input|{pid}", f"{pid} is declared {legacy} but perform()'s {p.migrate_op} arm only accepts Variant::{a['input']}: every value fails to migrate", fn.sp, instance=f"db:{pid}:input")
        tgt = d.find_prop(cl.key, p.migrate_to)
        if tgt is not None and tgt.kind == "Alias":
            tgt = d.classes[tgt.cls.key].props.get(tgt.alias_for)
        if tgt is None:
            c.violation(R, f"target|{pid}", f"{pid}: migration target {p.migrate_to} does not resolve", "rbx_reflection_database/database.msgpack", instance=f"db:{pid}:target")
            continue
        st = tgt.vtype()
        if tgt.ser == "SerializesAs":
            sp = d.classes[tgt.cls.key].props.get(tgt.ser_as)
            st = sp.vtype() if sp else st
        out = next(iter(a["outputs"])) if a["outputs"] else None
        if out in (st, tgt.vtype()):
            c.ok(R, f"db:{pid}:output")
        else:
            c.violation(R, f"output|{pid}", f"{pid} migrates to {p.migrate_to} (type {tgt.vtype()}, serialized {st}) but the {p.migrate_op} arm produces Variant::{out}", fn.sp, instance=f"db:{pid}:output")
        # literal domain
        if p.dtype_kind == "Enum" and a["literals"] is not None:
            items = d.enums.get(p.dtype, (None, {}))[1]
            missing = sorted(v for v in items.values() if v not in a["literals"])
            inst = f"db:{pid}:domain"
            if not missing:
                c.ok(R, inst)
            else:
                names = sorted(k for k, v in items.items() if v in missing)
                c.violation(R, f"domain|{p.migrate_op}|Enum.{p.dtype}|missing=" + ",".join(str(x) for x in missing), f"Enum.{p.dtype} has {len(items)} items but perform()'s {p.migrate_op} arm has no case for values {missing} ({', '.join(names[:8])}): these legacy values cannot be migrated on any path (binary read drops them, XML read errors)", fn.sp, instance=inst)
        # produced enum values exist in the target enum
        if a["enum_outputs"] and tgt.dtype_kind == "Enum":
            items = d.enums.get(tgt.dtype, (None, {}))[1]
            bad = sorted(v for v in a["enum_outputs"] if v not in items.values())
            inst = f"db:{pid}:enum-out"
            if not bad:
                c.ok(R, inst)
            else:
                c.violation(R, f"enum-out|{pid}", f"{p.migrate_op} produces Enum values {bad} that are not items of Enum.{tgt.dtype}", fn.sp, instance=inst)
    c.floor(R, n, 12, "Migrate descriptors")


SITES = {
    "rbx_binary::deserializer::state::add_property": "binary reader",
    "rbx_binary::serializer::state::SerializerState::<'dom, 'db, W>::serialize_properties": "binary writer",
    "rbx_xml::deserializer::deserialize_properties": "xml reader",
    "rbx_xml::serializer::serialize_instance": "xml writer",
}


def rule_sites(c, prog, full=True):
    R = "C15.sites"
    c.rule(R, "PropertyMigration::perform is called from exactly the four codec sites; all use migration.new_property_name as the destination; both readers migrate only when the destination is absent and never store the legacy name on that path")
    g = flow.CallGraph(prog)
    callers = set()
    for src, tg in g.edges.items():
        if PERFORM in tg:
            f = prog.fns[src]
            callers.add(f.d.get("root") or src)
    libcallers = {x for x in callers if prog.fns[x].crate in core.LIB_CRATES}
    for s in sorted(libcallers | set(SITES)):
        inst = f"site:{s}"
        if s in SITES and s in libcallers:
            c.ok(R, inst)
        elif s in SITES:
            c.violation(R, f"site-missing|{s}", f"the {SITES[s]} ({s}) no longer applies PropertyMigration::perform: legacy properties are not migrated on that path", "", instance=inst)
        else:
            c.violation(R, f"site-new|{s}", f"{s} calls PropertyMigration::perform; it is not one of the four confirmed sites and must be compared with them", prog.fns[s].sp, instance=inst)
    # the four sites, each run symbolically on a migrating scenario (rules/C15_sites.py)
    from . import C15_sites as S
    from sa import sym as _sym
    results = {}
    for label, fnc in (("binary-reader", S.site_binary_reader), ("xml-reader", S.site_xml_reader), ("xml-writer", S.site_xml_writer), ("binary-writer", S.site_binary_writer)):
        try:
            fn_, res = fnc(prog)
            results[label] = (fn_, res)
        except (_sym.Unsupported, core.AnalysisError) as e:
            c.violation(R, f"{label}|cannot-analyse", f"the {label} migration site is outside the symbolic model: {e}", "", instance=f"{label}:paths")
    c.sample({"rule": R, "site_summaries": {k: {kk: (sorted(vv) if isinstance(vv, set) else vv) for kk, vv in v[1].items()} for k, v in results.items()}})
    for label in ("binary-reader", "xml-reader"):
        if label not in results:
            continue
        f, r = results[label]
        inst = f"{label}:absent-guard" if label == "binary-reader" else f"{label}:vacant-entry"
        good = r["migrated_store"] >= 1 and not r["bad_name"] and r["unguarded"] == 0 and r["legacy_store_on_ok"] == 0
        if good:
            c.ok(R, inst)
        else:
            c.violation(R, f"{label}|guard", f"{core.short(f.path)}: on a migrating property the migrated value must be stored only under migration.new_property_name and only when that property is not present yet, and the legacy name must never be stored (stores of a migrated value: {r['migrated_store']}, under another name: {r['bad_name']}, without an absence test of the destination: {r['unguarded']}, legacy-name stores after a successful migration: {r['legacy_store_on_ok']}): otherwise an explicit new value can be overwritten depending on element / chunk order", f.sp, instance=inst)
    # the other half of "explicit wins in either order": an explicit (non-migrating) value is always stored, whatever
    # is there already, so that it replaces a migrated value filed earlier; and a legacy value whose destination is
    # already present is ignored altogether, including its failure to migrate
    for label, fnc in (("binary-reader", S.explicit_binary_reader), ("xml-reader", S.explicit_xml_reader)):
        inst = f"{label}:explicit-always-stored"
        try:
            f, r = fnc(prog)
        except (_sym.Unsupported, core.AnalysisError) as e:
            c.violation(R, f"{label}|explicit|cannot-analyse", f"the {label} on an explicit property is outside the symbolic model: {e}", "", instance=inst)
            continue
        c.sample({"rule": R, "explicit_scenario": {label: r}})
        if r["paths"] >= 1 and r["stores"] == r["paths"] and not r["guarded"]:
            c.ok(R, inst)
        else:
            c.violation(R, f"{label}|explicit-not-stored", f"{core.short(f.path)}: a property that does not migrate must be stored on every path and without looking at what is already stored under its name (paths: {r['paths']}, storing: {r['stores']}, deciding on presence: {r['guarded'][:2]}): the migrated legacy value is filed under the same name when it comes first, and an explicit value that is then skipped loses to it", f.sp, instance=inst)
    for label in ("binary-reader", "xml-reader", "xml-writer"):
        if label not in results:
            continue
        f, r = results[label]
        inst = f"{label}:always-migrated-when-absent"
        if r.get("dropped_unmigrated"):
            c.violation(R, f"{label}|dropped-unmigrated", f"{core.short(f.path)}: {len(r['dropped_unmigrated'])} path(s) let a legacy value go without calling PropertyMigration::perform although the new property is not known to be present (path conditions: {r['dropped_unmigrated'][0]}): for those values this site yields no new property at all while the other three sites yield the migrated one", f.sp, instance=inst)
        else:
            c.ok(R, inst)
    for label in ("binary-reader", "xml-reader"):
        if label not in results or "err_paths" not in results[label][1]:
            continue
        f, r = results[label]
        total, blind = r["err_paths"]
        inst = f"{label}:failure-ignored-when-present"
        if blind:
            c.violation(R, f"{label}|err-before-presence", f"{core.short(f.path)}: {blind} path(s) end decoding because PropertyMigration::perform failed without having established that migration.new_property_name is absent: a file that gives the new property explicitly and then an unmigratable legacy value is rejected instead of decoding to the explicit value", f.sp, instance=inst)
        else:
            c.ok(R, inst)
    if "xml-writer" in results:
        f, r = results["xml-writer"]
        if r["migrated_store"] >= 1 and not r["bad_name"] and r["legacy_store_on_ok"] == 0:
            c.ok(R, "xml-writer:new-name")
        else:
            c.violation(R, "xml-writer|name", f"serialize_instance: a migrated value must be written under migration.new_property_name (and the legacy element not written as well): {r['bad_name']}, legacy writes after a successful migration: {r['legacy_store_on_ok']}", f.sp, instance="xml-writer:new-name")
    if "binary-writer" in results:
        f, r = results["binary-writer"]
        if r["migrated_store"] >= 1:
            c.ok(R, "binary-writer:migrates-value")
        else:
            c.violation(R, "binary-writer|value", "serialize_properties: the value chosen for a migrating column is no longer the result of PropertyMigration::perform", f.sp, instance="binary-writer:migrates-value")
    f = common.find_fn(prog, r"serializer::state::SerializerState.*::collect_type_info$")
    ok = False
    for n in core.walk_fn(f):
        if n.get("k") == "Call" and (core.callee(n) or "").endswith("core::find_property_descriptors") and len(n["args"]) == 3:
            if "new_property_name" in core.fingerprint(n["args"][2], 6):
                ok = True
    if ok:
        c.ok(R, "binary-writer:new-name")
    else:
        c.violation(R, "binary-writer|name", "collect_type_info: a migrating property must be filed under the descriptors of migration.new_property_name", f.sp, instance="binary-writer:new-name")
    if not full:
        return
    # what happens when perform fails (sibling comparison, reported as a table)
    table = {k: " / ".join(sorted(v[1]["err"])) or "(no failing path found)" for k, v in results.items()}
    c.sample({"rule": R, "perform_error_handling_by_site": table})
    # (the key spells the four behaviours out, so that a site that changes what it does on failure is a new violation
    # and not the recorded one)
    abbr = {"stores nothing (drops / skips the property)": "drop", "stores the unmigrated value": "keep-legacy", "hard error (returns Err)": "error", "(no failing path found)": "none"}
    sig = ",".join(f"{k}={'+'.join(sorted(abbr.get(x, x) for x in results[k][1]['err']) or ['none'])}" for k in sorted(results))
    for label in ("binary-reader", "xml-reader"):
        if label in results and results[label][1].get("legacy_store_on_err"):
            f_, r_ = results[label]
            c.violation(R, f"{label}|legacy-name-stored", f"{core.short(f_.path)}: when the migration fails the value is stored under the legacy name: the legacy name appears in the decoded DOM (the other reader and both writers never produce it)", f_.sp, instance=f"{label}:legacy-name-never-stored")
        elif label in results:
            c.ok(R, f"{label}:legacy-name-never-stored")
    if len(table) == 4 and len(set(table.values())) > 1:
        c.violation(R, "err-handling|differs|" + sig, f"the four sites treat a failed migration differently: {table}; together with an unmigratable legacy value this makes the result depend on the path (e.g. decodes from binary, errors from XML)", "", instance="err-handling")
    elif len(table) == 4:
        c.ok(R, "err-handling")


def rule_win(c, prog):
    """XML writer: a migrated value is written only when the instance does not carry the new property itself."""
    R = "C15.win"
    c.rule(R, "XML writer (symbolic paths of serialize_instance's property loop on a migrating property): every path that writes a value produced by PropertyMigration::perform assumes that `instance.properties` does not contain migration.new_property_name (explicit new value wins on write; the readers' guards are C15.sites, the binary writer's lookup order is C08.own)")
    from . import C15_sites as S
    from sa import sym as _sym
    try:
        f, r = S.site_xml_writer(prog)
    except (_sym.Unsupported, core.AnalysisError) as e:
        c.violation(R, "xml-writer|cannot-analyse", f"serialize_instance is outside the symbolic model: {e}", "", instance="xml-writer:explicit-wins")
        return
    c.floor(R, r["migrated_store"], 1, "paths writing a migrated value")
    if r["unguarded"]:
        c.violation(R, "xml-writer|explicit-not-checked", f"serialize_instance writes the migrated legacy value under migration.new_property_name on {r['unguarded']} path(s) without testing that the instance lacks that property: with both present two elements of the same name are written, and for migrations whose new name sorts before the legacy name (e.g. MeshId -> MeshContent) the migrated value is read back instead of the explicit one", f.sp, instance="xml-writer:explicit-wins")
    else:
        c.ok(R, "xml-writer:explicit-wins", max(r["migrated_store"], 1))
    # the same for a legacy value that cannot be migrated: it is written as it is — next to an explicit new value that is
    # an element the reader trips over before it reaches the explicit one
    inst = "xml-writer:explicit-wins-over-unmigratable"
    if r.get("legacy_store_on_err_unguarded"):
        c.violation(R, "xml-writer|explicit-not-checked-on-failure", f"serialize_instance writes the legacy element unmigrated on {r['legacy_store_on_err_unguarded']} path(s) where PropertyMigration::perform failed, without testing that the instance lacks migration.new_property_name: a TextLabel with Font = Unknown (100) and an explicit FontFace — the state Roblox reports for any non-legacy font — is written with <token name=\"Font\">100</token> before the FontFace element, and rbx_xml's reader rejects that file at the Font element", f.sp, instance=inst)
    else:
        c.ok(R, inst)


def rule_memo(c, prog):
    """binary writer: what is recorded per class for a property name must not depend on the instance that happened to be
    visited first"""
    R = "C15.memo"
    c.rule(R, "binary writer, type collection: a (class, property name) pair is examined once and the result (alias set, migration, column) is kept for every instance of the class; no decision on what is recorded may look into the visiting instance's other properties, or a legacy name first met on an instance that also carries the new property is never registered and later legacy-only instances lose their value")
    f = common.find_fn(prog, r"serializer::state::SerializerState.*::collect_type_info$")
    INST = "rbx_dom_weak::instance::Instance"

    def peel(ty):
        ty = ty or ""
        while ty.startswith("&"):
            ty = ty[5:] if ty.startswith("&mut ") else ty[1:]
        return ty

    def looks_into_instance(cond):
        """a query of the visiting instance's property map inside a condition"""
        for y in core.walk(cond):
            if y.get("k") == "MethodCall":
                r = core.strip(y["recv"])
                while r.get("k") in ("AddrOf", "Unary"):
                    r = core.strip(r["e"])
                if r.get("k") == "Field" and peel(core.strip(r["e"]).get("ty")) == INST and r.get("f") == "properties" and y["m"] not in ("iter", "len", "is_empty", "keys", "values"):
                    return core.fingerprint(y, 4)
        return None

    def is_record(x):
        """a write into the per-class table: alias registration, migration, a new PropInfo"""
        if x.get("k") == "MethodCall" and x["m"] in ("insert", "push", "extend", "entry"):
            rty = peel(core.strip(x["recv"]).get("ty"))
            root = core.place_root(x["recv"])
            return ("UstrSet" in rty or "HashSet" in rty or "PropInfo" in rty or "BTreeMap" in rty or "UstrMap" in rty) and root[0] not in (None, "self") or (root[0] == "self" and "type_infos" in "".join(root[1]))
        if x.get("k") == "Assign":
            l = core.strip(x["l"])
            return l.get("k") == "Field" and "PropInfo" in peel(core.strip(l["e"]).get("ty"))
        return False
    # walk with the stack of enclosing conditions, plus the conditions of earlier statements that can leave the iteration
    findings = []
    n_rec = [0]

    def leaves(n):
        return any(y.get("k") in ("Continue", "Ret", "Break") for y in core.walk(n, into_closures=False))

    def visit(n, conds):
        k = n.get("k")
        if is_record(n):
            n_rec[0] += 1
            for cnd in conds:
                q = looks_into_instance(cnd)
                if q:
                    findings.append((n, q))
        if k == "If":
            visit(n["c"], conds)
            visit(n["t"], conds + [n["c"]])
            if "f" in n:
                visit(n["f"], conds + [n["c"]])
            return
        if k == "Match":
            visit(n["e"], conds)
            for a in n["arms"]:
                cs = conds + [n["e"]] + ([a["guard"]] if "guard" in a else [])
                visit(a["body"], cs)
            return
        if k in ("Block", "Loop"):
            cs = list(conds)
            for e in core.block_exprs(n["b"]):
                visit(e, cs)
                # an earlier statement that may `continue` / return makes everything after it depend on its tests
                for y in core.walk(e, into_closures=False):
                    if y.get("k") == "If" and leaves(y):
                        cs = cs + [y["c"]]
                    elif y.get("k") == "Match" and leaves(y) and y.get("src") == "Normal":
                        cs = cs + [y["e"]] + [a["guard"] for a in y["arms"] if "guard" in a]
            return
        for ch in core.children(n):
            visit(ch, conds)
    visit(f.body, [])
    c.floor(R, n_rec[0], 2, "writes into the per-class property table in collect_type_info")
    seen = set()
    for n, q in findings:
        key = f"instance-dependent|{(n.get('m') or 'assign')}|{q.split('(')[0][-40:]}"
        if key in seen:
            continue
        seen.add(key)
        c.violation(R, key, f"collect_type_info records per-class information (`{core.fingerprint(n, 3)[:60]}`) under a condition that looks into the visiting instance's properties ({q[:80]}): the (class, name) pair is examined only once, so what the first instance carries decides for all later ones", core.loc(n), instance="collect_type_info:class-level-records")
    if not findings:
        c.ok(R, "collect_type_info:class-level-records", n_rec[0])


def rule_item_map(c, prog, R="C15.sites"):
    """XML reader: the presence test sees everything the item has accumulated so far, across <Properties> elements"""
    fn = prog.fn("rbx_xml::deserializer::deserialize_properties")
    inst = "xml-reader:presence-over-whole-item"
    MAP = re.compile(r"HashMap<ustr::Ustr, rbx_types::variant::Variant")

    def peel(ty):
        ty = ty or ""
        while ty.startswith("&"):
            ty = ty[5:] if ty.startswith("&mut ") else ty[1:]
        return ty
    plids = {}
    for i, prm in enumerate(fn.params):
        for b in core.walk(prm):
            if b.get("k") == "Binding":
                plids[b["lid"]] = (i, prm.get("ty") or "")
    tests = [x for x in core.walk_fn(fn) if x.get("k") == "MethodCall" and x["m"] in ("entry", "contains_key", "get") and MAP.search(peel(core.strip(x["recv"]).get("ty")).replace("std::collections::hash::map::", "").replace("ahash::", "")) and any("new_property_name" in core.fingerprint(a, 6) for a in x["args"])]
    if not tests:
        c.not_decided.append("deserialize_properties: the presence test of the migration target was not recognised")
        return
    r = core.strip(tests[0]["recv"])
    while r.get("k") in ("AddrOf", "Unary"):
        r = core.strip(r["e"])
    from_param = r.get("k") == "Path" and r.get("lid") in plids and plids[r["lid"]][1].startswith("&mut ")
    if not from_param:
        c.violation(R, "xml-reader|presence-map-local", "deserialize_properties tests for the new property in a map it created itself: an Item may spread its properties over several <Properties> elements, so an explicit value read from an earlier element is not seen and the migrated legacy value of a later one replaces it", core.loc(tests[0]), instance=inst)
        return
    # the caller hands in one map per item: declared outside the loop over the item's child elements
    idx = plids[r["lid"]][0]
    ok = True
    for g in prog.lib_fns():
        if g.body is None or g.crate != "rbx_xml":
            continue
        for y in core.walk_fn(g):
            if y.get("k") == "Call" and core.callee_generic(y) == fn.path:
                a = core.strip(core.call_args(y)[idx])
                while a.get("k") in ("AddrOf", "Unary"):
                    a = core.strip(a["e"])
                if a.get("k") != "Path" or a.get("res") != "local":
                    ok = False
                    continue
                for lp in core.walk_fn(g):
                    if lp.get("k") == "Loop" and any(z is y for z in core.walk(lp)) and any(st["pat"].get("lid") == a["lid"] for st in core.walk_lets(lp)):
                        ok = False
    if ok:
        c.ok(R, inst)
    else:
        c.violation(R, "xml-reader|presence-map-per-element", "the map handed to deserialize_properties is created anew for every <Properties> element of an Item: the presence test of a migration target does not see values read from an earlier element", fn.sp, instance=inst)


def xml_written_groups(prog, d):
    """{(declaring class, canonical property the element is read back into): {(DOM key, 'plain'|'migrated')}} for every
    group of two or more DOM keys of one instance that the XML writer resolves to the same property"""
    from . import C06
    xt = C06.extract_sym(prog, prog.fn("rbx_xml::core::find_property_descriptors"))
    groups = {}
    for ck in sorted(d.classes):
        names = set()
        for a in d.chain(ck):
            names |= set(d.classes[a].props)
        for nm in names:
            r = C06.evaluate(xt, d, ck, nm)
            if not (isinstance(r, tuple) and isinstance(r[0], tuple) and isinstance(r[1], tuple)):
                continue
            scls, sname = r[1]
            sp = d.classes[scls].props[sname]
            if sp.kind == "Canonical" and sp.ser == "Migrate":
                tgt = d.find_prop(ck, sp.migrate_to)
                if tgt is None:
                    continue
                if tgt.kind == "Alias":
                    tgt = d.find_prop(ck, tgt.alias_for) or tgt
                groups.setdefault((tgt.cls if isinstance(tgt.cls, str) else getattr(tgt.cls, "name", scls), tgt.name), set()).add((nm, "migrated"))
            else:
                groups.setdefault((r[0][0], r[0][1]), set()).add((nm, "plain"))
    return {k: v for k, v in groups.items() if len(v) > 1}


def rule_one(c, prog, d, R="C15.one"):
    """one element per logical property per instance"""
    c.rule(R, "XML writer: the DOM keys of one instance that denote the same property (canonical name, aliases, legacy names that migrate to it — enumerated from the bundled database through the writer's own descriptor lookup) produce one element: either the writer keeps a per-instance record of what it has written / ranks the keys before writing, or every such group is covered by its `explicit canonical key present` test; otherwise two elements are written and the reader keeps whichever comes last in key order, so which value survives depends on how the properties are spelled")
    fn = prog.fn("rbx_xml::serializer::serialize_instance")
    # a general de-duplication: a set / map local that is filled and consulted inside the property loop
    dedupe = False
    for st in core.walk_lets(fn.body):
        ty = (st["pat"].get("ty") or "") + ((st.get("init") or {}).get("ty") or "")
        if st["pat"].get("k") == "Binding" and re.search(r"(Hash|BTree|Ustr|Index)(Set|Map)<", ty):
            lid = st["pat"]["lid"]
            uses = {x["m"] for x in core.walk_fn(fn) if x.get("k") == "MethodCall" and core.strip(x["recv"]).get("lid") == lid}
            if uses & {"insert", "entry"} and (uses & {"contains", "contains_key", "get", "entry", "insert"}):
                dedupe = True
    inst = "xml-writer:one-element-per-property"
    if dedupe:
        c.ok(R, inst)
        return
    groups = xml_written_groups(prog, d)
    c.rules[R]["obligations"] += len(groups)
    # covered by the existing test `instance.properties.contains_key(migration.new_property_name)`: migrated keys plus
    # the canonical new name itself — and only one migrated key
    open_groups = {}
    for (cls, prop), members in groups.items():
        plain = sorted(n for n, k in members if k == "plain")
        mig = sorted(n for n, k in members if k == "migrated")
        if len(mig) == 1 and plain == [prop]:
            continue
        open_groups[(cls, prop)] = (plain, mig)
    c.rules[R]["discharged"] += len(groups) - len(open_groups)
    if not open_groups:
        c.ok(R, inst)
        return
    kinds = {"alias": [g for g, (p, m) in open_groups.items() if len(p) > 1 and not m], "two-legacy": [g for g, (p, m) in open_groups.items() if len(m) > 1], "legacy+alias": [g for g, (p, m) in open_groups.items() if m and any(x != g[1] for x in p)]}
    ex = []
    for label, gs in kinds.items():
        if gs:
            g = sorted(gs)[0]
            p_, m_ = open_groups[g]
            ex.append(f"{label}: {len(gs)} groups, e.g. {g[0]}.{g[1]} <- {' + '.join(p_ + m_)}")
    c.violation(R, "xml-writer|spellings-written-independently", f"serialize_instance resolves and writes every DOM key on its own; {len(open_groups)} groups of keys in the bundled database denote one property without being covered by its `contains_key(new_property_name)` test ({'; '.join(ex)}): an instance carrying two of them is written with two elements for one property and reads back with the value of whichever key sorts last — the canonical value loses to its lower-case alias, an explicit value stored under an alias loses to a legacy one, and rbx_binary picks the other one", fn.sp, instance=inst)


def run(c, prog):
    d = dbm.Database()
    rule_win(c, prog)
    rule_one(c, prog, d)
    rule_tbl(c, prog, d)
    rule_sites(c, prog)
    rule_memo(c, prog)
    from . import C08
    C08.rule_own(core.Alias(c, "C15"), prog)     # binary writer: an explicit (canonical) value is looked up before any legacy alias
    C08.rule_pref(core.Alias(c, "C15"), prog)    # ... and an explicit value under an alias of the new property before a legacy spelling
    from . import C10
    C10.rule_frame(core.Alias(c, "C15"), prog)    # the binary reader's `explicit value pushed later wins` relies on WeakDom::insert keeping the LAST of two builder entries
    rule_item_map(c, prog)
    c.not_decided += ["equality of the migrated values on the four paths beyond `one function produces them all`"]
