"""C14.empty (empty map <-> zero bytes), C14.one (one codec for every file format), C14.store (BTreeMap)."""
from sa import core, ioseq, decision, flow
from . import common

RD = "rbx_types::attributes::reader::"
WR = "rbx_types::attributes::writer::"


def run(c, prog):
    R = "C14.empty"
    c.rule(R, "writer: an empty map returns before the count is written; reader: zero bytes => empty map via read_option_u32, a partial length => error")
    w = prog.fn(WR + "write_attributes")

    def is_w(n):
        cal = core.callee_generic(n) or ""
        nm = cal.rsplit("::", 1)[-1]
        return nm if (nm.startswith("write_") or nm == "write_all") else None
    sk = ioseq.skeleton(w.body, is_w)
    first = sk[0] if sk else None
    ok = False
    if first and first[0] == "if":
        cnd = core.strip(first[1])
        if cnd.get("k") == "MethodCall" and cnd["m"] == "is_empty" and core.place_root(cnd["recv"])[0] == "map" and [x[0] for x in first[2]] == ["ret"] and not first[3]:
            ok = True
    if ok:
        c.ok(R, "writer:empty-returns-first")
    else:
        c.violation(R, "writer|empty", "write_attributes no longer returns Ok(()) for an empty map before writing anything (an empty map must encode to zero bytes)", w.sp, instance="writer:empty-returns-first")
    # count written = map.len() as u32 LE, then loop over the same map
    calls = [x for x in sk if x[0] in ("call", "for")]
    ok = len(calls) >= 2 and calls[0][0] == "call" and calls[0][1] == "write_all" and calls[1][0] == "for" and core.place_root(calls[1][2])[0] == "map"
    if ok:
        a = core.strip(calls[0][2]["args"][0])
        fp = core.fingerprint(a, 6)
        ok = "map.len()" in fp and "to_le_bytes" in fp and "u32" in fp
    if ok and len(calls) == 2:
        c.ok(R, "writer:count-then-entries")
    else:
        c.violation(R, "writer|count", "write_attributes does not write `map.len() as u32` little-endian followed by one entry per element of the same map", w.sp, instance="writer:count-then-entries")
    r = prog.fn(RD + "read_attributes")
    m = None
    for st in core.walk_lets(r.body):
        if st["pat"].get("name") == "len" and "init" in st:
            m = core.strip(st["init"])
    ok = False
    if m and m.get("k") == "Match":
        sc = core.strip(m["e"])
        if sc.get("k") == "Call" and core.callee(sc) == RD + "read_option_u32":
            rows = {}
            for arm in m["arms"]:
                rows[core.pat_str(arm["pat"])] = core.fingerprint(arm["body"], 4)
            ok = rows.get("Result::Ok(Option::Some(len))") == "len" and rows.get("Result::Ok(Option::None)", "").startswith("Ret") or False
            body_none = [arm for arm in m["arms"] if core.pat_str(arm["pat"]) == "Result::Ok(Option::None)"]
            if body_none:
                b = core.strip(body_none[0]["body"])
                ok = rows.get("Result::Ok(Option::Some(len))") == "len" and b.get("k") == "Ret" and core.fingerprint(b["e"], 3).startswith("Result::Ok(attributes")
            errarm = [arm for arm in m["arms"] if core.pat_str(arm["pat"]).startswith("Result::Err")]
            ok = ok and bool(errarm) and core.strip(errarm[0]["body"]).get("k") == "Ret"
    if ok:
        c.ok(R, "reader:zero-bytes-empty")
    else:
        c.violation(R, "reader|empty", "read_attributes no longer maps `no bytes at all` to an empty map / a partial length to an error through read_option_u32", r.sp, instance="reader:zero-bytes-empty")
    # read_option_u32 uses read_exact_or_none and LE
    ro = prog.fn(RD + "read_option_u32")
    cals = [core.callee(n) for n in core.walk_fn(ro) if n.get("k") in ("Call", "MethodCall")]
    if RD + "read_exact_or_none" in cals and any(x and x.endswith("<impl u32>::from_le_bytes") for x in cals):
        c.ok(R, "reader:option-u32")
    else:
        c.violation(R, "reader|option_u32", "read_option_u32 no longer reads 4 bytes through read_exact_or_none and decodes them little-endian", ro.sp, instance="reader:option-u32")

    R = "C14.one"
    c.rule(R, "both file formats produce/consume the attribute blob only through Attributes::to_writer / from_reader; the map is a BTreeMap (sorted unique names)")
    g = flow.CallGraph(prog)
    callers_w, callers_r = set(), set()
    for src, tgts in g.edges.items():
        if "rbx_types::attributes::Attributes::to_writer" in tgts:
            callers_w.add(src.split("::{closure")[0])
        if "rbx_types::attributes::Attributes::from_reader" in tgts:
            callers_r.add(src.split("::{closure")[0])
    want_w = {"rbx_binary::serializer::state::SerializerState::<'dom, 'db, W>::serialize_properties", "rbx_xml::types::attributes::write_attributes", "rbx_xml::conversion::<impl rbx_xml::conversion::ConvertVariant for rbx_types::variant::Variant>::try_convert_cow"}
    want_r = {"rbx_binary::deserializer::state::DeserializerState::<'db, R>::decode_prop_chunk", "rbx_xml::conversion::<impl rbx_xml::conversion::ConvertVariant for rbx_types::variant::Variant>::try_convert_cow"}
    def crate_of(x):
        f = prog.fns.get(x)
        return f.crate if f else x.split("::")[0]
    lw = {crate_of(x) for x in callers_w}
    lr = {crate_of(x) for x in callers_r}
    for need, have, what in ((("rbx_binary", "rbx_xml"), lw, "to_writer"), (("rbx_binary", "rbx_xml"), lr, "from_reader")):
        for crate in need:
            inst = f"{what}:{crate}"
            if crate in have:
                c.ok(R, inst)
            else:
                c.violation(R, f"{what}|{crate}", f"{crate} no longer goes through Attributes::{what} for the Attributes property", "", instance=inst)
    # nobody outside rbx_types::attributes calls the internal reader/writer
    for src, tgts in g.edges.items():
        for t in tgts:
            if t in (RD + "read_attributes", WR + "write_attributes") and not src.startswith("rbx_types::attributes::"):
                c.violation(R, f"bypass|{src}", f"{src} calls {t} directly instead of Attributes::from_reader/to_writer", "")
    a = prog.adt("rbx_types::attributes::Attributes")
    f = a["variants"][0]["fields"][0]
    if f["ty"].startswith("alloc::collections::btree::map::BTreeMap<"):
        c.ok(R, "store:BTreeMap")
    else:
        c.violation(R, "store|type", f"Attributes stores its entries in `{f['ty']}`; a BTreeMap keeps names sorted and unique (also a determinism fact, C07)", a["sp"], instance="store:BTreeMap")
