"""C14.empty (empty map <-> zero bytes), C14.one (one codec for every file format), C14.store (BTreeMap)."""
from sa import core, ioseq, decision, flow
from . import common

RD = "rbx_types::attributes::reader::"
WR = "rbx_types::attributes::writer::"


def facts(conds):
    """atomic facts of a path condition list (conjunctions flattened)"""
    out = []
    stack = list(conds)
    while stack:
        x = stack.pop()
        if isinstance(x, tuple) and x and x[0] == "and":
            stack.extend(x[1])
        else:
            out.append(x)
    return out


def contains(t, sub):
    if t == sub:
        return True
    if isinstance(t, tuple):
        return any(contains(x, sub) for x in t)
    return False


def run(c, prog):
    from sa import sym, wire
    R = "C14.empty"
    c.rule(R, "symbolic paths: writer — an empty map writes nothing and returns Ok; a non-empty map first writes `map.len() as u32` little-endian, then one entry per element of the same map.  reader — `no bytes at all` (read_option_u32 = Ok(None)) yields the empty map without reading anything more; a partial length is an error")
    w = prog.fn(WR + "write_attributes")
    env = {p["lid"]: ("in", p["name"]) for p in w.params}
    mapt = ("in", w.params[0]["name"]) if "BTreeMap" in (w.params[0].get("ty") or "") else next((("in", p["name"]) for p in w.params if "BTreeMap" in (p.get("ty") or "")), None)
    ok_empty = ok_count = False
    why = ""
    try:
        I, val, ex = wire.run_region(prog, w.body, env, wire.BYTE_PRIMS, depth=8)
        paths = sym.event_paths(I.events)
        for conds, evs, x, v in paths:
            fs = facts(conds)
            emp = [f for f in fs if f[0] == "app" and f[1].endswith("::is_empty") and f[2] == (mapt,)]
            nonemp = [f for f in fs if f[0] == "not" and f[1][0] == "app" and f[1][1].endswith("::is_empty") and f[1][2] == (mapt,)]
            lenz = [f for f in fs if f[0] == "op" and f[1] == "==" and contains(f, ("len", ("iter", mapt))) and ("c", 0) in f]
            if emp or lenz:
                rv = v if x == "return" else sym.resolve(val, conds)
                if not [e for e in evs if e[0] in ("W", "rep")] and sym.is_var(rv, sym.OK):
                    ok_empty = True
                else:
                    why = "the empty-map path writes bytes or does not return Ok"
            elif nonemp or not (emp or lenz):
                ws = [e for e in evs if e[0] in ("W", "rep")]
                if x == "err":
                    continue
                if len(ws) >= 2 and ws[0][0] == "W" and ws[1][0] == "rep":
                    t = ws[0][2]
                    good = t[0] == "app" and t[1].endswith("<impl u32>::to_le_bytes")
                    a = t[2][0] if good else None
                    while a is not None and a[0] == "cast":
                        a = a[2]
                    good = good and a == ("len", ("iter", mapt)) and sym.norm_dom(ws[1][1]) == sym.norm_dom(("iter", mapt))
                    if good and len(ws) == 2:
                        ok_count = True
                    else:
                        why = f"the non-empty path starts with {sym.term_str(t, 5)} followed by a loop over {sym.term_str(ws[1][1], 4)}" + ("" if len(ws) == 2 else " and further writes")
                else:
                    why = "the non-empty path does not start with a count followed by one loop over the map"
    except (sym.Unsupported, core.AnalysisError) as e:
        why = f"outside the symbolic model: {e}"
    if ok_empty:
        c.ok(R, "writer:empty-returns-first")
    else:
        c.violation(R, "writer|empty", f"write_attributes no longer returns Ok(()) for an empty map before writing anything (an empty map must encode to zero bytes) {why}", w.sp, instance="writer:empty-returns-first")
    if ok_count:
        c.ok(R, "writer:count-then-entries")
    else:
        c.violation(R, "writer|count", f"write_attributes does not write `map.len() as u32` little-endian followed by one entry per element of the same map ({why})", w.sp, instance="writer:count-then-entries")
    # reader
    r = prog.fn(RD + "read_attributes")
    env = {p["lid"]: ("in", p["name"]) for p in r.params}
    ok = False
    why = ""
    try:
        I, val, ex = wire.run_region(prog, r.body, env, wire.BYTE_PRIMS, depth=8, opaque={RD + "read_option_u32"})
        paths = sym.event_paths(I.events)
        A = None
        none_ok = err_ok = some_ok = False
        for conds, evs, x, v in paths:
            fs = facts(conds)
            is_none = any(f[0] == "is" and f[2] == sym.NONE and contains(f[1], RD + "read_option_u32") for f in fs)
            # the else branch of `if let Some(len) = read_option_u32(..)..? { .. } else { .. }`: not Some, of the Option
            # inside the Ok (the `?` / map_err has dealt with the Err)
            is_none = is_none or any(f[0] == "not" and isinstance(f[1], tuple) and f[1][0] == "is" and f[1][2] == sym.SOME and isinstance(f[1][1], tuple) and f[1][1][0] in ("try", "payload")
                                     and contains(f[1][1], RD + "read_option_u32") for f in fs)
            is_err = any(f[0] == "is" and f[2] == sym.ERR and contains(f[1], RD + "read_option_u32") for f in fs)
            is_some = any(f[0] == "is" and f[2] == sym.SOME and contains(f[1], RD + "read_option_u32") for f in fs)
            rv = v if x == "return" else sym.resolve(val, conds)
            if is_none:
                if not [e for e in evs if e[0] in ("R", "rep")] and sym.is_var(rv, sym.OK) and rv[2] and rv[2][0][0] == "app" and rv[2][0][1].endswith("BTreeMap::<K, V>::new"):
                    none_ok = True
                else:
                    why = "the `no bytes` path reads further or does not return an empty map"
            elif is_err:
                if x in ("return", "err") and not sym.is_var(rv, sym.OK):
                    err_ok = True
                else:
                    why = "a failed length read does not end in an error"
            elif is_some:
                some_ok = True
            # `read_option_u32(..)?`: the `?` operator propagates the failure (sa.sym keeps it as a ('try', call) term)
            if any(f[0] == "is" and isinstance(f[1], tuple) and f[1][0] == "try" and contains(f[1], RD + "read_option_u32") for f in fs):
                err_ok = True
        ok = none_ok and err_ok and some_ok
        if not why and not ok:
            why = f"paths found: empty={none_ok}, error={err_ok}, entries={some_ok}"
    except (sym.Unsupported, core.AnalysisError) as e:
        why = f"outside the symbolic model: {e}"
    if ok:
        c.ok(R, "reader:zero-bytes-empty")
    else:
        c.violation(R, "reader|empty", f"read_attributes no longer maps `no bytes at all` to an empty map / a partial length to an error through read_option_u32 ({why})", r.sp, instance="reader:zero-bytes-empty")
    # read_option_u32 uses read_exact_or_none and LE
    ro = prog.fn(RD + "read_option_u32")
    cals = [core.callee(n) for n in core.walk_fn(ro) if n.get("k") in ("Call", "MethodCall")]
    if RD + "read_exact_or_none" in cals and any(x and x.endswith("<impl u32>::from_le_bytes") for x in cals):
        c.ok(R, "reader:option-u32")
    else:
        c.violation(R, "reader|option_u32", "read_option_u32 no longer reads 4 bytes through read_exact_or_none and decodes them little-endian", ro.sp, instance="reader:option-u32")

    R = "C14.one"
    c.rule(R, "both file formats produce/consume the attribute blob only through Attributes::to_writer / from_reader; the map is a BTreeMap (sorted unique names)")
    g = flow.CallGraph(prog)
    callers_w, callers_r = set(), set()
    for src, tgts in g.edges.items():
        if "rbx_types::attributes::Attributes::to_writer" in tgts:
            callers_w.add(src.split("::{closure")[0])
        if "rbx_types::attributes::Attributes::from_reader" in tgts:
            callers_r.add(src.split("::{closure")[0])
    want_w = {"rbx_binary::serializer::state::SerializerState::<'dom, 'db, W>::serialize_properties", "rbx_xml::types::attributes::write_attributes", "rbx_xml::conversion::<impl rbx_xml::conversion::ConvertVariant for rbx_types::variant::Variant>::try_convert_cow"}
    want_r = {"rbx_binary::deserializer::state::DeserializerState::<'db, R>::decode_prop_chunk", "rbx_xml::conversion::<impl rbx_xml::conversion::ConvertVariant for rbx_types::variant::Variant>::try_convert_cow"}
    def crate_of(x):
        f = prog.fns.get(x)
        return f.crate if f else x.split("::")[0]
    lw = {crate_of(x) for x in callers_w}
    lr = {crate_of(x) for x in callers_r}
    for need, have, what in ((("rbx_binary", "rbx_xml"), lw, "to_writer"), (("rbx_binary", "rbx_xml"), lr, "from_reader")):
        for crate in need:
            inst = f"{what}:{crate}"
            if crate in have:
                c.ok(R, inst)
            else:
                c.violation(R, f"{what}|{crate}", f"{crate} no longer goes through Attributes::{what} for the Attributes property", "", instance=inst)
    # nobody outside rbx_types::attributes calls the internal reader/writer
    for src, tgts in g.edges.items():
        for t in tgts:
            if t in (RD + "read_attributes", WR + "write_attributes") and not src.startswith("rbx_types::attributes::"):
                c.violation(R, f"bypass|{src}", f"{src} calls {t} directly instead of Attributes::from_reader/to_writer", "")
    a = prog.adt("rbx_types::attributes::Attributes")
    f = a["variants"][0]["fields"][0]
    if f["ty"].startswith("alloc::collections::btree::map::BTreeMap<"):
        c.ok(R, "store:BTreeMap")
    else:
        c.violation(R, "store|type", f"Attributes stores its entries in `{f['ty']}`; a BTreeMap keeps names sorted and unique (also a determinism fact, C07)", a["sp"], instance="store:BTreeMap")
