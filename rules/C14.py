"""C14 — attribute blobs.  C14.ids (type_ids! table vs docs/attributes.md, arms), C14.empty, C14.one, C14.arm (sa.shape)."""
from sa import core, tables, spec
from . import common
from .common import vname

TID = "rbx_types::attributes::type_id::"
DOC_NAME = {}   # doc heading -> VariantType name (identity unless listed)
STRING_ALIAS = ("String", "BinaryString")


def data_table(prog, fn):
    """the table as data: [(VariantType name, id)] rows of the const slice the function searches (`TABLE.iter().find(..)`:
    the first matching row wins), and the explicit `if ty == VariantType::X { return Some(id) }` cases in front"""
    VT = "rbx_types::variant::VariantType::"
    rows, first = [], []
    for m in core.walk_fn(fn):
        if m.get("k") == "Path" and str(m.get("res", "")).startswith(("Const", "Static")):
            cf = prog.fns.get(m.get("def") or "")
            if cf is not None and cf.body is not None:
                for y in core.walk(cf.body):
                    if y.get("k") == "Tup" or (y.get("k") == "Tuple"):
                        el = [core.strip(z) for z in (y.get("args") or y.get("es") or y.get("elems") or [])]
                        if len(el) == 2 and el[0].get("k") == "Path" and (el[0].get("def") or "").startswith(VT) and isinstance(core.lit_value(el[1]), int):
                            rows.append((vname(el[0]["def"]), core.lit_value(el[1])))
        if m.get("k") == "If":
            cnd = core.strip(m["c"])
            if cnd.get("k") == "Binary" and cnd.get("op") == "==":
                rets = [z for z in core.walk(m["t"]) if z.get("k") == "Ret"]
                vt = [core.strip(sd) for sd in (cnd["l"], cnd["r"]) if core.strip(sd).get("k") == "Path" and (core.strip(sd).get("def") or "").startswith(VT)]
                if rets and vt:
                    lits = [core.lit_value(z) for z in core.walk(rets[0]) if z.get("k") == "Lit" and isinstance(core.lit_value(z), int)]
                    if lits:
                        first.append((vname(vt[0]["def"]), lits[0]))
    return first, rows


def rule_ids(c, prog):
    R = "C14.ids"
    c.rule(R, "type_ids! tables: from_variant_type / to_variant_type mutually inverse (except String->0x02), ids = docs/attributes.md, every id has a reader arm and every typed variant a writer arm")
    frm = prog.fn(TID + "from_variant_type")
    to = prog.fn(TID + "to_variant_type")
    try:
        fm, fd, _ = tables.simple_map(frm)
        tm, td, _ = tables.simple_map(to)
        v2i = {vname(k[1]): v[1] for k, v in fm.items() if k[0] == "v" and v[0] == "lit"}
        i2v = {k[1]: vname(v[1]) for k, v in tm.items() if k[0] == "lit" and v[0] == "v"}
    except core.AnchorMissing:
        f1, r1 = data_table(prog, frm)
        f2, r2 = data_table(prog, to)
        if not r1 or not r2:
            raise
        v2i, i2v, fd, td = {}, {}, [], []
        for v, i in f1 + r1:
            v2i.setdefault(v, i)
        for v, i in r2:
            i2v.setdefault(i, v)
        seen = set()
        for v, i in r1:
            if v in seen:
                fd.append(v)
            seen.add(v)
    for d in fd + td:
        c.violation(R, f"dup|{d}", f"type_ids! lists {d} twice", frm.sp)
    c.floor(R, len(i2v), 18, "attribute type ids")
    for i, v in sorted(i2v.items()):
        if v2i.get(v) == i:
            c.ok(R, f"inv:{v}")
        else:
            c.violation(R, f"inv|{v}", f"to_variant_type({i:#04x}) = {v} but from_variant_type({v}) = {v2i.get(v)}", frm.sp, instance=f"inv:{v}")
    for v, i in sorted(v2i.items()):
        if i2v.get(i) != v:
            if v == "String" and i2v.get(i) == "BinaryString":
                c.ok(R, "alias:String->BinaryString")
            else:
                c.violation(R, f"inv2|{v}", f"from_variant_type({v}) = {i:#04x} but to_variant_type({i:#04x}) = {i2v.get(i)}", frm.sp, instance=f"inv:{v}")
    # docs
    doc = spec.type_ids("attributes.md")
    c.floor(R, len(doc), 18, "documented attribute type ids")
    for name, (tid, _) in sorted(doc.items()):
        v = DOC_NAME.get(name, name)
        code = v2i.get(v)
        if code == tid:
            c.ok(R, f"doc:{name}")
        else:
            c.violation(R, f"doc|{name}", f"docs/attributes.md gives {name} type id {tid:#04x}, type_ids! has {code if code is None else hex(code)}", frm.sp, instance=f"doc:{name}")
    for v, i in sorted(v2i.items()):
        if v not in doc and v != "BinaryString":
            c.violation(R, f"undoc|{v}", f"attribute type {v} ({i:#04x}) is not documented in docs/attributes.md", "docs/attributes.md", instance=f"doc:{v}")
    # reader arms: one per id'd type; writer arms: one per Variant with an id
    rd = prog.fn("rbx_types::attributes::reader::read_attributes")
    rm = tables.top_match(rd, "ty")
    rarms = {vname(a[1]) for a, _ in tables.table(rm) if a[0] == "v"}
    for v in sorted(set(i2v.values())):
        if v in rarms:
            c.ok(R, f"rarm:{v}")
        else:
            c.violation(R, f"rarm|{v}", f"read_attributes has no arm for VariantType::{v} although id {v2i.get(v)} maps to it (falls into UnsupportedVariantType)", rd.sp, instance=f"rarm:{v}")
    wr = prog.fn("rbx_types::attributes::writer::write_attributes")
    wm = tables.top_match(wr, "variant")
    warms = set()
    for a, _ in tables.table(wm):
        if a[0] == "ctor":
            warms.add(vname(a[1]))
    for v in sorted(v2i):
        if v in warms:
            c.ok(R, f"warm:{v}")
        else:
            c.violation(R, f"warm|{v}", f"write_attributes has no arm for Variant::{v}, which has a type id: hits the `unreachable!` arm (panic while serializing)", wr.sp, instance=f"warm:{v}")
    for v in sorted(warms - set(v2i)):
        c.violation(R, f"warm-extra|{v}", f"write_attributes has an arm for Variant::{v} but it has no type id (dead arm)", wr.sp)
    c.sample({"rule": R, "ids": {v: hex(i) for v, i in sorted(v2i.items())}})


def rule_narrow(c, prog, R="C14.arm"):
    """numbers read from the blob are not silently truncated before they are validated"""
    W = {"u8": 8, "i8": 8, "u16": 16, "i16": 16, "u32": 32, "i32": 32, "u64": 64, "i64": 64, "usize": 64, "isize": 64}
    n = 0
    for f in prog.lib_fns():
        if f.body is None or f.crate != "rbx_types" or "attributes::reader" not in f.path:
            continue
        lets = {st["pat"]["lid"]: st["init"] for st in core.walk_lets(f.body) if st["pat"].get("k") == "Binding" and st.get("init") is not None}
        for x in core.walk_fn(f):
            if x.get("k") != "Cast":
                continue
            src = core.strip(x["e"])
            sty, tty = (src.get("ty") or ""), (x.get("ty") or "")
            if sty in W and tty in W and W[tty] < W[sty]:
                # where does the operand come from: a value read from the blob?
                e = src
                if e.get("k") == "Path" and e.get("lid") in lets:
                    e = lets[e["lid"]]
                from_input = any(y.get("k") in ("Call", "MethodCall") and ((core.callee(y) or "").rsplit("::", 1)[-1].startswith("read_")) for y in core.walk(e))
                if not from_input:
                    continue
                n += 1
                c.violation(R, f"narrowing|{core.short(f.path).rsplit('::', 1)[-1]}|{sty}->{tty}", f"{f.path} truncates a {sty} read from the blob to {tty} with `as` before using it: values above {2 ** W[tty] - 1} wrap into the valid range instead of being rejected (e.g. BrickColor number 65537 decodes as White); convert with try_from", core.loc(x), instance=f"narrowing:{core.short(f.path)}")
    if n == 0:
        c.ok(R, "reader:no-narrowing-cast-of-input")


def run(c, prog):
    common.rule_base64_whole(c, prog, "C14.b64")
    from . import C01 as _C01
    _C01.rule_codes(core.Alias(c, "C14"), prog)     # Font's number tables, relied upon by this property's Font arm
    rule_ids(c, prog)
    from . import C14_rest, C14_arm
    C14_rest.run(c, prog)
    C14_arm.run(c, prog)
    rule_narrow(c, prog)
    from . import C17_domain
    C17_domain.run(core.Alias(c, "C14"), prog, which=("font",))     # `fonts with and without cached face`: None and Some("") share one spelling
    from . import C01_rot
    C01_rot.run(core.Alias(c, "C14"), prog)     # the CFrame attribute shares the 24 rotation ids
    C01_rot.rule_exact(c, prog, "C14.rot", "the attribute writer")
    from . import C13 as _C13
    a13 = core.Alias(c, "C14")
    a13.rule("C13.read", "Attributes::from_reader: zero bytes is the empty map, anything else is read completely however the reader delivers it (read_exact_or_none)")
    _C13.rule_read_or_none(a13, prog, "C13.read")
    from . import C08
    C08.rule_scratch(core.Alias(c, "C14"), prog)   # the Attributes blob of one instance must not start with another's
    c.not_decided += ["round trip for every payload (a run)", "String::from_utf8 (std)"]
