"""C02.type — per XmlType impl, write_xml and read_xml have dual event grammars (start/end tags with literal names, character data)
and the value read is the identity on the value written (field coverage), via sa.sym / sa.shape with XML-level primitives."""
import re

from sa import core, sym, shape, wire
from sa.sym import C, OK, SOME, NONE, ERR, UNIT, var, is_var, fld, payload, term_str
from . import common
from .C02 import XT, xml_tag_names

XW = r"rbx_xml::serializer_core::XmlEventWriter::<W>::"
XR = r"rbx_xml::deserializer_core::XmlEventReader::<R>::"


def targ(n):
    """trailing generic argument of the call's resolved path (`...::write_value_in_tag::<f32>`)"""
    da = (n.get("defargs") if n.get("k") == "MethodCall" else n.get("f", {}).get("defargs")) or ""
    if not da.endswith(">"):
        return None
    depth = 0
    i = len(da) - 1
    while i >= 0:
        ch = da[i]
        if ch == ">":
            depth += 1
        elif ch == "<":
            depth -= 1
            if depth == 0:
                break
        i -= 1
    if i < 2 or da[i - 2:i] != "::":
        return None
    args = split_top(da[i + 1:-1])
    return args[0] if args else None


def split_top(s):
    out, depth, cur = [], 0, ""
    for ch in s:
        if ch in "<([":
            depth += 1
        elif ch in ">)]":
            depth -= 1
        if ch == "," and depth == 0:
            out.append(cur.strip())
            cur = ""
        else:
            cur += ch
    if cur.strip():
        out.append(cur.strip())
    return out


def norm_ty(t):
    t = (t or "").strip()
    while t.startswith("&"):
        t = t[1:].replace("mut ", "", 1).strip()
    t = re.sub(r"^'\w+ ", "", t)
    return t


LEAF = {"f32", "f64", "i16", "u16", "i32", "i64"}


class XmlInterp(wire.WireInterp):
    top = None

    def write_xml_of(self, ty, v, n):
        ty = norm_ty(ty)
        if ty in LEAF and ty != self.top:
            W(self, "chars", ("display", ty, v), n or {})
            return var(OK, UNIT)
        f = None
        try:
            f = self.prog.impl_fn(XT, ty, "write_xml")
        except core.AnchorMissing:
            raise sym.Unsupported(f"no XmlType impl for {ty}")
        if self.depth <= 0:
            raise sym.Unsupported("inlining depth")
        e2 = {}
        self.bind(f.params[0], v, e2)
        self.bind(f.params[1], ("in", "writer"), e2)
        self.depth -= 1
        try:
            try:
                return self.eval(f.body, e2)
            except sym.Exit as e:
                return e.value
        finally:
            self.depth += 1

    def read_xml_of(self, ty, n):
        ty = norm_ty(ty)
        if ty in LEAF and ty != self.top:
            return var(OK, ("try", ("parse", ty, Rd(self, "chars", n or {}))))
        try:
            f = self.prog.impl_fn(XT, ty, "read_xml")
        except core.AnchorMissing:
            raise sym.Unsupported(f"no XmlType impl for {ty}")
        e2 = {}
        self.bind(f.params[0], ("in", "reader"), e2)
        self.depth -= 1
        try:
            try:
                return self.eval(f.body, e2)
            except sym.Exit as e:
                return e.value
        finally:
            self.depth += 1


def W(I, prim, t, n):
    I.emit(("W", prim, t, core.loc(n), None))


def Rd(I, prim, n):
    rid = I.fresh_read(prim, core.loc(n))
    I.emit(("R", prim, rid, core.loc(n), None))
    return ("rd", rid)


def p_write_value_in_tag(I, n, path, a, env):
    I.eval(a[0], env)
    v = I.eval(a[1], env)
    tag = I.eval(a[2], env)
    W(I, f"start:{tag[1] if tag[0] == 'c' else '?'}", tag, n)
    I.write_xml_of(targ(n), v, n)
    W(I, "end", UNIT, n)
    return var(OK, UNIT)


def p_write_value(I, n, path, a, env):
    I.eval(a[0], env)
    v = I.eval(a[1], env)
    I.write_xml_of(targ(n), v, n)
    return var(OK, UNIT)


def p_write_characters(I, n, path, a, env):
    I.eval(a[0], env)
    v = I.eval(a[1], env)
    W(I, "chars", ("display", norm_ty(targ(n)), v), n)
    return var(OK, UNIT)


def p_write_tag_characters(I, n, path, a, env):
    I.eval(a[0], env)
    tag = I.eval(a[1], env)
    v = I.eval(a[2], env)
    W(I, f"start:{tag[1] if tag[0] == 'c' else '?'}", tag, n)
    W(I, "chars", ("display", norm_ty(targ(n)), v), n)
    W(I, "end", UNIT, n)
    return var(OK, UNIT)


def p_write_tag_array(I, n, path, a, env):
    I.eval(a[0], env)
    vals = I.eval(a[1], env)
    tags = I.eval(a[2], env)
    if not (vals[0] == "vec" and tags[0] == "vec" and all(s[0] == "one" for s in vals[1]) and all(s[0] == "one" for s in tags[1]) and len(vals[1]) == len(tags[1])):
        raise sym.Unsupported("write_tag_array with non-literal arrays")
    for vs, ts in zip(vals[1], tags[1]):
        tag = ts[1]
        W(I, f"start:{tag[1] if tag[0] == 'c' else '?'}", tag, n)
        W(I, "chars", ("display", norm_ty(targ(n)), vs[1]), n)
        W(I, "end", UNIT, n)
    return var(OK, UNIT)


def p_write_event(I, n, path, a, env):
    I.eval(a[0], env)
    ev = I.eval(a[1], env)
    # ev: app(XmlEvent::characters|start_element|end_element|cdata, args) possibly wrapped by .attr(..)
    while ev[0] == "app" and ev[1].endswith("::attr"):
        ev = ev[2][0]
    if ev[0] == "app":
        nm = ev[1].rsplit("::", 1)[-1]
        if nm in ("characters", "cdata"):
            W(I, "chars", ("str", ev[2][0]), n)
            return var(OK, UNIT)
        if nm == "start_element":
            tag = ev[2][0]
            W(I, f"start:{tag[1] if tag[0] == 'c' else '?'}", tag, n)
            return var(OK, UNIT)
        if nm == "end_element":
            W(I, "end", UNIT, n)
            return var(OK, UNIT)
    raise sym.Unsupported(f"XmlEventWriter::write of {term_str(ev, 3)}")


def p_write_string(I, n, path, a, env):
    I.eval(a[0], env)
    v = I.eval(a[1], env)
    W(I, "chars", ("str", v), n)
    return var(OK, UNIT)


def p_end_element(I, n, path, a, env):
    W(I, "end", UNIT, n)
    return var(OK, UNIT)


def p_read_value_in_tag(I, n, path, a, env):
    I.eval(a[0], env)
    tag = I.eval(a[1], env)
    Rd(I, f"start:{tag[1] if tag[0] == 'c' else '?'}", n)
    v = I.read_xml_of(targ(n), n)
    Rd(I, "end", n)
    return v if (is_var(v, OK) or is_var(v, ERR)) else var(OK, ("try", v))


def p_read_value(I, n, path, a, env):
    I.eval(a[0], env)
    return I.read_xml_of(targ(n), n)


def p_read_characters(I, n, path, a, env):
    I.eval(a[0], env)
    return var(OK, Rd(I, "chars", n))


def p_read_tag_contents(I, n, path, a, env):
    I.eval(a[0], env)
    tag = I.eval(a[1], env)
    Rd(I, f"start:{tag[1] if tag[0] == 'c' else '?'}", n)
    r = Rd(I, "chars", n)
    Rd(I, "end", n)
    return var(OK, r)


def p_expect_start(I, n, path, a, env):
    I.eval(a[0], env)
    tag = I.eval(a[1], env)
    Rd(I, f"start:{tag[1] if tag[0] == 'c' else '?'}", n)
    return var(OK, ("in", "attributes"))


def p_expect_next(I, n, path, a, env):
    """the next event, as far as the straight-line family goes: the start of a child element whose name the reader
    inspects itself (Content / ContentId choose by the child's name)"""
    I.eval(a[0], env)
    r = Rd(I, "start:?", n)
    return var(OK, start_event(r))


START_EV = "xml::reader::events::XmlEvent::StartElement"
END_EV = "xml::reader::events::XmlEvent::EndElement"


def start_event(tag):
    name = ("st", "xml::name::OwnedName", (("local_name", tag), ("namespace", ("in", "ns")), ("prefix", ("in", "prefix"))))
    return ("varn", START_EV, (("name", name), ("attributes", ("in", "attributes")), ("namespace", ("in", "namespace"))))


def p_expect_peek(I, n, path, a, env):
    I.eval(a[0], env)
    rid = I.fresh_read("peek", core.loc(n))
    I.emit(("P", rid, core.loc(n)))
    return var(OK, ("rd", rid))


def peek_binder(head):
    """the event the reader sees when it peeks: the writer's next item, or the enclosing element's end tag"""
    if head is None or (head[0] == "W" and head[1] == "end"):
        return ("varn", END_EV, (("name", ("in", "end_name")),))
    if head[0] == "W" and head[1].startswith("start:"):
        return start_event(head[2])
    if head[0] == "W" and head[1] == "chars":
        return ("var", "xml::reader::events::XmlEvent::Characters", (head[2],))
    raise shape.Mismatch(f"the reader peeks at something the model cannot describe: {head[0]}", "")


def p_expect_end(I, n, path, a, env):
    I.eval(a[0], env)
    I.eval(a[1], env)
    Rd(I, "end", n)
    return var(OK, UNIT)


def p_read_base64(I, n, path, a, env):
    I.eval(a[0], env)
    return var(OK, ("app", "base64::decode", (Rd(I, "chars", n),)))


def p_error(I, n, path, a, env):
    return ("app", "error", ())


def p_parse(I, n, path, a, env):
    v = I.eval(a[0], env)
    ty = n.get("ty", "")
    m = re.match(r"^core::result::Result<(.+), [^,]+>$", ty)
    t = norm_ty(m.group(1)) if m else "?"
    return ("parse", t, v)


def p_to_string(I, n, path, a, env):
    v = I.eval(a[0], env)
    return ("display", norm_ty(core.strip(a[0]).get("ty", "")), v)


def xml_prims():
    P = []
    for name, h in (("write_value_in_tag", p_write_value_in_tag), ("write_value", p_write_value), ("write_characters", p_write_characters),
                    ("write_tag_characters", p_write_tag_characters), ("write_tag_array", p_write_tag_array), ("write_string", p_write_string),
                    ("end_element", p_end_element), ("write", p_write_event), ("error", p_error)):
        P.append((re.compile(XW.replace("<", r"<").replace(">", r">") + name + r"$"), h))
    for name, h in (("read_value_in_tag", p_read_value_in_tag), ("read_value", p_read_value), ("read_characters", p_read_characters),
                    ("read_tag_contents", p_read_tag_contents), ("expect_start_with_name", p_expect_start), ("expect_end_with_name", p_expect_end), ("expect_next", p_expect_next), ("expect_peek", p_expect_peek),
                    ("read_base64_characters", p_read_base64), ("error", p_error)):
        P.append((re.compile(XR + name + r"$"), h))
    P.append((re.compile(r"core::str::<impl str>::parse$"), p_parse))
    P.append((re.compile(r"alloc::string::ToString::to_string$"), p_to_string))
    return P


def xml_pairs():
    P = shape.default_pairs()

    def text(t):
        # parse::<T>(display::<T>(x)) -> Ok(x)
        if t[0] == "parse":
            inner = t[2]
            while inner[0] == "try":
                inner = inner[1]
            if inner[0] == "display":
                if inner[1] == t[1]:
                    return var(OK, inner[2])
                return ("unk", f"text written with Display of `{inner[1]}` is parsed as `{t[1]}`")
            if inner[0] == "str" and t[1] in ("alloc::string::String",):
                return var(OK, inner[1])
        if t[0] == "app" and t[1] in ("alloc::string::String::is_empty", "core::str::<impl str>::is_empty") and t[2] and t[2][0] == C(""):
            return C(True)
        if t[0] == "app":
            f, a = t[1], t[2]
            for frm, to in (("Faces::from_bits", "Faces::bits"), ("Axes::from_bits", "Axes::bits"), ("FontWeight::from_u16", "FontWeight::as_u16"), ("FontStyle::from_u8", "FontStyle::as_u8")):
                if f.endswith(frm) and a and a[0][0] == "app" and a[0][1].endswith(to):
                    return var(SOME, a[0][2][0])
            if f.endswith("SecurityCapabilities::from_bits") and a and a[0][0] == "app" and a[0][1].endswith("SecurityCapabilities::bits"):
                return a[0][2][0]
            if f.endswith("Option::<T>::ok_or_else") and a and is_var(a[0], SOME):
                return var(OK, a[0][2][0])
            # base64 (third-party codec, trusted): decode(encode(x)) = Ok(x)
            if f.endswith("base64::decode") and a and a[0][0] == "app" and (a[0][1].endswith("base64::encode") or a[0][1].endswith("encode::encode")):
                return var(OK, a[0][2][0])
        if t[0] == "str":
            return t[1]
        if t[0] == "display" and t[1] in ("alloc::string::String", "str", "&str"):
            return t[2]
        return None
    P.append(("xml text", text))
    return P


UNSUPPORTED = {
    "rbx_types::basic_types::NumberSequence": "space-separated token stream: decided by C02.tok (rules/C02_tok.py)",
    "rbx_types::basic_types::ColorSequence": "space-separated token stream: decided by C02.tok (rules/C02_tok.py)",
    "rbx_types::basic_types::NumberRange": "space-separated token stream: decided by C02.tok (rules/C02_tok.py)",
    "rbx_types::binary_string::BinaryString": "base64 text (third-party codec); the writer encodes the value through AsRef<[u8]>, which the field-identity check does not model",
    "rbx_types::basic_types::Color3uint8": "packed integer arithmetic (shifts / masks) on the text value",
    "rbx_xml::types::strings::ProtectedStringDummy": "read-only type",
    "bool": "literal `true`/`false` table (checked by the match arms directly)",
    "f32": "INF / -INF / NAN literal tables and Display/parse fall-through are C02.float's clause",
    "f64": "INF / -INF / NAN literal tables and Display/parse fall-through are C02.float's clause",
}


def run(c, prog):
    R = "C02.type"
    c.rule(R, "for each XmlType impl in the straight-line family: write_xml's element/text grammar is what read_xml consumes (same literal tag names in the same order) and the value read is the identity on the value written — every leaf field exactly once in its own position; text is parsed as the same Rust type it was formatted from")
    prims = xml_prims()
    N = shape.Normaliser(prog, xml_pairs())
    n_ok = 0
    types = sorted(imp["self"] for imp in prog.impls if imp.get("trait") == XT)
    for ty in types:
        inst = f"type:{ty}"
        if ty in UNSUPPORTED:
            c.analysed.setdefault("C02.type_not_analysed", {})[ty] = UNSUPPORTED[ty]
            continue
        try:
            Iw = XmlInterp(prog, prims=prims, depth=6, opaque=wire.OPAQUE)
            Iw.top = ty
            Iw.write_xml_of(ty, ("in", "value"), None)
            Ir = XmlInterp(prog, prims=prims, depth=6, opaque=wire.OPAQUE)
            Ir.top = ty
            val = Ir.read_xml_of(ty, None)
        except sym.Unsupported as e:
            c.violation(R, f"cannot-establish|{ty}", f"XmlType for {ty}: construct outside the interpreter's fragment: {e}", "", instance=inst)
            continue
        M = shape.Matcher(N, lambda a, b: a == b or (b == "start:?" and a.startswith("start:")))
        M.collect = False
        M.optional_read_prims = {"chars"}
        M.return_sink = True
        M.peek_binder = peek_binder
        M.split_written_phis = True
        try:
            outs = M.match(Iw.events, Ir.events, {})
        except shape.Mismatch as e:
            c.violation(R, f"grammar|{ty}", f"XmlType for {core.short(ty)}: {e}", e.loc, instance=inst)
            continue
        errs = []
        for subst, sinks, conds in outs:
            a2 = shape.assumptions(conds)
            early = [x[1] for x in sinks if x[0] == "__return__"]
            t = N.norm(early[0] if early else val, subst, a2)
            from .C14_arm import strip_try
            t = N.norm(N.rewrite(strip_try(t)), subst, a2)
            if is_var(t, OK) or is_var(t, SOME):
                t = t[2][0]
            t = N.norm(strip_try(t), subst, a2)
            bad = sym.contains_unk(t)
            if bad:
                errs.append(("(value)", bad))
                continue
            ident = shape.Identity(prog, [("string-like wrappers", wrappers), ("empty text written as <null>", empty_of)], a2)
            ident.strict_variants = True
            errs += ident.check(t, ("in", "value"), "")
        if not errs:
            c.ok(R, inst)
            n_ok += 1
            if ty.endswith("CFrame") or ty.endswith("UDim2"):
                c.sample({"rule": R, "type": ty, "writer": shape.render(Iw.events)[:9], "reader": shape.render(Ir.events)[:9]})
        else:
            fp, got = errs[0]
            c.violation(R, f"value|{ty}|{fp}", f"XmlType for {core.short(ty)}: field `{fp or 'value'}` is read back as `{got}` — not what was written there", "", instance=inst)
    c.floor(R, n_ok, 15, "XmlType impls verified")


def empty_of(t, base, assume):
    """the empty string / vector, on a path where the writer established that `base` is empty"""
    if t in (("vec", ()), C("")):
        for a in assume:
            if isinstance(a, tuple) and a and a[0] == "app" and a[1].endswith("is_empty") and a[2] and a[2][0] == base:
                return True
    return False


def wrappers(t, base, assume):
    if t[0] == "st" and len(t[2]) == 1:
        inner = t[2][0][1]
        return inner == base or inner == fld(base, t[2][0][0]) or empty_of(inner, base, assume) or empty_of(inner, fld(base, t[2][0][0]), assume)
    return False
