import re
"""C16 — the bundled reflection database is coherent and closed under both codecs.
C16.data (exhaustive referential integrity / typing of database.msgpack), C16.oblig (database-dependent panic
sites of the codecs <-> the data obligation that discharges each), C16.load (msgpack shape vs ADTs), C16.closed."""
from sa import core, db as dbm, flow, tables
from . import common
from .common import vname

# coercions the writers accept between a default's variant and the serialized type (see C06.conv)
COERCE = {("Color3", "Color3uint8"), ("Int32", "Int64"), ("Float32", "Float64"), ("Int32", "BrickColor"), ("EnumItem", "Enum"),
          ("BinaryString", "String"), ("String", "BinaryString")}
KNOWN_CLASS_TAGS = None   # read from the ClassTag ADT
OBLIG_FNS = {
    "rbx_binary::core::find_property_descriptors": {
        "unwrap∘class_descriptor.properties.get(alias_for.as_ref())": "alias-same-class",
        "expect∘database.classes.get(superclass_name)": "superclass-resolves",
    },
    "rbx_binary::core::find_serialized_from_canonical": {
        "unwrap∘class.properties.get(serialized_name.as_ref())": "serializes-as-same-class",
    },
    "rbx_xml::core::find_property_descriptors": {
        "unwrap∘current_class_descriptor.properties.get(serialized_name.as_ref())": "serializes-as-same-class",
        "unwrap∘current_class_descriptor.properties.get(alias_for.as_ref())": "alias-same-class",
        "expect∘database.classes.get(superclass_name)": "superclass-resolves",
        "unimplemented": "enum-arms-exhaustive",
    },
    "rbx_reflection::database::ReflectionDatabase::<'a>::find_default_property": {
        "expect∘self.classes.get(class.superclass.as_ref()?)": "superclass-resolves",
    },
}


def rule_sername(c, prog, d, R="C16.sername"):
    """no two serialising canonical properties visible on one class share their serialized name"""
    c.rule(R, "exhaustive over database.msgpack: on every class (own and inherited properties) the serialized names of the canonical properties that serialize are pairwise distinct. Two canonical properties written under one name become two columns / elements of the same name; the readers file both under whatever that name resolves to, so one of the two values is lost — and when the two sit on different instances of a class, the binary writer's default-filled cell of one column overwrites the explicit value of the other")
    n = 0
    reported = set()
    for key in sorted(d.classes):
        by = {}
        for cname in d.chain(key):
            for pk, p in d.classes[cname].props.items():
                if p.kind != "Canonical":
                    continue
                if p.ser == "SerializesAs":
                    by.setdefault(p.ser_as, set()).add((cname, pk))
                elif p.ser == "Serializes":
                    by.setdefault(pk, set()).add((cname, pk))
        for sname, props in sorted(by.items()):
            n += 1
            if len(props) > 1:
                owners = tuple(sorted(props))
                if owners in reported:
                    continue
                reported.add(owners)
                names = ", ".join(f"{a}.{b}" for a, b in owners)
                c.violation(R, f"shared|{owners[0][0]}|{sname}", f"{names} are distinct canonical properties that are all written as `{sname}`: a file cannot tell them apart, the readers keep one value per instance, and across instances the binary writer's default-filled column of one overwrites the other's explicit values", "rbx_reflection_database/database.msgpack", instance=f"sername|{owners[0][0]}|{sname}")
            else:
                c.ok(R, None)
    c.floor(R, n, 1000, "(class, serialized name) pairs examined")


def rule_data(c, prog, d):
    R = "C16.data"
    c.rule(R, "exhaustive over database.msgpack: superclass chains resolve, are acyclic and rooted; alias targets are canonical properties of the same class; SerializesAs targets exist in the same class; Migrate targets resolve to a serialisable property; enums exist; value types are VariantTypes; defaults belong to a known property and have its canonical/serialized type (or a writer-accepted coercion); map keys equal names")
    vt = {v["name"] for v in prog.adt(common.VARIANT_TYPE)["variants"]}
    var = {v["name"] for v in prog.adt(common.VARIANT)["variants"]}
    results = {}

    def ob(kind, okay, key, msg):
        results.setdefault(kind, [0, 0])
        results[kind][0] += 1
        if okay:
            results[kind][1] += 1
            c.ok(R, None)
        else:
            c.violation(R, f"{kind}|{key}", msg, "rbx_reflection_database/database.msgpack", instance=f"{kind}|{key}")

    for k in d.dup_class_keys:
        ob("class-key-unique", False, k, f"class key {k} appears twice in the classes map")
    for key, cl in sorted(d.classes.items()):
        ob("class-key=name", key == cl.name, key, f"class map key {key} != descriptor name {cl.name}")
        # superclass chain
        if cl.superclass is not None:
            ob("superclass-resolves", cl.superclass in d.classes, key, f"class {key}: superclass {cl.superclass} does not exist (find_property_descriptors would panic)")
        chain = d.chain(key)
        last = d.classes[chain[-1]]
        ob("superclass-rooted", last.superclass is None, key, f"class {key}: superclass chain does not end at a root (cycle or missing class at {last.superclass})")
        for pk, p in sorted(cl.props.items()):
            pid = f"{key}.{pk}"
            ob("prop-key=name", pk == p.name, pid, f"property map key {pk} != descriptor name {p.name}")
            if p.dtype_kind == "Enum":
                ob("enum-exists", p.dtype in d.enums, pid, f"{pid}: enum {p.dtype} is not in the database")
            elif p.dtype_kind == "Value":
                ob("value-type-known", p.dtype in vt, pid, f"{pid}: data type {p.dtype} is not a VariantType")
            else:
                ob("data-type-kind", False, pid, f"{pid}: unknown DataType kind {p.dtype_kind}")
            if p.kind == "Alias":
                tgt = cl.props.get(p.alias_for)
                ob("alias-same-class", tgt is not None, pid, f"{pid}: alias target {p.alias_for} is not a property of the same class (the codecs unwrap a same-class lookup)")
                if tgt is not None:
                    ob("alias-canonical", tgt.kind == "Canonical", pid, f"{pid}: alias target {p.alias_for} is itself {tgt.kind}")
            elif p.kind == "Canonical":
                if p.ser == "SerializesAs":
                    tgt = cl.props.get(p.ser_as)
                    ob("serializes-as-same-class", tgt is not None, pid, f"{pid}: SerializesAs target {p.ser_as} is not a property of the same class (the codecs unwrap a same-class lookup)")
                elif p.ser == "Migrate":
                    tgt = d.find_prop(key, p.migrate_to)
                    okay = tgt is not None
                    if okay and tgt.kind == "Alias":
                        tgt = d.classes[tgt.cls.key].props.get(tgt.alias_for)
                        okay = tgt is not None
                    ob("migrate-target-resolves", okay, pid, f"{pid}: migration target {p.migrate_to} does not resolve through the superclass chain")
                    if okay:
                        ob("migrate-target-serializes", tgt.kind == "Canonical" and tgt.ser in ("Serializes", "SerializesAs"), pid, f"{pid}: migration target {p.migrate_to} does not serialize ({tgt.ser})")
                elif p.ser not in ("Serializes", "DoesNotSerialize"):
                    ob("serialization-known", False, pid, f"{pid}: unknown serialization {p.ser}")
            else:
                ob("kind-known", False, pid, f"{pid}: unknown property kind {p.kind}")
        for dk, (vk, payload) in sorted(cl.defaults.items()):
            did = f"{key}.{dk}"
            ob("default-variant-known", vk in var, did, f"default {did}: variant {vk} is not a Variant")
            p = d.find_prop(key, dk)
            ob("default-has-descriptor", p is not None, did, f"default {did} has no property descriptor in the class or its superclasses")
            if p is None:
                continue
            canon = p
            if p.kind == "Alias":
                canon = d.classes[p.cls.key].props.get(p.alias_for) or p
            ctype = canon.vtype()
            stype = ctype
            if canon.ser == "SerializesAs":
                sp = d.classes[canon.cls.key].props.get(canon.ser_as)
                if sp is not None:
                    stype = sp.vtype()
            okay = vk in (ctype, stype) or (vk, ctype) in COERCE or (vk, stype) in COERCE
            ob("default-type", okay, did, f"default {did} is a {vk} but the property is declared {ctype} (serialized {stype}); no writer coercion covers this, so an instance filled with defaults cannot be written")
    for ek, (name, items) in sorted(d.enums.items()):
        ob("enum-key=name", ek == name, ek, f"enum key {ek} != name {name}")
    for kind, (n, okc) in sorted(results.items()):
        c.floors[R + ":" + kind] = [n, n]
    c.rules[R]["instances"] = set(results)
    c.floor(R, len(d.classes), 700, "classes")
    c.floor(R, sum(len(cl.props) for cl in d.classes.values()), 3000, "property descriptors")
    c.floor(R, sum(len(cl.defaults) for cl in d.classes.values()), 6000, "default values")
    c.floor(R, len(d.enums), 400, "enums")
    c.sample({"rule": R, "obligation_kinds": {k: {"checked": v[0], "hold": v[1]} for k, v in sorted(results.items())}})
    return results


LOOKUP_MODULES = ("rbx_binary::core::", "rbx_xml::core::", "rbx_reflection::database::")
PSER = "rbx_reflection::database::PropertySerialization"
PKIND = "rbx_reflection::database::PropertyKind"


def is_lookup_fn(prog, fn):
    """a function of the descriptor-lookup modules that takes (or is a method of) a reflection descriptor type"""
    if not fn.path.startswith(LOOKUP_MODULES) or fn.body is None or fn.dk == "Closure":
        return False
    sig = fn.d.get("sig") or ""
    return any(t in sig for t in ("ReflectionDatabase", "ClassDescriptor", "PropertyDescriptor", "PropertySerialization"))


def classify_site(prog, fn, s, origins):
    """database obligation that discharges a panic-capable site of a descriptor lookup, from the *provenance of the
    looked-up key* (which database field the name came from), or None"""
    if s["macro"] in ("unimplemented", "unreachable"):
        return "enum-arms-exhaustive"
    n = s["node"]
    if n.get("k") != "MethodCall" or n["m"] not in ("unwrap", "expect"):
        return None
    r = core.strip(n["recv"])
    if not (r.get("k") == "MethodCall" and r["m"] == "get" and r["args"]):
        return None
    _root, mpath = core.place_root(r["recv"])
    mfield = [p for p in mpath if not p.startswith(".")][-1:] or [None]
    key = r["args"][0]
    klid, kpath = core.place_root_lid(key)
    kfields = [p for p in kpath if not p.startswith(".") and p != "?"]
    # `classes.get(<x>.superclass…)` / `classes.get(name)` with name bound from `<x>.superclass`
    def from_superclass(lid, fields, depth=0):
        if "superclass" in fields:
            return True
        if lid is None or depth > 3:
            return False
        chain, scrut = origins.get(lid, ([], None))
        if scrut is None:
            return False
        l2, p2 = core.place_root_lid(scrut)
        f2 = [p for p in p2 if not p.startswith(".") and p != "?"]
        return from_superclass(l2, f2, depth + 1) if (l2 != lid) else False
    if mfield == ["classes"] and from_superclass(klid, kfields):
        return "superclass-resolves"
    if mfield == ["properties"] and klid is not None:
        chain, _scrut = origins.get(klid, ([], None))
        defs = [d for d, _f in chain]
        if PSER + "::SerializesAs" in defs:
            return "serializes-as-same-class"
        if (PKIND + "::Alias", "alias_for") in chain:
            return "alias-same-class"
    return None


def rule_oblig(c, prog, results):
    R = "C16.oblig"
    c.rule(R, "every panic-capable site (unwrap/expect/unimplemented!) in the descriptor-lookup functions of rbx_binary::core, rbx_xml::core and rbx_reflection::database is classified by the provenance of the looked-up name (SerializesAs payload / alias_for / superclass) and mapped to the C16.data obligation that discharges it on the bundled database; an unclassifiable site or a failing obligation is a violation")
    n = 0
    kinds = set()
    for path, fn in sorted(prog.fns.items()):
        if fn.crate not in core.LIB_CRATES or not is_lookup_fn(prog, fn):
            continue
        sites = flow.panic_sites(fn)
        if not sites:
            continue
        origins = core.binding_origins(fn)
        for s in sites:
            fp = s["fp"] if not s["macro"] else s["macro"]
            n += 1
            inst = f"{path}|{fp}"
            ob = classify_site(prog, fn, s, origins)
            if ob is None:
                c.violation(R, inst, f"{path}: panic-capable site `{fp}` has no database obligation that discharges it (the looked-up name does not come from a SerializesAs / alias_for / superclass field; a malformed or newer database — or input — would panic the codec)", core.loc(s["node"]), instance=inst)
                continue
            kinds.add(ob)
            if ob == "enum-arms-exhaustive":
                if unimplemented_arm_dead(prog, fn, s["node"]):
                    c.ok(R, inst)
                else:
                    c.violation(R, inst + "|reachable", f"{path}: an `unimplemented!()` wildcard arm is reachable — the matched enum has a variant without an explicit arm", core.loc(s["node"]), instance=inst)
            else:
                r = results.get(ob)
                if r and r[0] > 0 and r[0] == r[1]:
                    c.ok(R, inst)
                else:
                    c.violation(R, inst + "|undischarged", f"{path}: `{fp}` relies on database obligation `{ob}`, which does not hold (or was not checked) on the bundled database", core.loc(s["node"]), instance=inst)
    c.floor(R, n, 6, "database-dependent panic sites")
    for need in ("serializes-as-same-class", "alias-same-class", "superclass-resolves"):
        if need not in kinds:
            c.violation(R, f"anchor|{need}", f"no lookup site relies on obligation `{need}` any more (table of obligations out of date, or the lookups lost sight of)", "")
    # DataType match in rbx_xml::serializer::serialize_instance
    fn = common.find_fn(prog, r"^rbx_xml::serializer::serialize_instance$")
    for s in flow.panic_sites(fn):
        if s["macro"] == "unimplemented":
            inst = "rbx_xml::serializer::serialize_instance|unimplemented"
            if unimplemented_arm_dead(prog, fn, s["node"]):
                c.ok(R, inst)
            else:
                c.violation(R, inst, "serialize_instance: `unimplemented!()` arm over DataType is reachable", core.loc(s["node"]), instance=inst)


def unimplemented_arm_dead(prog, fn, node):
    """the wildcard arm holding `node` is dead iff the sibling arms name every variant of the matched enum."""
    for m in core.walk_fn(fn):
        if m.get("k") != "Match" or m.get("src") != "Normal":
            continue
        for arm in m["arms"]:
            if arm["pat"].get("k") != "Wild":
                continue
            if not any(x is node for x in core.walk(arm["body"])):
                continue
            ty = m["e"].get("aty") or m["e"].get("ty", "")
            ty = ty.lstrip("&").replace("mut ", "").strip()
            base = ty.split("<")[0]
            adt = prog.adts.get(base)
            if adt is None:
                return False
            named = set()
            for a in m["arms"]:
                for alt in tables.pat_alts(a["pat"]):
                    if alt[0] in ("v", "ctor", "struct") and alt[1]:
                        named.add(vname(alt[1]))
            return {v["name"] for v in adt["variants"]} <= named
    return False


def rule_dflt(c, prog):
    """find_default_property: nearest class in the chain that records a default *for the requested property*"""
    R = "C16.dflt"
    c.rule(R, "ReflectionDatabase::find_default_property returns `<class>.default_properties.get(property_name)` of a class found by walking the superclass chain, and every decision that stops or continues the walk is the presence of that very lookup (or the end of the chain) — not some other property of the class")
    fn = prog.fn("rbx_reflection::database::ReflectionDatabase::<'a>::find_default_property")
    name_lid = next((p["lid"] for p in fn.params if (p.get("ty") or "").lstrip("&").strip() == "str"), None)
    if name_lid is None:
        raise core.AnchorMissing("find_default_property: no &str parameter")

    def is_lookup(e):
        """`<x>.default_properties.get(property_name)` possibly behind copies / refs"""
        e = core.strip(e)
        if e.get("k") == "MethodCall" and e["m"] == "get" and e["args"]:
            _r, pth = core.place_root(e["recv"])
            return "default_properties" in pth and any(x.get("k") == "Path" and x.get("lid") == name_lid for x in core.walk(e["args"][0]))
        if e.get("k") == "MethodCall" and e["m"] in ("copied", "cloned", "as_ref", "is_some", "is_none") and not e["args"]:
            return is_lookup(e["recv"])
        return False
    lets = {st["pat"].get("lid"): st["init"] for st in core.walk_lets(fn.body) if "init" in st and st["pat"].get("k") == "Binding"}

    def about_lookup_or_chain(e, depth=0):
        """a condition is acceptable when it only inspects the lookup result, the superclass link, or classes.get(..)"""
        e = core.strip(e)
        if is_lookup(e):
            return True
        if e.get("k") == "Path" and e.get("res") == "local" and e.get("lid") in lets and depth < 4:
            return about_lookup_or_chain(lets[e["lid"]], depth + 1)
        if e.get("k") == "Unary" and e["op"] == "!":
            return about_lookup_or_chain(e["e"], depth)
        if e.get("k") == "LetExpr":
            return about_lookup_or_chain(e["init"], depth)
        t = core.as_try(e)
        if t is not None:
            return about_lookup_or_chain(t, depth)
        _r, pth = core.place_root(e)
        fields = [p for p in pth if not p.startswith(".") and p != "?"]
        if "superclass" in fields or "classes" in fields:
            return True
        if e.get("k") == "MethodCall" and e["m"] in ("is_some", "is_none", "as_ref", "as_deref") and not e["args"]:
            return about_lookup_or_chain(e["recv"], depth)
        return False
    PRED_ADAPTORS = {"find", "filter", "take_while", "skip_while", "position", "any", "all", "rposition", "rfind", "skip", "take", "nth", "last", "step_by", "rev"}
    bad = []
    n_dec = 0
    has_lookup = any(is_lookup(x) for x in core.walk_fn(fn))
    for x in core.walk_fn(fn):
        k = x.get("k")
        if k == "If":
            n_dec += 1
            if not about_lookup_or_chain(x["c"]):
                bad.append(("if " + core.fingerprint(x["c"], 4), core.loc(x)))
        elif k == "Match" and x.get("src") == "Normal":
            n_dec += 1
            if not about_lookup_or_chain(x["e"]):
                bad.append(("match " + core.fingerprint(x["e"], 4), core.loc(x)))
        elif k == "MethodCall" and x["m"] in PRED_ADAPTORS and "Iterator" in (core.callee_generic(x) or ""):
            n_dec += 1
            if x["m"] in ("skip", "take", "nth", "last", "step_by", "rev"):
                bad.append((x["m"] + "(..) on the class chain", core.loc(x)))
                continue
            clo = core.strip(x["args"][0]) if x["args"] else {}
            body = clo.get("body") if clo.get("k") == "Closure" else None
            while body is not None and core.strip(body).get("k") == "Block" and not core.strip(body)["b"]["stmts"] and "expr" in core.strip(body)["b"]:
                body = core.strip(body)["b"]["expr"]
            if body is None or not about_lookup_or_chain(body):
                bad.append((x["m"] + "(|c| " + (core.fingerprint(body, 4) if body is not None else "?") + ")", core.loc(x)))
    if not has_lookup:
        c.violation(R, "dflt|no-lookup", "find_default_property no longer looks `property_name` up in a class's default_properties", fn.sp, instance="dflt:lookup")
    else:
        c.ok(R, "dflt:lookup")
    if bad:
        c.violation(R, "dflt|decision|" + ";".join(sorted(b[0] for b in bad))[:120], f"find_default_property stops or continues its walk of the superclass chain on {[b[0] for b in bad]} — a decision that is not `does this class record a default for the requested property` (or `is there a superclass`): a default recorded on a superclass is missed when a nearer class records other defaults only, so defaults of 100+ (class, property) pairs of the bundled database resolve to None and the binary writer falls back to a zeroed value", bad[0][1], instance="dflt:decisions")
    else:
        c.ok(R, "dflt:decisions")
    c.floor(R, n_dec, 1, "decisions in find_default_property")
    # the class's own defaults are consulted before the walk can end for want of a superclass — otherwise a default
    # recorded on a root class (no superclass) is never found.  Decided on the control-flow graph, whatever shape the
    # loop has: from every point where the walk's current class is (re)defined — entry, and each assignment to it —
    # every path to a read of `<class>.superclass` passes a read of `<class>.default_properties`.
    from sa import discipline as _D
    if fn.mir:
        cfg = _D.CFG(fn)
        F_DEF, F_SUP = "ClassDescriptor.default_properties", "ClassDescriptor.superclass"

        def reads(bb, fld):
            out = set()
            for st in bb["stmts"]:
                for op in st.get("ops") or []:
                    if op.get("k") == "place" and any(isinstance(p_, str) and p_.endswith(fld) for p_ in op.get("proj") or []):
                        out.add(op["l"])
            for a in bb["term"].get("args") or []:
                if a.get("k") == "place" and any(isinstance(p_, str) and p_.endswith(fld) for p_ in a.get("proj") or []):
                    out.add(a["l"])
            return out
        L = {b for b, bb in enumerate(cfg.blocks) if reads(bb, F_DEF)}
        S = {b for b, bb in enumerate(cfg.blocks) if reads(bb, F_SUP)}
        cls = set()
        for bb in cfg.blocks:
            cls |= reads(bb, F_DEF) | reads(bb, F_SUP)
        starts = {0}
        for b, bb in enumerate(cfg.blocks):
            t = bb["term"]
            if t["k"] == "call" and t.get("dest") and t["dest"].get("l") in cls and not t["dest"].get("proj"):
                starts |= set(t.get("targets", [])[:1])
            for st in bb["stmts"]:
                if st.get("k") == "assign" and st["lhs"].get("l") in cls and not st["lhs"].get("proj"):
                    starts.add(b)
        if not L or not S:
            raise core.AnchorMissing("find_default_property: no read of default_properties / superclass in its MIR")
        bad_start = [d_ for d_ in sorted(starts) if d_ not in L and not cfg.must_pass(d_, L, S - L)]
        if bad_start:
            c.violation(R, "dflt|root-skipped", "find_default_property can read a class's `superclass` (and leave the walk when there is none) without having looked at that class's own defaults: a default recorded on a root class is never returned (with a custom database whose defaults live on the root, instances lacking the property are filled with a zeroed fallback)", fn.sp, instance="dflt:own-defaults-before-chain-end")
        else:
            c.ok(R, "dflt:own-defaults-before-chain-end")


def rule_gen(c, prog, R="C16.gen"):
    """the generator refuses a patch that names something the dump does not have"""
    c.rule(R, "rbx_reflector, Patches::apply_pre_default: every lookup of a class or property named by a patch file ends the generation with an error when the name is missing from the dump (`ok_or_else(..)?`, or a `None` arm that returns an error); a patch entry that is skipped silently leaves its counterpart applied — e.g. `Size: SerializesAs size` without `size: AliasFor Size` — and the regenerated database is no longer closed")
    fns = [f for f in prog.fns.values() if f.crate == "rbx_reflector" and f.body is not None and f.path.endswith("Patches::apply_pre_default")]
    if not fns:
        raise core.AnchorMissing("rbx_reflector::patches::Patches::apply_pre_default not found")
    fn = fns[0]
    lookups = [x for x in core.walk_fn(fn) if x.get("k") == "MethodCall" and x["m"] in ("get_mut", "get") and re.search(r"HashMap<.*(ClassDescriptor|PropertyDescriptor)", (core.strip(x["recv"]).get("ty") or ""))]
    c.floor(R, len(lookups), 2, "class / property lookups in apply_pre_default")
    for i, g in enumerate(lookups):
        what = "class" if "ClassDescriptor" in (core.strip(g["recv"]).get("ty") or "") else "property"
        inst = f"patch-lookup:{what}:{i}"
        ok = False
        for t in core.walk_fn(fn):
            inner = core.as_try(t)
            if inner is not None and any(y is g for y in core.walk(inner)) and any(y.get("k") == "MethodCall" and y["m"] in ("ok_or", "ok_or_else", "context", "with_context") for y in core.walk(inner)):
                ok = True
            if t.get("k") == "Match" and t.get("src") == "Normal" and any(y is g for y in core.walk(t["e"])):
                for arm in t["arms"]:
                    if core.pat_str(arm["pat"]).endswith("None"):
                        body = arm["body"]
                        if any(y.get("k") == "Ret" for y in core.walk(body)) and not any(y.get("k") == "Continue" for y in core.walk(body)):
                            ok = True
        if ok:
            c.ok(R, inst)
        else:
            c.violation(R, f"stale-patch-tolerated|{what}", f"apply_pre_default looks a {what} named by a patch up and goes on when it is missing (no error return on `None`): the rest of the patch — including the entry that refers to the missing member — is still applied, so the generated database can hold a SerializesAs / AliasFor target that does not exist", core.loc(g), instance=inst)


def rule_load(c, prog):
    R = "C16.load"
    c.rule(R, "the MessagePack shape read by the analysis (array-encoded structs, field order) matches the ReflectionDatabase ADTs, so a struct change that breaks loading of the bundled file is visible without loading it")
    want = {
        "rbx_reflection::database::ReflectionDatabase": ["version", "classes", "enums"],
        "rbx_reflection::database::ClassDescriptor": ["name", "tags", "superclass", "properties", "default_properties"],
        "rbx_reflection::database::PropertyDescriptor": ["name", "scriptability", "data_type", "tags", "kind"],
        "rbx_reflection::database::EnumDescriptor": ["name", "items"],
        "rbx_reflection::migration::PropertyMigration": ["new_property_name", "migration"],
    }
    for path, fields in want.items():
        a = prog.adt(path)
        got = [f["name"] for f in a["variants"][0]["fields"]]
        if got == fields:
            c.ok(R, path)
        else:
            c.violation(R, f"shape|{path}", f"{path} fields are {got}; the bundled database.msgpack stores them positionally as {fields}: decoding the bundled file would fail or mis-assign", a["sp"], instance=path)
    # the generator writes these structs with rmp_serde's compact (positional array) encoding: a field that is written
    # only under a condition (`skip_serializing_if`) shifts every later field, and the written database cannot be
    # read back. Read off the derived Serialize impls: one serialize_field per field, none skipped, none conditional
    SER = "serde_core::ser::Serialize"
    for path, fields in want.items():
        try:
            f = prog.impl_fn(SER, path, "serialize")
        except core.AnchorMissing:
            f = None
        if f is None:
            cand = [i for i in prog.impls if i.get("trait") == SER and i["self"].split("<")[0] == path]
            f = prog.fns.get(next((it["path"] for i in cand for it in i["items"] if it["name"] == "serialize"), "")) if cand else None
        inst = f"positional:{path}"
        if f is None or f.body is None:
            c.not_decided.append(f"{path}: derived Serialize impl not found")
            continue
        sf = [x for x in core.walk_fn(f) if x.get("k") in ("MethodCall", "Call") and ((x.get("m") == "serialize_field") or (core.callee_generic(x) or "").endswith("SerializeStruct::serialize_field"))]
        skips = [x for x in core.walk_fn(f) if x.get("k") in ("MethodCall", "Call") and ((x.get("m") == "skip_field") or (core.callee_generic(x) or "").endswith("SerializeStruct::skip_field"))]
        cond = [y for y in core.walk_fn(f) if y.get("k") == "If" and any(any(z is x for z in core.walk(y)) for x in sf)]
        if skips or cond or len(sf) != len(fields):
            c.violation(R, f"positional|{path}", f"the Serialize impl of {path} writes {len(sf)} of {len(fields)} fields, {len(skips)} of them skippable / {len(cond)} under a condition: in rmp_serde's compact encoding structs are positional arrays, so a database regenerated by rbx_reflector with a skipped field (e.g. the root class's `superclass: None`) cannot be loaded again", f.sp, instance=inst)
        else:
            c.ok(R, inst)
    for path, variants in (("rbx_reflection::database::PropertyKind", ["Canonical", "Alias"]),
                           ("rbx_reflection::database::PropertySerialization", ["Serializes", "DoesNotSerialize", "SerializesAs", "Migrate"]),
                           ("rbx_reflection::database::DataType", ["Value", "Enum"])):
        a = prog.adt(path)
        got = [v["name"] for v in a["variants"]]
        if set(variants) <= set(got):
            c.ok(R, path)
        else:
            c.violation(R, f"variants|{path}", f"{path} variants are {got}; the bundled database uses {variants}", a["sp"], instance=path)


def rule_closed(c, prog, d):
    R = "C16.closed"
    c.rule(R, "every default value's variant has a binary wire type (Type::from_rbx_type or the String-family arm) and an XML writer arm, so writing defaults cannot hit UnsupportedPropType")
    frm = prog.fn(f"{common.TYPE_ENUM}::from_rbx_type")
    fm, _, _ = tables.simple_map(frm)
    bin_ok = {vname(k[1]) for k in fm if k[0] == "v"}
    # binary: Attributes is written through the Type::String arm when the descriptor's serialized type is BinaryString
    efn, em, earms = common.binary_encoder_arms(prog)
    string_arm_variants = set()
    for n in core.walk(earms["String"]["body"]):
        if n.get("k") == "Match":
            for a in n["arms"]:
                for alt in tables.pat_alts(a["pat"]):
                    if alt[0] == "ctor":
                        string_arm_variants.add(vname(alt[1]))
    w = prog.fn("rbx_xml::types::write_value_xml")
    wm = tables.top_match(w, "value")
    xml_ok = {vname(alt[1]) for alt, _ in tables.table(wm) if alt[0] == "ctor"}
    used = {}
    for cl in d.classes.values():
        for dk, (vk, _) in cl.defaults.items():
            used.setdefault(vk, f"{cl.key}.{dk}")
    for vk, example in sorted(used.items()):
        if vk in bin_ok or vk in string_arm_variants:
            c.ok(R, f"binary:{vk}")
        else:
            c.violation(R, f"binary|{vk}", f"default values of type {vk} exist (e.g. {example}) but rbx_binary has no wire type for it", frm.sp, instance=f"binary:{vk}")
        if vk in xml_ok:
            c.ok(R, f"xml:{vk}")
        else:
            c.violation(R, f"xml|{vk}", f"default values of type {vk} exist (e.g. {example}) but write_value_xml has no arm for it", w.sp, instance=f"xml:{vk}")


def rule_xref(c, prog, d):
    R = "C16.xref"
    c.rule(R, "the second copy of the reflection database shipped in the tree (rbx_dom_lua/src/database.json, consumed by the Lua implementation) describes the same classes, property kinds, alias targets, serialization links and data types as database.msgpack — both are generated from one dump, so a hand edit of either shows up as a disagreement")
    import json
    import os
    path = os.path.join(core.REPO, "rbx_dom_lua", "src", "database.json")
    try:
        with open(path) as fh:
            j = json.load(fh)
    except OSError:
        raise core.AnchorMissing("rbx_dom_lua/src/database.json")
    jc = j.get("Classes", {})
    if j.get("Version") == d.version:
        c.ok(R, "version")
    else:
        c.violation(R, "version", f"database.json is version {j.get('Version')}, database.msgpack {d.version}", "rbx_dom_lua/src/database.json", instance="version")
    if set(jc) == set(d.classes):
        c.ok(R, "class-set")
    else:
        diff = sorted(set(jc) ^ set(d.classes))[:5]
        c.violation(R, "class-set", f"the two databases list different classes, e.g. {diff}", "rbx_dom_lua/src/database.json", instance="class-set")
    n = 0
    nonfinite = []
    for ck in sorted(set(jc) & set(d.classes)):
        cl = d.classes[ck]
        jcl = jc[ck]
        if jcl.get("Superclass") != cl.superclass:
            c.violation(R, f"superclass|{ck}", f"{ck}: superclass {cl.superclass} in msgpack, {jcl.get('Superclass')} in database.json", "rbx_dom_lua/src/database.json", instance=f"superclass:{ck}")
        jp = jcl.get("Properties", {})
        if set(jp) != set(cl.props):
            c.violation(R, f"props|{ck}", f"{ck}: property sets differ: {sorted(set(jp) ^ set(cl.props))[:5]}", "rbx_dom_lua/src/database.json", instance=f"props:{ck}")
        for pk in sorted(set(jp) & set(cl.props)):
            n += 1
            p_ = cl.props[pk]
            q = jp[pk]
            kind = q.get("Kind", {})
            (kk, kv), = list(kind.items()) if isinstance(kind, dict) else [(kind, None)]
            j_alias = kv.get("AliasFor") if kk == "Alias" else None
            j_ser = j_ser_as = j_mig = None
            if kk == "Canonical":
                sv = kv.get("Serialization")
                if isinstance(sv, str):
                    j_ser = sv
                else:
                    (j_ser, payload_), = list(sv.items())
                    if j_ser == "SerializesAs":
                        j_ser_as = payload_
                    elif j_ser == "Migrate":
                        j_mig = (payload_.get("To"), payload_.get("Migration"))
            dt = q.get("DataType", {})
            (dk, dv), = list(dt.items())
            same = (kk == p_.kind and j_alias == p_.alias_for and j_ser == p_.ser and j_ser_as == p_.ser_as and (j_mig is None or j_mig == (p_.migrate_to, p_.migrate_op)) and (dk, dv) == (p_.dtype_kind, p_.dtype))
            if same:
                c.ok(R, None)
            else:
                c.violation(R, f"descriptor|{ck}.{pk}", f"{ck}.{pk}: database.msgpack says kind={p_.kind} alias_for={p_.alias_for} serialization={p_.ser}/{p_.ser_as} type={p_.dtype_kind}:{p_.dtype}; database.json says kind={kk} alias_for={j_alias} serialization={j_ser}/{j_ser_as} type={dk}:{dv} — one of the two copies was edited by hand", "rbx_reflection_database/database.msgpack", instance=f"descriptor:{ck}.{pk}")
        jd = jcl.get("DefaultProperties", {})
        if set(jd) != set(cl.defaults):
            c.violation(R, f"defaults|{ck}", f"{ck}: default-property sets differ: {sorted(set(jd) ^ set(cl.defaults))[:5]}", "rbx_dom_lua/src/database.json", instance=f"defaults:{ck}")
        else:
            for dk_, (vk, _) in cl.defaults.items():
                (jvk, _), = list(jd[dk_].items())
                if jvk != vk:
                    c.violation(R, f"default-type|{ck}.{dk_}", f"default {ck}.{dk_} is a {vk} in msgpack and a {jvk} in database.json", "rbx_dom_lua/src/database.json", instance=f"default:{ck}.{dk_}")
                elif vk in ("Float32", "Float64") and list(jd[dk_].values())[0] is None:
                    nonfinite.append(f"{ck}.{dk_}")
    if nonfinite:
        c.violation(R, "json-default|non-finite-as-null", f"{len(nonfinite)} Float32 defaults that database.msgpack stores as +inf / NaN are `null` in database.json ({', '.join(nonfinite[:4])}, …): serde_json writes non-finite numbers as null, so the JSON copy holds defaults that are not values of the declared type and cannot be decoded as the Float32 its tag announces", "rbx_dom_lua/src/database.json", instance="json-defaults:finite")
    else:
        c.ok(R, "json-defaults:finite")
    c.rules[R]["instances"].add("descriptors")
    c.floor(R, n, 3000, "descriptors cross-checked")
    je = j.get("Enums", {})
    bad = [k for k in set(je) | set(d.enums) if k not in je or k not in d.enums or dict(je[k].get("items", je[k].get("Items", {}))) != d.enums[k][1]]
    if not bad:
        c.ok(R, "enums")
    else:
        c.violation(R, "enums|" + ",".join(sorted(bad)[:3]), f"enum tables differ between the two databases for {sorted(bad)[:5]}", "rbx_dom_lua/src/database.json", instance="enums")


def default_type_pairs(d):
    """{(type of a default value, type its property is serialized as): example `Class.Prop`} for the pairs that differ"""
    out = {}
    for key, cl in sorted(d.classes.items()):
        for dk, (vk, _payload) in sorted(cl.defaults.items()):
            p = d.find_prop(key, dk)
            if p is None:
                continue
            canon = p
            if p.kind == "Alias":
                canon = d.classes[p.cls.key].props.get(p.alias_for) or p
            stype = canon.vtype()
            if canon.ser == "SerializesAs":
                sp = d.classes[canon.cls.key].props.get(canon.ser_as)
                if sp is not None:
                    stype = sp.vtype()
            if vk != stype and stype:
                out.setdefault((vk, stype), f"{key}.{dk}")
    return out


def rule_accept(c, prog, d, R="C16.accept"):
    """The database holds defaults whose value type is not the type their property serializes as (an Attributes map for
    a BinaryString-typed AttributesSerialize, Tags, MaterialColors …).  rbx_xml's conversion turns some (from, to) pairs
    into the target type and hands every other value back unchanged; the writer then writes the value by its OWN type.
    A test in the writer that insists on `value.ty() == <descriptor type>` after the conversion refuses every such
    default — the classes that carry one can no longer be written."""
    c.rule(R, "XML writer: after the conversion step no exit of the property loop insists that the value's type equals the serialized descriptor's type, as long as the database has defaults of another type that the conversion hands back unchanged (decided on the database's own (value type, serialized type) pairs)")
    from . import C06 as _C06
    pairs = default_type_pairs(d)
    conv = common.find_fn(prog, r"conversion::ConvertVariant>::try_convert_cow$|conversion::ConvertVariant for .*>::try_convert_cow$")
    m = tables.top_match(conv)
    converted = set()
    for arm in m["arms"]:
        pt = arm["pat"]
        if pt.get("k") == "Tuple" and len(pt["pats"]) == 2:
            for x in _C06.variants_of(pt["pats"][0]):
                for y in _C06.variants_of(pt["pats"][1]):
                    if x != "_" and y != "_":
                        converted.add((x, y))
    untouched = {k: v for k, v in pairs.items() if k not in converted}
    fn = prog.fn("rbx_xml::serializer::serialize_instance")
    gates = []
    for n in core.walk_fn(fn, into_closures=False):
        if n.get("k") != "If":
            continue
        cnd = core.strip(n["c"])
        if cnd.get("k") != "Binary" or cnd.get("op") not in ("==", "!="):
            continue
        sides = [core.strip(cnd["l"]), core.strip(cnd["r"])]
        tys = [x for x in sides if x.get("k") == "MethodCall" and x["m"] == "ty" and not x["args"]]
        others = [x for x in sides if x not in tys and "VariantType" in (x.get("ty") or "")]
        if len(tys) != 1 or len(others) != 1:
            continue
        mismatch_branch = n["t"] if cnd["op"] == "!=" else n.get("f")
        if mismatch_branch is not None and any(y.get("k") == "Ret" and "Err" in core.fingerprint(y.get("e", {}), 3) for y in core.walk(mismatch_branch)):
            gates.append(n)
    c.sample({"rule": R, "default_pairs_differing": {f"{a}->{b}": ex for (a, b), ex in sorted(pairs.items())}, "handed_back_unchanged": sorted(f"{a}->{b}" for a, b in untouched), "type_gates": len(gates)})
    c.floor(R, len(pairs), 1, "(default value type, serialized type) pairs that differ in the database")
    inst = "xml-writer:no-type-gate-after-conversion"
    if gates and untouched:
        (a, b), ex = sorted(untouched.items())[0]
        c.violation(R, "xml-writer|type-gate", f"serialize_instance returns an error when the (converted) value's type is not the serialized descriptor's type; the database's own defaults include {len(untouched)} such pair(s) the conversion hands back unchanged — e.g. {ex} is a {a} under a property serialized as {b}: every class carrying such a default can no longer be written to XML", core.loc(gates[0]), instance=inst)
    else:
        c.ok(R, inst)


def run(c, prog):
    d = dbm.Database()
    c.analysed["database"] = {"classes": len(d.classes), "properties": sum(len(x.props) for x in d.classes.values()), "enums": len(d.enums),
                              "defaults": sum(len(x.defaults) for x in d.classes.values()), "version": d.version}
    results = rule_data(c, prog, d)
    rule_oblig(c, prog, results)
    rule_dflt(c, prog)
    rule_load(c, prog)
    rule_gen(c, prog)
    rule_closed(c, prog, d)
    rule_xref(c, prog, d)
    rule_accept(c, prog, d)
    from . import C06
    C06.rule_desc(core.Alias(c, "C16"), prog)
    C06.rule_name(core.Alias(c, "C16"), prog)     # the one lookup the XML reader performs for every instance: `Name`
    from . import C08 as _C08
    _C08.rule_default(core.Alias(c, "C16"), prog)     # the binary writer's default for a missing cell: the database's (through the superclass chain), not the type's zero
    from . import C04 as _C04
    _C04.rule_prefilter(core.Alias(c, "C16"), prog)     # a default whose type is the serialized type, not the declared one, must still be read
    # `an instance populated with its class's defaults is written and read back unchanged by both formats`: the scalar
    # codecs of the binary format (the defaults include i32::MAX) and the XML SharedString dictionary (31 defaults are the
    # empty SharedString) are the parts of the codecs that clause leans on
    from . import C01_alg, C02
    C01_alg.run(core.Alias(c, "C16"), prog)
    C02.rule_twopass(core.Alias(c, "C16"), prog)
    c.not_decided += ["`written and read back unchanged by both formats` (a run)", "future databases (the check reads whatever database is in the tree)"]
