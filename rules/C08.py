"""C08 — binary class columns with mixed property sets.
C08.state (per-class serializer state is updated order-insensitively), C08.own (per-instance value closure reads only its
own instance; lookup order canonical -> aliases -> default; migration with fallback), C08.default, C08.col."""
import re

from sa import core, discipline as D, ioseq
from . import common

ST = "rbx_binary::serializer::state::"
PI = ST + "PropInfo"
TI = ST + "TypeInfo"


def rule_state(c, prog):
    R = "C08.state"
    c.rule(R, "collect_type_info runs once per instance in sibling order; every write to per-class state must be order-insensitive: set insertion, insert-if-absent keyed by the canonical name, or a monotone join — a plain assignment of an instance-dependent value is last-writer-wins and makes success depend on sibling order")
    fn = common.find_fn(prog, r"serializer::state::SerializerState.*::collect_type_info$")
    muts = [m for m in D.field_mutations(fn) if m["field"].startswith(PI + ".") or m["field"].startswith(TI + ".")]
    c.floor(R, len(muts), 5, "per-class state mutation sites")
    allowed_calls = {
        (TI + ".instances", "push"): "column order = INST order (intended)",
        (TI + ".properties_visited", "insert"): "set insertion",
        (TI + ".properties", "insert"): "insert-if-absent (guard checked below)",
        (TI + ".properties", "get_mut"): "element access",
        (PI + ".aliases", "insert"): "set insertion",
    }
    for m in muts:
        fld = m["field"]
        if m["how"].startswith("call:"):
            meth = m["how"].rsplit("::", 1)[-1]
            inst = f"{fld}|{meth}"
            if (fld, meth) in allowed_calls:
                c.ok(R, inst)
            else:
                c.violation(R, f"{fld}|{meth}", f"collect_type_info mutates {fld} via `{meth}`, which is not a confirmed order-insensitive update", m["sp"], instance=inst)
        elif m["how"] == "assign":
            # find the HIR assignment and its guard
            guarded = False
            node = None
            fname = fld.rsplit(".", 1)[-1]
            for n in core.walk_fn(fn):
                if n.get("k") == "If":
                    for x in core.walk(n["t"]):
                        if x.get("k") == "Assign" and core.strip(x["l"]).get("k") == "Field" and core.strip(x["l"])["f"] == fname:
                            cnd = core.strip(n["c"])
                            rhs = core.strip(x["r"])
                            # guard forms: rhs.is_some()  |  if let Some(_) = rhs
                            if cnd.get("k") == "MethodCall" and cnd["m"] == "is_some" and core.strip(cnd["recv"]).get("lid") == rhs.get("lid") and rhs.get("lid") is not None:
                                guarded = True
                            if cnd.get("k") == "LetExpr" and "Some" in core.pat_str(cnd["pat"]) and core.strip(cnd["init"]).get("lid") == rhs.get("lid") and rhs.get("lid") is not None:
                                guarded = True
                            if cnd.get("k") == "MethodCall" and cnd["m"] == "is_none" and core.place_root(cnd["recv"])[1][-1:] == [fname]:
                                guarded = True
            for x in core.walk_fn(fn):
                if x.get("k") == "Assign" and core.strip(x["l"]).get("k") == "Field" and core.strip(x["l"])["f"] == fname:
                    node = x
                    rhs = core.strip(x["r"])
                    if rhs.get("k") == "MethodCall" and rhs["m"] in ("or", "or_else") and core.place_root(rhs["recv"])[1][-1:] == [fname]:
                        guarded = True
            inst = f"{fld}|assign"
            if guarded:
                c.ok(R, inst)
            else:
                c.violation(R, f"{fld}|assign|unguarded", f"collect_type_info assigns `{fname}` of the shared per-class PropInfo unconditionally from the current instance's spelling: the last instance visited wins. With Part{{BrickColor}} followed by Part{{Color3uint8}} the established migration is overwritten with None and serialization fails with a type mismatch, while the reverse sibling order succeeds", m["sp"], instance=inst)
        else:
            c.violation(R, f"{fld}|{m['how']}", f"collect_type_info takes `&mut {fld}` in an unclassified way", m["sp"])
    # insert-if-absent guard on properties.insert, keyed by the canonical name
    roles = cti_roles(prog, fn)
    ok = False
    if roles["insert"] is not None and roles["key"] is not None:
        for n in core.walk_fn(fn):
            if n.get("k") == "If" and any(x is roles["insert"] for x in core.walk(n["t"])):
                cnd = core.strip(n["c"])
                if cnd.get("k") == "Unary" and cnd["op"] == "!":
                    e = core.strip(cnd["e"])
                    if e.get("k") == "MethodCall" and e["m"] == "contains_key" and core.place_root_lid(e["recv"]) == (roles["ti"], ["properties"]) and core.place_root_lid(e["args"][0])[0] == roles["key"]:
                        ok = True
            # entry API: `.entry(key).or_insert_with(..)` is insert-if-absent as well
        if not ok:
            ok = False
    key_ok = ok and roles["keysrc"] and roles["keysrc"] <= {"canonical", "own-name"} and "canonical" in roles["keysrc"]
    if key_ok:
        c.ok(R, "properties:insert-if-absent(canonical_name)")
    else:
        c.violation(R, "properties|guard", f"collect_type_info no longer inserts the PropInfo under `!<type info>.properties.contains_key(&key)` with the key being the canonical name (guard on the same map and key: {ok}; the key takes its values from {sorted(roles['keysrc'])})", fn.sp, instance="properties:insert-if-absent(canonical_name)")
    # a `continue`/`return Ok` inside the per-property loop must only skip the current property
    fl = [core.as_for(n) for n in core.walk_fn(fn) if core.as_for(n) is not None and n.get("k") != "DropTemps"]
    inst_lid = common.param_lid_by_type(fn, lambda t: t.lstrip("&").replace("'dom ", "").strip().endswith("instance::Instance"))
    outer = [f for f in fl if core.place_root_lid(f[1])[0] == inst_lid and "properties" in core.place_root_lid(f[1])[1]]
    bad_ret = []
    if outer:
        for x in core.walk(outer[0][2]):
            if x.get("k") == "Ret" and "e" in x:
                e = core.strip(x["e"])
                if e.get("k") == "Call" and e["f"].get("def") == "core::result::Result::Ok":
                    bad_ret.append(core.loc(x))
    if outer:
        body = core.strip(outer[0][2])
        stmts = body["b"]["stmts"] if body.get("k") == "Block" else []
        # (i) SharedString values are discovered for *every* instance: the discovery precedes any `continue`
        # (the `already visited` skip is per class, a second instance's value would otherwise never be registered)

        def has_cont(n):
            for x in core.walk(n, into_closures=False):
                if x.get("k") == "Continue":
                    return True
            return False

        def tests_sstr(n):
            for x in core.walk(n, into_closures=False):
                if x.get("k") == "LetExpr" and "Variant::SharedString" in core.pat_str(x["pat"]):
                    return True
                if x.get("k") == "Match" and x.get("src") == "Normal" and any("Variant::SharedString" in core.pat_str(a["pat"]) for a in x["arms"]):
                    return True
            return False
        idx_s = next((i for i, st in enumerate(stmts) if tests_sstr(st.get("e") or st.get("init") or {})), None)
        idx_c = next((i for i, st in enumerate(stmts) if has_cont(st.get("e") or st.get("init") or {})), None)
        if idx_s is not None and (idx_c is None or idx_s < idx_c):
            c.ok(R, "sstr:discovered-for-every-instance")
        else:
            c.violation(R, "sstr|after-skip", "collect_type_info discovers SharedString values only after the `property already visited for this class` skip: the value of a second instance of the same class is never registered (its SSTR index is missing; serialize_properties panics or writes the wrong string). Each instance alone serializes, the pair does not", fn.sp, instance="sstr:discovered-for-every-instance")
        # (ii) no mutable local is carried from one property to the next (a value computed for one property must not
        # leak into the next): everything assigned in the loop body is declared in it
        declared = set()
        for st in core.walk_lets(body):
            stack = [st.get("pat")]
            while stack:
                x = stack.pop()
                if isinstance(x, dict):
                    if x.get("k") == "Binding":
                        declared.add(x["lid"])
                    stack.extend(v for v in x.values() if isinstance(v, (dict, list)))
                elif isinstance(x, list):
                    stack.extend(x)
        carried = []
        for x in core.walk(body, into_closures=False):
            if x.get("k") in ("Assign", "AssignOp"):
                l = core.strip(x["l"])
                if l.get("k") == "Path" and l.get("res") == "local" and l["lid"] not in declared:
                    carried.append(l.get("name"))
        if not carried:
            c.ok(R, "loop:no-carried-locals")
        else:
            c.violation(R, "loop|carried|" + ",".join(sorted(set(carried))), f"collect_type_info assigns {sorted(set(carried))} inside the per-property loop although they are declared outside it: what one property set is still there for the next one (e.g. a migration found for BrickColor sticks to the property visited after it, depending on map iteration order)", fn.sp, instance="loop:no-carried-locals")
    if outer and not bad_ret:
        c.ok(R, "loop:no-early-success-return")
    else:
        c.violation(R, "loop|early-ok", f"collect_type_info returns Ok from inside the per-property loop ({bad_ret}): the remaining properties of that instance are never registered (columns dropped depending on map iteration order)", fn.sp, instance="loop:no-early-success-return")


def cti_roles(prog, fn):
    """roles of the locals of collect_type_info, by data flow:
       key   — the local used as the key of `<type info>.properties.insert(key, PropInfo{..})`
       ti    — the local whose `.properties` map that is
       sty   — the local handed to Type::from_rbx_type (the serialized value type of the column)
       keysrc— how `key` gets its values: set of 'canonical' (a `.canonical.name` of looked-up descriptors) /
               'own-name' (the property name being visited) / 'other:<expr>'"""
    roles = {"key": None, "ti": None, "sty": None, "keysrc": set(), "insert": None}
    loops = [core.as_for(n) for n in core.walk_fn(fn, into_closures=False) if core.as_for(n) is not None and n.get("k") != "DropTemps"]
    prop_lids = set()
    for fl in loops:
        if "properties" in core.place_root(fl[1])[1]:
            stack = [fl[0]]
            while stack:
                x = stack.pop()
                if isinstance(x, dict):
                    if x.get("k") == "Binding":
                        prop_lids.add(x["lid"])
                    stack.extend(v for v in x.values() if isinstance(v, (dict, list)))
                elif isinstance(x, list):
                    stack.extend(x)
    for n in core.walk_fn(fn):
        if n.get("k") == "MethodCall" and n["m"] == "insert" and len(n["args"]) == 2 and core.place_root(n["recv"])[1][-1:] == ["properties"]:
            v = core.strip(n["args"][1])
            if v.get("k") == "Struct" and (v.get("def") or "").endswith("PropInfo"):
                roles["insert"] = n
                roles["key"] = core.place_root_lid(n["args"][0])[0]
                roles["ti"] = core.place_root_lid(n["recv"])[0]
        if n.get("k") == "Call" and (core.callee(n) or "").endswith("Type::from_rbx_type") and n["args"]:
            roles["sty"] = core.place_root_lid(n["args"][0])[0]
    k = roles["key"]
    if k is not None:
        srcs = []
        for st in core.walk_lets(fn.body):
            if st["pat"].get("lid") == k and "init" in st:
                srcs.append(st["init"])
        for n in core.walk_fn(fn):
            if n.get("k") == "Assign" and core.strip(n["l"]).get("lid") == k:
                srcs.append(n["r"])
        # locals bound to the `canonical` field of looked-up descriptors by a pattern (`PropertyDescriptors { canonical, .. }`)
        canon_lids = set()

        def pats(x):
            if isinstance(x, dict):
                if x.get("k") == "Struct" and (x.get("def") or "").endswith("PropertyDescriptors") and isinstance(x.get("fields"), list) and x["fields"] and "p" in x["fields"][0]:
                    for fl_ in x["fields"]:
                        if fl_.get("f") == "canonical":
                            q = fl_["p"]
                            while q.get("k") in ("Ref", "Deref") and isinstance(q.get("p"), dict):
                                q = q["p"]
                            if q.get("k") == "Binding":
                                canon_lids.add(q["lid"])
                for v_ in x.values():
                    if isinstance(v_, (dict, list)):
                        pats(v_)
            elif isinstance(x, list):
                for v_ in x:
                    pats(v_)
        pats(fn.body)
        for e in srcs:
            lid, path = core.place_root_lid(e)
            names = [p for p in path if not p.startswith(".") and p != "?"]
            if ("canonical" in names or lid in canon_lids) and names[-1:] == ["name"]:
                roles["keysrc"].add("canonical")
            elif lid in prop_lids:
                roles["keysrc"].add("own-name")
            else:
                roles["keysrc"].add("other:" + core.fingerprint(e, 4))
    return roles


def C08_contains(t, sub):
    if t == sub:
        return True
    if isinstance(t, (tuple, list)):
        return any(C08_contains(x, sub) for x in t)
    return False


def rule_own(c, prog):
    R = "C08.own"
    c.rule(R, "the per-instance value closure captures only shared references and reads only its own instance, in the order canonical name -> known aliases -> class default; the migration closure falls back to the original value on Err")
    fn = common.find_fn(prog, r"serializer::state::SerializerState.*::serialize_properties$")
    clos = []
    for n in core.walk_fn(fn):
        if n.get("k") == "MethodCall" and n["m"] == "map" and n["args"] and core.strip(n["args"][0]).get("k") == "Closure":
            clos.append((n, core.strip(n["args"][0])))
    # the value closure: parameter named by pattern, body reads instance.properties
    val = [cl for n, cl in clos if any(x.get("k") == "MethodCall" and x["m"] == "get" and "properties" in core.place_root(x["recv"])[1] for x in core.walk(cl["body"]))]
    if len(val) != 1:
        raise core.AnchorMissing("serialize_properties: per-instance value closure not found")
    cl = val[0]
    caps = cl.get("captures", [])
    bad = [cp for cp in caps if "Immutable" not in cp.get("kind", "") and "ByValue" not in cp.get("kind", "")]
    by_mut = [cp for cp in caps if "Mutable" in cp.get("kind", "") or "UniqueImmutable" in cp.get("kind", "")]
    if not by_mut:
        c.ok(R, "value-closure:captures-shared-only")
    else:
        c.violation(R, "value-closure|captures", f"the per-instance value closure captures {[(cp.get('name'), cp.get('kind')) for cp in by_mut]} mutably: state can leak from one instance's value to the next", core.loc(cl), instance="value-closure:captures-shared-only")
    c.sample({"rule": R, "value_closure_captures": [(cp.get("name"), cp.get("kind")) for cp in caps]})
    # the cascade that chooses a value, read off the closure's symbolic value points (sa.sym): how it is spelled
    # (early returns, if / else-if chain, `for` over the aliases or `find_map`) is irrelevant
    from sa import sym, wire
    env = {}
    param = cl["params"][0]
    pp = param.get("pat") or param
    inst_t = ("in", "instance")
    for x in core.walk(cl["body"]):
        if x.get("k") == "Path" and x.get("res") == "local" and x["lid"] not in env:
            env[x["lid"]] = inst_t if x["lid"] == pp.get("lid") else ("in", "cap:" + x["name"])
    env[pp.get("lid")] = inst_t
    try:
        I, val, ex = wire.run_region(prog, cl["body"], env, [], depth=5, opaque={"rbx_reflection::migration::PropertyMigration::perform"})
        pts = sym.value_points(I.events, val)
    except sym.Unsupported as e:
        c.violation(R, "value-closure|cannot-analyse", f"the per-instance value closure is outside the symbolic model: {e}", core.loc(cl), instance="value-closure:lookup-order")
        pts = None
    if pts is not None:
        PROPS = sym.fld(inst_t, "properties")

        def gets_in(t, out=None):
            out = [] if out is None else out
            if isinstance(t, tuple) and t:
                if t[0] == "app" and t[1].endswith("::get") and len(t[2]) == 2 and isinstance(t[2][0], tuple) and t[2][0][:1] == ("fld",) and t[2][0][2] == "properties":
                    out.append(t)
                for x in t:
                    gets_in(x, out)
            return out

        ALIASES = sym.fld(("in", "cap:prop_info"), "aliases")

        def is_alias_key(k):
            """the key is an element of prop_info.aliases (possibly through .iter())"""
            def elems(t, out):
                if isinstance(t, tuple) and t:
                    if t[0] == "elem":
                        out.append(t)
                    for x in t:
                        elems(x, out)
                return out
            return any(C08_contains(e, ALIASES) for e in elems(k, []))
        canon = alias = dflt = None
        foreign = []
        for idx, (cs, v, lp) in enumerate(pts):
            for g in gets_in(v) + [g for cnd in cs for g in gets_in(cnd)]:
                if g[2][0] != PROPS:
                    foreign.append(sym.term_str(g, 4))
            vg = gets_in(v)
            if vg and not is_alias_key(vg[0][2][1]) and canon is None:
                canon = (idx, vg[0])
            elif vg and is_alias_key(vg[0][2][1]) and alias is None:
                alias = (idx, cs, lp, vg[0])
            elif C08_contains(v, sym.fld(("in", "cap:prop_info"), "default_value")) and dflt is None:
                dflt = (idx, cs)
        order_ok = False
        if canon and alias:
            g0 = canon[1]
            key_ok = g0[2][1] == ("in", "cap:prop_name") or C08_contains(g0[2][1], ("in", "cap:prop_name"))
            neg_canon = any(C08_contains(cnd, g0) and (cnd[0] == "not" or (cnd[0] == "is" and cnd[2] == sym.NONE)) for cnd in alias[1])
            order_ok = key_ok and neg_canon and not foreign
        if order_ok:
            c.ok(R, "value-closure:lookup-order")
        else:
            c.violation(R, "value-closure|order", f"the value closure does not look the property up on its own instance by canonical name first and only then by each known alias (canonical lookup {'found' if canon else 'missing'}, alias lookup {'found' if alias else 'missing'}, alias tried only after the canonical lookup failed: {bool(canon and alias and order_ok)}, lookups on other maps: {foreign}): an explicit canonical value must win over a legacy/alias spelling, and no other instance may be read", core.loc(cl), instance="value-closure:lookup-order")
        dflt_ok = False
        if dflt and canon:
            g0 = canon[1]
            cs = dflt[1]
            neg_canon = any(C08_contains(cnd, g0) and (cnd[0] == "not" or (cnd[0] == "is" and cnd[2] == sym.NONE)) for cnd in cs)
            # the default is the *last* resort: the alias search has failed as well — either it is a loop with an early
            # return (falling out of the loop means no alias matched) or its failure is among the path conditions
            alias_failed = bool(alias) and (bool(alias[2]) or any(C08_contains(cnd, alias[3]) and (cnd[0] == "not" or (cnd[0] == "is" and cnd[2] == sym.NONE)) for cnd in cs))
            dflt_ok = neg_canon and alias_failed
        if dflt_ok:
            c.ok(R, "value-closure:default-last")
        else:
            c.violation(R, "value-closure|default", "the value closure does not fall back to prop_info.default_value last, after the canonical and alias lookups failed", core.loc(cl), instance="value-closure:default-last")
    # migration closure: Ok(new) -> new, Err(_) -> the original value (symbolic site analysis shared with C15.sites)
    from . import C15_sites
    try:
        _f, r = C15_sites.site_binary_writer(prog)
        ok = r["migrated_store"] >= 1 and r["err"] == {"stores the unmigrated value"}
        detail = {k: (sorted(v) if isinstance(v, set) else v) for k, v in r.items()}
    except (sym.Unsupported, core.AnalysisError) as e:
        ok, detail = False, str(e)
    if ok:
        c.ok(R, "migration-closure:fallback")
    else:
        c.violation(R, "migration-closure|fallback", f"the per-value migration no longer maps Ok(new) -> new and Err(_) -> the original value ({detail})", fn.sp, instance="migration-closure:fallback")


def rule_scratch(c, prog, R="C08.scratch"):
    """per-value scratch buffers of the binary writer must not carry one value's bytes into the next"""
    fns = [f for f in prog.lib_fns() if f.crate == "rbx_binary" and "::serializer::" in f.path]
    common.rule_scratch(c, prog, R, fns, what="instance")


def rule_default(c, prog):
    R = "C08.default"
    c.rule(R, "a missing property is filled from database.find_default_property(<this class's descriptor>, canonical name), else from fallback_default_value(serialized type), else the column is refused; never from another instance — decided on the symbolic value of the expression stored in PropInfo.default_value (sa.sym), so `and_then / or_else / ok_or_else`, nested `match`es and early returns are the same thing")
    from sa import sym, wire
    fn = common.find_fn(prog, r"serializer::state::SerializerState.*::collect_type_info$")
    roles = cti_roles(prog, fn)
    FD = re.compile(r"ReflectionDatabase::<'a>::find_default_property$|database::ReflectionDatabase.*::find_default_property$")
    FB = re.compile(r"::fallback_default_value$")
    # the local stored as PropInfo.default_value, and the statement that computes it
    dv_lid = None
    if roles["insert"] is not None:
        lit = core.strip(roles["insert"]["args"][1])
        for f_ in lit.get("fields") or []:
            if f_.get("f") == "default_value":
                dv_lid = core.place_root_lid(f_["e"])[0]
    st = next((st_ for st_ in core.walk_lets(fn.body) if st_["pat"].get("k") == "Binding" and st_["pat"].get("lid") == dv_lid and st_.get("init") is not None), None)
    if dv_lid is None or st is None:
        raise core.AnchorMissing("collect_type_info: the expression stored as PropInfo.default_value")
    # everything the default is computed from: the statement itself and the lets (in the same block, before it) that feed it
    feeders = []
    wanted = {y["lid"] for y in core.walk(st["init"]) if y.get("k") == "Path" and y.get("res") == "local"}
    for st2 in core.walk_lets(fn.body):
        if st2 is st:
            break
        if st2["pat"].get("k") == "Binding" and st2["pat"].get("lid") in wanted and st2.get("init") is not None and any(y.get("k") in ("Call", "MethodCall") and (FD.search(core.callee(y) or "") or FB.search(core.callee(y) or "")) for y in core.walk(st2["init"])):
            feeders.append(st2)
    env = {}
    region = {"k": "Block", "b": {"stmts": [dict(x) for x in feeders], "expr": st["init"]}}
    for y in core.walk(region):
        if y.get("k") == "Path" and y.get("res") == "local" and y["lid"] not in env:
            env[y["lid"]] = ("in", "key") if y["lid"] == roles["key"] else (("in", "sty") if y["lid"] == roles["sty"] else (("in", "type_info") if y["lid"] == roles["ti"] else ("in", "l:" + str(y.get("name")))))
    for x in feeders:
        env.pop(x["pat"]["lid"], None)
    inst_all = ("db-default:canonical-name", "fallback:serialized-type", "order:db-then-fallback", "class:own-descriptor")
    try:
        opaque = {p_ for p_ in prog.fns if FD.search(p_) or FB.search(p_)}
        I, val, ex = wire.run_region(prog, region, env, [], depth=4, opaque=opaque)
        pts = sym.value_points(I.events, val)
    except (sym.Unsupported, core.AnalysisError) as e:
        for inst in inst_all:
            c.violation(R, f"cannot-analyse|{inst}", f"the default-value expression of collect_type_info is outside the symbolic model: {e}", core.loc(st), instance=inst)
        return

    def apps(t, rx, out):
        if isinstance(t, tuple) and t:
            if t[0] == "app" and isinstance(t[1], str) and rx.search(t[1]):
                out.append(t)
            for x in t:
                apps(x, rx, out)
        elif isinstance(t, list):
            for x in t:
                apps(x, rx, out)
        return out
    everything = [val] + list(I.events)
    fds = []
    for t in apps(everything, FD, []):
        if t not in fds:
            fds.append(t)
    fbs = []
    for t in apps(everything, FB, []):
        if t not in fbs:
            fbs.append(t)
    CD = sym.fld(("in", "type_info"), "class_descriptor")
    key_ok = len(fds) == 1 and len(fds[0][2]) == 3 and C08_contains(fds[0][2][2], ("in", "key")) and not any(isinstance(x, tuple) and x[:1] == ("in",) and x[1].startswith("l:") for x in _leaves(fds[0][2][2]))
    cls_ok = len(fds) == 1 and len(fds[0][2]) == 3 and C08_contains(fds[0][2][1], CD)
    if key_ok:
        c.ok(R, "db-default:canonical-name")
    else:
        got = sym.term_str(fds[0][2][2], 4) if fds and len(fds[0][2]) == 3 else None
        c.violation(R, "db-default|key", f"find_default_property is looked up with `{got}`; database defaults are keyed by the canonical name (the key the column is filed under), so a column first met under an alias or legacy spelling would fall back to the type's neutral value and the result would depend on sibling order", fn.sp, instance="db-default:canonical-name")
    if len(fbs) == 1 and len(fbs[0][2]) >= 1 and C08_contains(fbs[0][2][-1], ("in", "sty")):
        c.ok(R, "fallback:serialized-type")
    else:
        c.violation(R, "fallback|arg", "fallback_default_value is no longer called with the serialized type (the type the column's wire type is derived from)", fn.sp, instance="fallback:serialized-type")
    # order: a value that comes from the fallback is produced only where the database default is known to be missing
    ok_order = bool(fds) and bool(fbs)
    n_fb = 0
    for cs, v, lp in pts:
        if v is None or not apps(v, FB, []):
            continue
        if apps(v, FD, []):
            continue      # one term mentioning both: an unsplit chain; judged by the conditions below
        n_fb += 1
        neg = False
        for cnd in cs:
            if apps(cnd, FD, []) or C08_contains(cnd, CD):
                if cnd[0] == "not" or (cnd[0] == "is" and cnd[2] == sym.NONE) or cnd[0] == "else":
                    neg = True
        if not neg:
            ok_order = False
    # the database default, where there is one, is the value: some point yields it
    db_pts = [1 for cs, v, lp in pts if v is not None and apps(v, FD, []) and not apps(v, FB, [])]
    if ok_order and n_fb >= 1 and db_pts:
        c.ok(R, "order:db-then-fallback")
    else:
        c.violation(R, "order|chain", f"the default stored for a column is not `the database default, and the type's fallback only where the database has none` (points yielding the database default: {len(db_pts)}, points yielding the fallback: {n_fb}, fallback only after a missing database default: {ok_order})", fn.sp, instance="order:db-then-fallback")
    if cls_ok:
        c.ok(R, "class:own-descriptor")
    else:
        c.violation(R, "class|descriptor", "the default is not looked up through type_info.class_descriptor", fn.sp, instance="class:own-descriptor")


def _leaves(t):
    if isinstance(t, tuple) and t:
        if t[0] == "in":
            yield t
        else:
            for x in t:
                yield from _leaves(x)


def rule_col(c, prog):
    R = "C08.col"
    c.rule(R, "one PROP chunk per PropInfo; one value per element of type_info.instances in INST order")
    fn = common.find_fn(prog, r"serializer::state::SerializerState.*::serialize_properties$")
    fl = [core.as_for(n) for n in core.walk_fn(fn, into_closures=False) if core.as_for(n) is not None and n.get("k") != "DropTemps"]
    self_lid = fn.params[0]["lid"]
    ok_loops = False
    ti_lids = set()
    if len(fl) >= 2:
        l0, p0 = core.place_root_lid(fl[0][1])
        stack = [fl[0][0]]
        while stack:
            x = stack.pop()
            if isinstance(x, dict):
                if x.get("k") == "Binding":
                    ti_lids.add(x["lid"])
                stack.extend(v for v in x.values() if isinstance(v, (dict, list)))
            elif isinstance(x, list):
                stack.extend(x)
        l1, p1 = core.place_root_lid(fl[1][1])
        ok_loops = l0 == self_lid and [q for q in p0 if not q.startswith(".")][:1] == ["type_infos"] and l1 in ti_lids and [q for q in p1 if not q.startswith(".")] == ["properties"]
    if ok_loops:
        c.ok(R, "loops:class-then-property")
    else:
        c.violation(R, "loops|shape", "serialize_properties does not iterate every class (self.type_infos) and, inside, every PropInfo of that class", fn.sp, instance="loops:class-then-property")
    # the column's values: one per element of <class>.instances, in order — the iterator the encoder arms consume
    ok = False
    for st in core.walk_lets(fn.body):
        if "init" not in st or st["pat"].get("k") != "Binding":
            continue
        lid, p = core.place_root_lid(st["init"])
        fields = [x for x in p if not x.startswith(".")]
        meths = [x for x in p if x.startswith(".")]
        if lid in ti_lids and fields == ["instances"] and ".enumerate()" in meths:
            ok = meths[:1] in ([".iter()"], [".into_iter()"]) and not any(m in meths for m in (".rev()", ".skip()", ".take()", ".filter()", ".step_by()", ".chain()", ".filter_map()", ".take_while()", ".skip_while()"))
    if ok:
        c.ok(R, "values:one-per-instance-in-order")
    else:
        c.violation(R, "values|source", "the column values are not `<class>.instances.iter().map(..).enumerate()` (one value per instance, INST order)", fn.sp, instance="values:one-per-instance-in-order")


def rule_sstr_default(c, prog, R="C08.state"):
    """the column default that is stored is the value that was checked for being a SharedString"""
    fn = common.find_fn(prog, r"serializer::state::SerializerState.*::collect_type_info$")
    inst = "sstr:column-default-registered"
    lits = [x for x in core.walk_fn(fn) if x.get("k") == "Struct" and (x.get("def") or "").endswith("::PropInfo")]
    if not lits:
        raise core.AnchorMissing("collect_type_info builds no PropInfo")
    stored = None
    for f in lits[0]["fields"]:
        if f.get("f") == "default_value":
            e = core.strip(f["e"])
            if e.get("k") == "Path" and e.get("res") == "local":
                stored = e["lid"]
    if stored is None:
        c.not_decided.append("PropInfo.default_value is not filled from a local")
        return
    # registrations: a test for Variant::SharedString whose taken branch pushes onto the SharedString list
    tests = []
    for n in core.walk_fn(fn):
        scr, body = None, None
        if n.get("k") == "If" and core.strip(n["c"]).get("k") == "LetExpr" and "SharedString" in core.pat_str(core.strip(n["c"])["pat"]):
            scr, body = core.strip(n["c"])["init"], n["t"]
        elif n.get("k") == "Match" and n.get("src") == "Normal":
            arms = [a for a in n["arms"] if "SharedString" in core.pat_str(a["pat"])]
            if arms:
                scr, body = n["e"], arms[0]["body"]
        if scr is None:
            continue
        pushes = any(y.get("k") in ("MethodCall", "Call") and ((y.get("m") == "push" and "SharedString" in (core.strip(y["recv"]).get("ty") or "")) or (core.callee_generic(y) or "").endswith("track_shared_string") or any("Vec<rbx_types::shared_string::SharedString>" in (a.get("ty") or "") for a in core.call_args(y))) for y in core.walk(body))
        if pushes:
            tests.append(scr)
    on_stored = [t for t in tests if any(y.get("k") == "Path" and y.get("res") == "local" and y.get("lid") == stored for y in core.walk(t))]
    if on_stored:
        c.ok(R, inst)
    else:
        c.violation(R, "sstr|default-not-registered", "collect_type_info stores a column default that was never tested for being a SharedString (the registration looks at another value — e.g. only the database default, not the type fallback): instances that lack the property are filled with a SharedString that has no SSTR index, and serialize_properties fails although every instance serializes alone", fn.sp, instance=inst)


def legacy_before_alias(d):
    """(class, legacy spelling L, alias spelling A, new property N): L migrates to N, A is a non-migrating spelling of N,
    and L sorts before A — an instance carrying both has its explicit value (under A) beaten by the migrated one when
    the spellings are tried in name order"""
    out = []
    for ck in sorted(d.classes):
        names = {}
        for a in d.chain(ck):
            for nm, p in d.classes[a].props.items():
                names.setdefault(nm, (a, p))
        legacy, alias = {}, {}
        for nm, (a, p) in names.items():
            C = p
            if p.kind == "Alias":
                C = d.classes[a].props.get(p.alias_for)
                if C is None:
                    continue
            if C.kind != "Canonical":
                continue
            if C.ser == "Migrate":
                legacy.setdefault(C.migrate_to, []).append(nm)
            elif nm != C.name:
                alias.setdefault(C.name, []).append(nm)
        for N, Ls in legacy.items():
            for L in Ls:
                for A in alias.get(N, []):
                    if L < A:
                        out.append((ck, L, A, N))
    return out


def rule_pref(c, prog, R="C08.pref"):
    """which spelling supplies an instance's value when it carries several"""
    from sa import db as dbm
    c.rule(R, "binary writer: when an instance lacks the canonical name, the spellings recorded for the column are tried so that a spelling of the property itself comes before a legacy spelling whose value has to be migrated (an explicit value beats a migrated one whatever the two are called); decided from the element type and fill site of PropInfo's spelling set and, when that set is ordered by name alone, from the pairs of the bundled database in which the legacy name sorts first")
    adt = prog.adts.get("rbx_binary::serializer::state::PropInfo")
    if adt is None:
        raise core.AnchorMissing("rbx_binary::serializer::state::PropInfo")
    NAME = r"ustr::Ustr|alloc::string::String|&'?\w* ?str"

    def elem_kind(ty):
        """'name' (ordered by the spelling alone), 'ranked' (something sorts before the name), None (not a collection
        of spellings)"""
        m = re.fullmatch(r"[\w:]+<(.*)>", ty)
        if not m or not re.match(r"(alloc::collections::btree::set::BTreeSet|std::collections::hash::set::HashSet|alloc::vec::Vec|indexmap::set::IndexSet|ustr::UstrSet)", ty):
            return None
        el = m.group(1).strip()
        if re.fullmatch(NAME, el):
            return "name"
        if el.startswith("(") and re.search(NAME, el):
            first = el[1:].split(",")[0].strip()
            return "name" if re.fullmatch(NAME, first) else "ranked"
        st = prog.adts.get(el.split("<")[0])
        if st is not None and st.get("variants") and str(st.get("kind")).lower() == "struct":
            flds = st["variants"][0]["fields"]
            if any(re.fullmatch(NAME, f_["ty"]) for f_ in flds):
                return "name" if re.fullmatch(NAME, flds[0]["ty"]) else "ranked"
        return None
    sets = [f for f in adt["variants"][0]["fields"] if elem_kind(f["ty"])]
    if not sets:
        raise core.AnchorMissing("PropInfo: no collection of spellings")
    plain = [f for f in sets if elem_kind(f["ty"]) == "name"]
    inst = "serialize_properties:explicit-spelling-before-legacy"
    if len(sets) > 1 or not plain:
        # spellings are kept apart (two collections) or carry a rank next to the name: the order is no longer the
        # order of the names alone.  A boolean rank must be `this spelling migrates` (false sorts first).
        cfn = common.find_fn(prog, r"serializer::state::SerializerState.*::collect_type_info$")
        for n in core.walk_fn(cfn):
            if n.get("k") == "MethodCall" and n["m"] == "insert" and n["args"] and core.place_root(n["recv"])[1][-1:] == [sets[0]["name"]]:
                a = core.strip(n["args"][0])
                if a.get("k") == "Tup" and a["args"] and (core.strip(a["args"][0]).get("ty") == "bool"):
                    r = core.strip(a["args"][0])
                    if r.get("k") == "Path" and r.get("res") == "local":
                        # `let migrates = <expr>; .. insert((migrates, name))`
                        for st_ in core.walk_lets(cfn.body):
                            if st_["pat"].get("k") == "Binding" and st_["pat"].get("lid") == r.get("lid") and st_.get("init") is not None:
                                r = core.strip(st_["init"])
                    neg = False
                    while r.get("k") == "Unary" and r.get("op") in ("!", "Not"):
                        neg = not neg
                        r = core.strip(r["e"])
                    if r.get("k") == "MethodCall" and r["m"] in ("is_some", "is_none") and "PropertyMigration" in (core.strip(r["recv"]).get("ty") or ""):
                        rroot, rpath = core.place_root(r["recv"])
                        if [q for q in rpath if not q.startswith(".")]:
                            # `prop_info.migration.is_some()`: whether the COLUMN migrates (some spelling seen so far
                            # does), not whether THIS spelling does — every alias met after a legacy name ranks as legacy
                            c.violation(R, "binary-writer|rank-of-column", f"collect_type_info ranks a spelling by `{core.fingerprint(r, 4)}`, the migration recorded for the whole column, instead of by whether the spelling being filed migrates: once a legacy name has been seen, aliases of the new property rank as legacy too and the set is back in name order (BrickColor before Color3uint8), depending on which sibling is visited first", core.loc(n), instance=inst)
                            return
                        migrating_last = (r["m"] == "is_some") != neg
                        if not migrating_last:
                            c.violation(R, "binary-writer|rank-reversed", f"collect_type_info ranks the spellings in PropInfo.{sets[0]['name']} so that migrating (legacy) spellings sort before spellings of the property itself: a migrated value then always beats an explicit one stored under an alias", core.loc(n), instance=inst)
                            return
        c.ok(R, inst)
        return
    fld = plain[0]["name"]
    fn = common.find_fn(prog, r"serializer::state::SerializerState.*::serialize_properties$")
    filtered = False
    for n in core.walk_fn(fn):
        fl = core.as_for(n)
        if fl is not None and fld in core.place_root(fl[1])[1]:
            conds = [y for y in core.walk(fl[2]) if y.get("k") in ("If", "Match") and y.get("src") not in ("ForLoopDesugar", "TryDesugar")]
            # `if let Some(v) = instance.properties.get(alias) { return v }` is the lookup itself; anything else ranks
            if any(not any(z.get("k") == "MethodCall" and z["m"] == "get" for z in core.walk(y.get("c") or y.get("e") or {})) for y in conds):
                filtered = True
    if filtered:
        c.ok(R, inst)
        return
    pairs = legacy_before_alias(dbm.Database())
    distinct = sorted({(L, A, N) for _ck, L, A, N in pairs})
    c.rules[R]["obligations"] += len(distinct)
    if not distinct:
        c.ok(R, inst)
        return
    ex = "; ".join(f"{L} (legacy) before {A} (spelling of {N}) on {len([1 for p in pairs if p[1:] == (L, A, N)])} classes" for L, A, N in distinct)
    c.violation(R, "binary-writer|legacy-before-alias|" + ",".join(f"{L}<{A}" for L, A, N in distinct), f"serialize_properties takes the first hit in PropInfo.{fld}, a set ordered by name that holds legacy (migrating) spellings and spellings of the new property alike: {ex} — an instance carrying both gets the value migrated from the legacy property written and its explicit value dropped; with the explicit value under the canonical name, or the legacy one spelled to sort later, the explicit value wins", fn.sp, instance=inst)


def run(c, prog):
    from . import C16 as _C16
    from sa import db as _dbm
    _C16.rule_sername(core.Alias(c, "C08"), prog, _dbm.Database())     # two canonical properties written under one name lose a value
    _C16.rule_dflt(core.Alias(c, "C08"), prog)     # the column default: nearest class recording one, a root class included
    from . import C15 as _C15
    _C15.rule_memo(core.Alias(c, "C08"), prog)     # what is recorded per class must not depend on the instance visited first
    rule_state(c, prog)
    rule_sstr_default(c, prog)
    rule_own(c, prog)
    rule_pref(c, prog)
    rule_default(c, prog)
    rule_col(c, prog)
    rule_scratch(c, prog)
    from . import C07
    C07.run_sanitisers(core.Alias(c, "C08"), prog)   # SSTR indices vs chunk order: otherwise an instance shows another instance's SharedString
    c.not_decided += ["`succeeds whenever each instance serializes on its own` for every multiset (value-level type logic)"]
